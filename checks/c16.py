"""C16 - table geometry and labels survive save and reopen unchanged.

Bounded exhaustive enumeration of (document, set S of modified attributes, border configuration,
query mode, cycles):

  subset   fresh documents x ALL 2^7 subsets S of {row_height, col_width, header counts, table+sheet
           names, caption text, caption_enabled, table_name_enabled} x border configuration on the
           affected rows/columns x query mode x value rotations
  values   every single value of every attribute's alphabet (all 36 header-count pairs, every size on
           every affected row, every name, ...) as a singleton S
  coords   a second table placed with add_table(x, y) for every (x, y) pair of a coordinate grid
  fixture  every readable fixture (mc.snapshot.readable_fixtures()), untouched (thorough: also with
           the full S applied to its first ordinary table)
  order    every order (4! = 24) in which the four label attributes {table+sheet name, caption text,
           caption_enabled, table_name_enabled} are set on loaded documents whose first table has no
           caption object yet (test-1.numbers + the two smallest such fixtures), on the smallest fixture
           whose table owns one, and on a fresh document; thorough: x geometry attributes set before /
           after the labels x all four boolean pairs
  bordered-set  every readable fixture (<= 4000 cells) in which an ordinary table stores a border
           stroke, plus a library-written document with horizontal and vertical borders that is saved
           and loaded again: EVERY row height and column width of that table is set (distinct values) as
           the very first action on the loaded document - no query before save - and in the variant
           "query everything first, then set" (thorough: also queried afterwards)

  same-object  ALL 2^7 subsets S x {no border, thick} x {unqueried, queried}: the ONE open subject is
           saved three times without being reopened (queried between the saves in the queried mode;
           with sizes in S and borders also with the same borders drawn again between the saves);
           every saved file is opened by the observer and G_1 == G_0, G_2 == G_1, G_3 == G_2 demanded

The subset family's border configurations include the re-bordered ones (3.0 pt then 0.35 pt and
0.35 pt then 3.0 pt on the same edges), so the allowance of the live document and of the file differ
when an existing border is not replaced in memory.

each followed by 2 (quick) / 3 (thorough) open -> [query] -> save -> reopen cycles.

Oracle. A separately opened OBSERVER instance of the document (a twin built by the same API calls for
cycle 0, `Document(file)` afterwards), queried freely, gives the geometry snapshot G_k; the SUBJECT
instance is the one that is saved - queried or not, by the case's query mode.  Demanded:
G_1 == G_0 (nothing changes through save+reopen), G_{k+1} == G_k (no drift), values set through the
API read back live as set, and a queried subject reports what the observer reports.

The border-allowance drift (DESIGN.md C16: a written-back size grew by the allowance the reader adds
again) was repaired by ca6ff89.  The check still CLASSIFIES a size difference as
"border-allowance-drift" when the new value equals floor(round(old) + top/2 + bottom/2) computed here
from the borders the observer reads in the reopened file - that identity matches no known finding any
more, so drift is a VIOLATION like every other difference.
"""
from __future__ import annotations

import hashlib
import json
import os
import struct
import sys
from math import floor

from mc.evidence import FIXTURES, Part, Run, parse_args, run_replay
from mc.pool import Scratch, pmap
from mc.snapshot import readable_fixtures

from numbers_parser import RGB, Border, Document

PID = "C16"

ATTRS = ["row_height", "col_width", "headers", "names", "caption", "caption_enabled", "name_enabled"]
SIZES = [10, 20, 100, 33]
HEADER_ROT = [[0, 0], [2, 3], [5, 5], [1, 0], [3, 1], [0, 4]]
TABLE_NAMES = ["T", "Tábla ✓ 表 \U0001d518", "a/b 'q' \"d\" :: $A$1", "  padded  ", "Name-" * 20]
SHEET_NAMES = ["S", "Feuille été 表", "it's \"s\" + 1", " lead", "Sheet-name-" * 9]
CAPTIONS = ["", "Caption text", "Ünïcode 表 caption\nsecond line", "Caption", "c" * 120]
BOOLS = [True, False]
ALPHABET = {
    "row_height": SIZES, "col_width": SIZES, "headers": HEADER_ROT,
    "names": [[t, s] for t, s in zip(TABLE_NAMES, SHEET_NAMES)],
    "caption": CAPTIONS, "caption_enabled": BOOLS, "name_enabled": BOOLS,
}
BORDERS = {"none": None, "thin": (0.35, "both"), "thick": (3.0, "both"), "oneside": (3.0, "one"),
           # re-bordered: the same edges receive a second border of a different width
           "thick>thin": [(3.0, "both"), (0.35, "both")], "thin>thick": [(0.35, "both"), (3.0, "both")]}
WRITTEN = "<written>"
COORD_GRID = [None, 0.0, 100.5, 350.25, 1234.0, 100.1]
LABEL_ATTRS = ["names", "caption", "caption_enabled", "name_enabled"]
TEMPLATE = "<template>"
FRESH = "<fresh>"
_n = [0]


def _tmp():
    _n[0] += 1
    return Scratch.path(f"c16-{os.getpid()}-{_n[0]}.numbers")


def f32(x):
    return struct.unpack("f", struct.pack("f", x))[0]


def _try(fn):
    try:
        return fn()
    except Exception as e:  # noqa: BLE001
        return f"EXC:{type(e).__name__}:{str(e)[:60]}"


# ---------------------------------------------------------------------------------------------
# observation
# ---------------------------------------------------------------------------------------------
LABELS = ["sheet", "table", "hr", "hc", "coords", "name_en", "cap", "cap_en"]


def geo(doc):
    """Everything C16 speaks about, for every table, through the public accessors."""
    out = []
    for s in doc.sheets:
        for t in s.tables:
            g = {
                "sheet": _try(lambda: s.name), "table": _try(lambda: t.name),
                "hr": _try(lambda: t.num_header_rows), "hc": _try(lambda: t.num_header_cols),
                "coords": _try(lambda: list(t.coordinates)), "name_en": _try(lambda: t.table_name_enabled),
                "cap": _try(lambda: t.caption), "cap_en": _try(lambda: t.caption_enabled),
                "rh": _try(lambda: [t.row_height(r) for r in range(t.num_rows)]),
                "cw": _try(lambda: [t.col_width(c) for c in range(t.num_cols)]),
                "h": _try(lambda: t.height), "w": _try(lambda: t.width),
            }
            out.append(g)
    return out


def allowances(doc):
    """Per table: widest border widths touching each row (top, bottom) and column (left, right),
    read cell by cell from the observer - the quantities the reader adds to a stored size."""
    out = []
    for s in doc.sheets:
        for t in s.tables:
            try:
                nr, nc = t.num_rows, t.num_cols
                rows = [[0.0, 0.0] for _ in range(nr)]
                cols = [[0.0, 0.0] for _ in range(nc)]
                for r, cells in enumerate(t.rows()):
                    for c, cell in enumerate(cells):
                        b = cell.border
                        if b is None:
                            continue
                        if b.top is not None:
                            rows[r][0] = max(rows[r][0], b.top.width)
                        if b.bottom is not None:
                            rows[r][1] = max(rows[r][1], b.bottom.width)
                        if b.left is not None:
                            cols[c][0] = max(cols[c][0], b.left.width)
                        if b.right is not None:
                            cols[c][1] = max(cols[c][1], b.right.width)
                out.append({"rh": rows, "cw": cols})
            except Exception as e:  # noqa: BLE001
                out.append({"rh": None, "cw": None, "exc": f"{type(e).__name__}: {e}"})
    return out


def reread(prev, pair):
    """What the reader reports for a row/column whose previously reported size `prev` was written
    back: round the stored size, add half of each of the two widest borders, floor (model.py
    row_height / col_width)."""
    v = round(prev)
    v += pair[0] / 2
    v += pair[1] / 2
    return floor(v)


# ---------------------------------------------------------------------------------------------
# building cases
# ---------------------------------------------------------------------------------------------
def affected(n):
    return sorted({0, min(2, n - 1), n - 1})


def apply_mods(doc, sheet, table, case, idx=0):
    """Apply the case's border configuration and attribute values to one table.
    -> (expected {label/size key: value}, rows set, cols set)."""
    vals = case.get("vals", {})
    border = BORDERS[case.get("border", "none")]
    order = case.get("order", "borders-first")
    nr, nc = table.num_rows, table.num_cols
    rows, cols = affected(nr), affected(nc)
    exp = {}

    def do_borders():
        if border is None:
            return
        for width, sides in (border if isinstance(border, list) else [border]):
            for r in rows:
                table.set_cell_border(r, 0, ["top", "bottom"] if sides == "both" else "top", Border(width, RGB(0, 0, 0), "solid"), nc)
            for c in cols:
                table.set_cell_border(0, c, ["left", "right"] if sides == "both" else "left", Border(width, RGB(0, 0, 0), "solid"), nr)

    def do_sizes():
        if "row_height" in vals:
            for j, r in enumerate(rows):
                v = SIZES[(SIZES.index(vals["row_height"]) + j + idx) % len(SIZES)]
                table.row_height(r, v)
                exp[f"rh:{r}"] = v
        if "col_width" in vals:
            for j, c in enumerate(cols):
                v = SIZES[(SIZES.index(vals["col_width"]) + j + idx) % len(SIZES)]
                table.col_width(c, v)
                exp[f"cw:{c}"] = v

    def do_headers():
        hr, hc = min(vals["headers"][0], nr), min(vals["headers"][1], nc)
        table.num_header_rows = hr
        table.num_header_cols = hc
        exp["hr"], exp["hc"] = hr, hc

    def do_names():
        tn, sn = vals["names"]
        if idx:
            tn, sn = f"{tn}#{idx}", sn
        table.name = tn
        exp["table"] = tn
        if idx == 0:
            sheet.name = sn
        exp["sheet"] = sn

    def do_caption():
        table.caption = vals["caption"]
        exp["cap"] = vals["caption"]

    def do_caption_enabled():
        v = vals["caption_enabled"] if idx == 0 else not vals["caption_enabled"]
        table.caption_enabled = v
        exp["cap_en"] = v

    def do_name_enabled():
        v = vals["name_enabled"] if idx == 0 else not vals["name_enabled"]
        table.table_name_enabled = v
        exp["name_en"] = v

    def do_geometry():
        if order == "borders-first":
            do_borders()
            do_sizes()
        else:
            do_sizes()
            do_borders()
            if border is not None:  # a later border supersedes the reported size: the set value is not judged live
                for k in [k for k in exp if k.startswith(("rh:", "cw:"))]:
                    del exp[k]
        if "headers" in vals:
            do_headers()

    label_steps = {"names": do_names, "caption": do_caption, "caption_enabled": do_caption_enabled, "name_enabled": do_name_enabled}
    # default sequence; the order family gives its own permutation of the label attributes
    perm = case.get("perm") or [a for a in LABEL_ATTRS]
    if case.get("geom", "before") != "after":
        do_geometry()
    for a in perm:
        if a in vals:
            label_steps[a]()
    if case.get("geom", "before") == "after":
        do_geometry()
    set_rows = set(rows) if "row_height" in vals and (order == "borders-first" or border is None) else set()
    return exp, set_rows


def fixture_path(name):
    if name == TEMPLATE:
        import numbers_parser

        return os.path.join(os.path.dirname(numbers_parser.__file__), "data", "empty.numbers")
    return os.path.join(FIXTURES, name)


def first_plain_table(doc):
    """(flat index, sheet, table) of the first table that is not a pivot table."""
    i = 0
    for s in doc.sheets:
        for t in s.tables:
            if not doc._model.is_a_pivot_table(t._table_id):
                return i, s, t
            i += 1
    return None


def build(case, query):
    """Build the cycle-0 document of a case. query = the subject's query mode ('free' for the
    observer twin). -> (doc, expected {table index: {key: value}}, {table index: rows set})."""
    kind = case["kind"]
    pre = query in ("all", "pre")
    exp, set_rows = {}, {}
    if kind == "fixture":
        doc = Document(fixture_path(case["fixture"]))
        if pre:
            geo(doc)
        if case.get("vals"):
            hit = first_plain_table(doc)
            if hit is not None:
                i, s, t = hit
                exp[i], set_rows[i] = apply_mods(doc, s, t, case)
        return doc, exp, set_rows
    if kind == "bset":
        if case["doc"] == WRITTEN:
            # a document written by the library itself with horizontal and vertical borders, then loaded
            d0 = Document(num_rows=6, num_cols=6)
            t0 = d0.sheets[0].tables[0]
            for r in (0, 2, 5):
                t0.set_cell_border(r, 0, ["top", "bottom"], Border(3.0 if r else 1.0, RGB(0, 0, 0), "solid"), 6)
            for c in (0, 1, 5):
                t0.set_cell_border(0, c, ["left", "right"], Border(3.0 if c else 2.0, RGB(0, 0, 0), "solid"), 6)
            path = _tmp()
            d0.save(path)
            doc = Document(path)
            os.remove(path)
        else:
            doc = Document(fixture_path(case["doc"]))
        if pre:
            geo(doc)
        i, s, t = first_bordered_table(doc)
        # the very first action on the loaded table (after the optional full query): set every size
        e, seed = {}, case.get("seed", 0)
        for r in range(t.num_rows):
            e[f"rh:{r}"] = 30 + (r * 7 + seed) % 41
            t.row_height(r, e[f"rh:{r}"])
        for c in range(t.num_cols):
            e[f"cw:{c}"] = 50 + (c * 11 + seed) % 61
            t.col_width(c, e[f"cw:{c}"])
        exp[i], set_rows[i] = e, None
        return doc, exp, set_rows
    if kind == "order" and case["doc"] != FRESH:
        doc = Document(fixture_path(case["doc"]))
        if pre:
            geo(doc)
        i, s, t = first_plain_table(doc)
        exp[i], set_rows[i] = apply_mods(doc, s, t, case)
        return doc, exp, set_rows
    nr, nc = case.get("shape", [6, 6])
    doc = Document(num_rows=nr, num_cols=nc)
    sheet = doc.sheets[0]
    if kind == "coords":
        hr, hc = case.get("hdr", [1, 1])
        t2 = sheet.add_table("Second", case["x"], case["y"], 4, 3, hr, hc)
        if pre:
            geo(doc)
        e = {"hr": hr, "hc": hc, "table": "Second"}
        x, y = case["x"], case["y"]
        e["coords:x"] = f32(x) if x is not None else 0.0
        if y is not None:
            e["coords:y"] = f32(y)
        m, set_rows[1] = apply_mods(doc, sheet, t2, case, idx=1)
        e.update(m)
        e.pop("sheet", None)
        exp[1] = e
        return doc, exp, set_rows
    if pre:
        geo(doc)
    exp[0], set_rows[0] = apply_mods(doc, sheet, sheet.tables[0], case)
    return doc, exp, set_rows


# ---------------------------------------------------------------------------------------------
# the oracle
# ---------------------------------------------------------------------------------------------
def _pattern(a, b):
    if isinstance(b, str) and b.startswith("EXC:"):
        return "raises-" + b.split(":")[1]
    if isinstance(a, bool) and isinstance(b, bool):
        return "inverted"
    if isinstance(a, int) and isinstance(b, int):
        return "off-by-one" if abs(b - a) == 1 else "other-number"
    if isinstance(a, str) and isinstance(b, str):
        if a.startswith(b):
            return "truncated"
        return "other-text"
    if isinstance(a, list) and isinstance(b, list) and len(a) == 2 and len(b) == 2:
        if a == b[::-1]:
            return "swapped"
        return "x" if a[1] == b[1] else "y" if a[0] == b[0] else "both"
    return "other"


def compare(prev, new, allow, written, stage, source):
    """Differences between two observer snapshots. written[i] = rows of table i whose reported
    height the harness knows was written back (None = every row). -> list of (ident, detail)."""
    out = []
    if len(prev) != len(new):
        return [({"mechanism": "tables", "class": "count-changed"}, f"{stage}: {len(prev)} tables -> {len(new)}")]
    for i, (a, b) in enumerate(zip(prev, new)):
        tag = f"{stage} table#{i} {str(a['table'])[:24]!r}"
        for k in LABELS:
            if a[k] != b[k]:
                out.append(({"mechanism": "reopen-differs", "attr": k, "source": source.get((i, k), "document"), "pattern": _pattern(a[k], b[k])},
                            f"{tag}: {k} {a[k]!r} -> {b[k]!r}"))
        known_delta = {"rh": 0, "cw": 0}
        clean = {"rh": True, "cw": True}
        for axis, word in (("rh", "row"), ("cw", "col")):
            x, y = a[axis], b[axis]
            if x == y:
                continue
            if not (isinstance(x, list) and isinstance(y, list) and len(x) == len(y)):
                clean[axis] = False
                out.append(({"mechanism": "size", "axis": word, "class": "unreadable-or-resized", "pattern": _pattern(x, y)}, f"{tag}: {axis} {str(x)[:80]} -> {str(y)[:80]}"))
                continue
            pairs = allow[i][axis]
            groups = {}
            for j, (p, q) in enumerate(zip(x, y)):
                if p == q:
                    continue
                wb = True if axis == "cw" else (written.get(i, set()) is None or j in (written.get(i) or set()))
                pair = pairs[j] if pairs is not None else [0.0, 0.0]
                if pair[0] + pair[1] > 0 and q == reread(p, pair) and q > p:
                    ident = {"mechanism": "size", "axis": word, "class": "border-allowance-drift", "written_back": wb}
                    if wb:
                        known_delta[axis] += q - p
                    else:
                        clean[axis] = False
                else:
                    clean[axis] = False
                    touched = source.get((i, f"{axis}:{j}"), "saved" if axis == "cw" else "queried" if wb else "unqueried")
                    ident = {"mechanism": "size", "axis": word, "class": "changed", "touched": touched, "pattern": "decrease" if q < p else "increase"}
                groups.setdefault(json.dumps(ident, sort_keys=True), (ident, []))[1].append((j, p, q, pair))
            for ident, items in groups.values():
                j, p, q, pair = items[0]
                out.append((ident, f"{tag}: {len(items)} {word} size(s) differ, e.g. {word} {j}: {p} -> {q} (borders {pair}, re-read of a written-back {p} would give {reread(p, pair)})"))
        for ext, axis in (("h", "rh"), ("w", "cw")):
            if a[ext] != b[ext]:
                explained = clean[axis] and isinstance(a[ext], int) and isinstance(b[ext], int) and b[ext] - a[ext] == known_delta[axis] and known_delta[axis] > 0
                if not explained and clean[axis]:
                    out.append(({"mechanism": "table-extent", "attr": ext, "pattern": _pattern(a[ext], b[ext])}, f"{tag}: {ext} {a[ext]!r} -> {b[ext]!r} although the row/column differences sum to {known_delta[axis]}"))
    return out


def check_expected(g0, exp):
    out = []
    for i, e in exp.items():
        for k, v in e.items():
            if k.startswith(("rh:", "cw:")):
                axis, j = k.split(":")
                got = g0[i][axis][int(j)] if isinstance(g0[i][axis], list) else g0[i][axis]
                attr = {"rh": "row_height", "cw": "col_width"}[axis]
            elif k.startswith("coords:"):
                got = g0[i]["coords"][0 if k.endswith("x") else 1] if isinstance(g0[i]["coords"], list) else g0[i]["coords"]
                attr = "coords"
                if isinstance(g0[i]["coords"], list) and got != v and g0[i]["coords"][::-1][0 if k.endswith("x") else 1] == v:
                    out.append(({"mechanism": "live-readback", "attr": attr, "pattern": "swapped"}, f"table#{i}: {k} set to {v!r}, reads {got!r} (coordinates {g0[i]['coords']})"))
                    continue
            else:
                got, attr = g0[i][k], k
            if got != v:
                out.append(({"mechanism": "live-readback", "attr": attr, "pattern": _pattern(v, got)}, f"table#{i}: {k} set to {v!r}, reads back {got!r} before any save"))
    return out


def eval_case(case, info=None):
    """Run one case: build, cycle, compare. -> list of (ident, detail). Used by the enumeration and
    by --replay. `info` (optional dict) receives coverage facts about the case."""
    q = case.get("q", "none")
    cycles = case.get("cycles", 2)
    out = []
    info = info if info is not None else {}
    files = []
    try:
        try:
            obs, exp, set_rows = build(case, "free")
            subj, _, _ = build(case, q)
        except Exception as e:  # noqa: BLE001 - every value used is inside its documented range
            import traceback

            where = traceback.extract_tb(e.__traceback__)[-1]
            out.append(({"mechanism": "api-raises", "exc": type(e).__name__, "where": where.name}, f"building the case raised {type(e).__name__}: {str(e)[:160]} (in {where.name})"))
            return out
        g_prev = geo(obs)
        info["g0"] = hashlib.sha1(json.dumps(g_prev, sort_keys=True).encode()).hexdigest()[:16]
        out += check_expected(g_prev, exp)
        source = {}
        for i, e in exp.items():
            for k in e:
                source[(i, "coords" if k.startswith("coords:") else k)] = "api-set"
        post = q in ("all", "post")
        if post:
            gs = geo(subj)
            if q == "all":  # values set after an earlier query must read back as set, too
                out += [(i, d + " (the subject had been queried before the value was set)") for i, d in check_expected(gs, exp)]
            if gs != g_prev:
                d = compare(g_prev, gs, allowances(obs), {}, "subject-vs-observer-twin", source)
                out.append(({"mechanism": "subject-vs-observer", "stage": "live"}, "; ".join(x[1] for x in d)[:400] or "snapshots differ"))
        written = {i: (None if post else rows) for i, rows in set_rows.items()}
        if post:
            written = {i: None for i in range(len(g_prev))}
        n_border_written = 0
        for k in range(1, cycles + 1):
            path = _tmp()
            files.append(path)
            try:
                subj.save(path)
            except Exception as e:  # noqa: BLE001
                out.append(({"mechanism": "save-raises", "exc": type(e).__name__}, f"cycle {k}: save raised {type(e).__name__}: {str(e)[:120]}"))
                break
            try:
                obs = Document(path)
            except Exception as e:  # noqa: BLE001
                out.append(({"mechanism": "reopen-raises", "exc": type(e).__name__}, f"cycle {k}: reopen raised {type(e).__name__}: {str(e)[:120]}"))
                break
            g_new = geo(obs)
            allow = allowances(obs)
            for i, al in enumerate(allow):
                if al["rh"] is not None:
                    w = written.get(i, set())
                    n_border_written += sum(1 for j, p in enumerate(al["rh"]) if p[0] + p[1] > 0 and (w is None or j in w))
            out += compare(g_prev, g_new, allow, written, f"cycle {k} ({'G0 -> G1' if k == 1 else f'G{k-1} -> G{k}'}, q={q})", source if k == 1 else {})
            g_prev = g_new
            if k == cycles:
                break
            if case.get("same"):
                # the SAME open subject is saved again (state kept across saves: caches of stored sizes,
                # buckets rewritten by the save); with q != none it is also read between the saves
                if case.get("reborder"):
                    # the same borders are drawn again on the affected rows / columns of the open subject: the
                    # library drops its in-memory sizes for them and falls back to what it believes is stored
                    bcase = {"border": case.get("border", "none")}
                    for i, (s_, t_) in enumerate((s_, t_) for s_ in subj.sheets for t_ in s_.tables):
                        if i == 0:
                            apply_mods(subj, s_, t_, bcase)
                if q != "none":
                    geo(subj)
                    written = {i: None for i in range(len(g_new))}
                continue
            subj = Document(path)
            if q != "none":
                gs = geo(subj)
                if gs != g_new:
                    out.append(({"mechanism": "subject-vs-observer", "stage": "reopened"}, f"cycle {k}: two instances of the same file report different geometry"))
                written = {i: None for i in range(len(g_new))}
            else:
                written = {}
        info["border_rows_written_back"] = n_border_written
        info["nondefault"] = sum(1 for g in g_prev if isinstance(g["rh"], list) and len(set(g["rh"])) > 1)
    finally:
        for p in files:
            try:
                os.remove(p)
            except OSError:
                pass
    return out


# ---------------------------------------------------------------------------------------------
# enumeration
# ---------------------------------------------------------------------------------------------
def rot_vals(mask, v, seed):
    vals = {}
    for bit, a in enumerate(ATTRS):
        if mask >> bit & 1:
            al = ALPHABET[a]
            vals[a] = al[(v + seed + bit) % len(al)]
    return vals


def gen_cases(tier, seed):
    thorough = tier == "thorough"
    cycles = 3 if thorough else 2
    borders = ["none", "thin", "thick", "oneside"] if thorough else ["none", "thick"]
    qmodes = ["none", "all", "pre", "post"] if thorough else ["none", "all"]
    nrot = 3 if thorough else 2
    # subset family: complete product
    for mask in range(1 << len(ATTRS)):
        for border in borders:
            for q in qmodes:
                for v in range(nrot):
                    yield {"kind": "fresh", "family": "subset", "shape": [6, 6], "S": mask, "vals": rot_vals(mask, v, seed), "border": border, "q": q, "cycles": cycles}
        for v, border in enumerate(("thick>thin", "thin>thick")):
            for q in qmodes:
                for w in (range(nrot) if thorough else (v,)):
                    yield {"kind": "fresh", "family": "subset", "shape": [6, 6], "S": mask, "vals": rot_vals(mask, w, seed), "border": border, "q": q, "cycles": cycles}
        if thorough:
            # small table (header counts clamp to its size) and sizes-before-borders order
            for border in ("none", "thick"):
                for q in ("none", "all"):
                    yield {"kind": "fresh", "family": "subset", "shape": [3, 2], "S": mask, "vals": rot_vals(mask, 1, seed), "border": border, "q": q, "cycles": cycles}
            if mask & 3:
                for border in ("thick", "oneside"):
                    for q in ("none", "all", "pre"):
                        yield {"kind": "fresh", "family": "subset", "shape": [6, 6], "S": mask, "vals": rot_vals(mask, 0, seed), "border": border, "q": q, "cycles": cycles, "order": "sizes-first"}
    # same-object family: every subset S, the one open subject saved 3 times (no reopen in between)
    for mask in range(1 << len(ATTRS)):
        for border in ("none", "thick"):
            for q in ("none", "all"):
                yield {"kind": "fresh", "family": "same-object", "shape": [6, 6], "S": mask, "vals": rot_vals(mask, 1, seed), "border": border, "q": q,
                       "cycles": 3, "same": True}
                if border != "none" and mask & 3:
                    yield {"kind": "fresh", "family": "same-object", "shape": [6, 6], "S": mask, "vals": rot_vals(mask, 1, seed), "border": border, "q": q,
                           "cycles": 3, "same": True, "reborder": True}
    # values family: every value of every alphabet as a singleton S
    for bit, a in enumerate(ATTRS):
        al = [[r, c] for r in range(6) for c in range(6)] if a == "headers" else ALPHABET[a]
        if a == "names":
            al = [[t, s] for t in TABLE_NAMES for s in SHEET_NAMES] if thorough else al
        for val in al:
            for border in (["none", "thick"] + (["oneside"] if thorough else [])) if bit < 2 else ["none"]:
                for q in ("none", "all"):
                    yield {"kind": "fresh", "family": "values", "shape": [6, 6], "S": 1 << bit, "vals": {a: val}, "border": border, "q": q, "cycles": cycles}
    # coordinates
    hdrs = [[1, 1], [0, 0], [2, 1], [3, 3]]
    n = 0
    for x in COORD_GRID:
        for y in COORD_GRID:
            n += 1
            for q in ("none", "all"):
                for mask in (0, (1 << len(ATTRS)) - 1):
                    yield {"kind": "coords", "family": "coords", "x": x, "y": y, "hdr": hdrs[(n + seed) % 4], "S": mask, "vals": rot_vals(mask, n, seed),
                           "border": "thick" if mask else "none", "q": q, "cycles": cycles}


def gen_fixture_cases(tier, seed, fixtures):
    thorough = tier == "thorough"
    cycles = 3 if thorough else 2
    full = (1 << len(ATTRS)) - 1
    for path, ncells in fixtures:
        name = os.path.basename(path) if path.startswith(FIXTURES) else TEMPLATE
        for q in ("none", "all"):
            yield {"kind": "fixture", "family": "fixture", "fixture": name, "q": q, "cycles": cycles}, ncells
            if thorough and ncells <= 4000:
                yield {"kind": "fixture", "family": "fixture+S", "fixture": name, "q": q, "cycles": cycles, "S": full, "vals": rot_vals(full, 0, seed), "border": "thick"}, ncells


def has_caption_object(doc, table):
    """False when the table's caption is still the stand-in object of a document that never had one."""
    m = doc._model
    info = m.objects[m.table_info_id(table._table_id)]
    return m.objects[info.super.caption.identifier].DESCRIPTOR.name != "StandinCaptionArchive"


def order_docs(fixtures):
    """Documents of the order family. Rule: test-1.numbers, plus the two smallest readable fixtures
    (by cell count, then name) whose first ordinary table has no caption object yet, plus the smallest
    one whose first ordinary table owns a caption object, plus a fresh document."""
    names, with_cap = ["test-1.numbers"], None
    for path, _n in sorted(fixtures, key=lambda pn: (pn[1], os.path.basename(pn[0]))):
        name = os.path.basename(path)
        if not path.startswith(FIXTURES) or name in names:
            continue
        doc = Document(path)
        hit = first_plain_table(doc)
        if hit is None or hit[2].num_rows < 2 or hit[2].num_cols < 2:
            continue
        if has_caption_object(doc, hit[2]):
            with_cap = with_cap or name
        elif len(names) < 3:
            names.append(name)
        if len(names) == 3 and with_cap:
            break
    return names + ([with_cap] if with_cap else []) + [FRESH]


def gen_order_cases(tier, seed, docs):
    """Every order (4! = 24) in which the four label attributes are set on a loaded / fresh document;
    thorough: x the three geometry attributes set before / after the labels, x all four boolean pairs."""
    import itertools

    thorough = tier == "thorough"
    cycles = 3 if thorough else 2
    bools = [(True, False), (False, True)] + ([(True, True), (False, False)] if thorough else [])
    n = 0
    for doc in docs:
        for perm in itertools.permutations(LABEL_ATTRS):
            for cap_en, name_en in bools:
                for geom in (("before", "after") if thorough else ("none",)):
                    n += 1
                    vals = rot_vals(0b0001000 | 0b0010000, n, seed)
                    vals["caption_enabled"], vals["name_enabled"] = cap_en, name_en
                    if geom != "none":
                        vals.update(rot_vals(0b0000111, n, seed))
                    for q in ("none", "all"):
                        yield {"kind": "order", "family": "order", "doc": doc, "perm": list(perm), "geom": geom if geom != "none" else "before",
                               "vals": dict(vals), "border": "none", "q": q, "cycles": cycles}


def has_stored_border(doc, table):
    """The table's stroke sidecar lists at least one stroke layer (read from the archive, no extraction)."""
    m = doc._model
    side = m.objects[m.objects[table._table_id].stroke_sidecar.identifier]
    return any(len(getattr(side, f)) for f in ("top_row_stroke_layers", "bottom_row_stroke_layers", "left_column_stroke_layers", "right_column_stroke_layers"))


def first_bordered_table(doc):
    """(flat index, sheet, table) of the first ordinary table that stores a border; None if there is none."""
    i = 0
    for s in doc.sheets:
        for t in s.tables:
            if not doc._model.is_a_pivot_table(t._table_id) and has_stored_border(doc, t):
                return i, s, t
            i += 1
    return None


def bset_docs(fixtures):
    """Documents of the set-without-query family. Rule: every readable fixture of at most 4000 cells in
    which an ordinary table stores at least one border stroke layer (the first such table is the one
    modified), plus one library-written document."""
    out = []
    for path, n in fixtures:
        if not path.startswith(FIXTURES) or n > 4000:
            continue
        doc = Document(path)
        if first_bordered_table(doc) is not None:
            out.append((os.path.basename(path), n))
    return out + [(WRITTEN, 36)]


def gen_bset_cases(tier, seed, docs):
    """Every row height and every column width of a loaded bordered table set as the very first action
    (no query before save), and the variant 'query everything first, then set'."""
    cycles = 3 if tier == "thorough" else 2
    for doc, n in docs:
        for q in ("none", "pre") + (("all", "post") if tier == "thorough" else ()):
            yield {"kind": "bset", "family": "bordered-set", "doc": doc, "seed": seed, "q": q, "cycles": cycles}, n


def work(cases):
    part = Part()
    keys = []
    for case in cases:
        info = {}
        try:
            res = eval_case(case, info)
        except Exception as e:  # noqa: BLE001
            import traceback

            part.harness_errors.append(f"case {json.dumps(case)[:300]} crashed the harness: {type(e).__name__}: {e}\n{traceback.format_exc(limit=6)}")
            continue
        fam = case["family"]
        part.count("evaluations")
        part.count(f"cases_{fam}")
        part.count("save_reopen_cycles", case["cycles"])
        part.count(f"q_{case['q']}")
        if info.get("border_rows_written_back"):
            part.count("cases_with_bordered_row_written_back")
        if case["q"] == "none" and info.get("nondefault"):
            part.count("unqueried_cases_with_unequal_row_heights")
        keys.append((fam, info.get("g0"), case.get("border", "none"), case["q"], case.get("order", "")))
        kinds = sorted({i["mechanism"] + ":" + i.get("class", i.get("attr", "")) for i, _ in res})
        part.outcome(f"held:{fam}:{case.get('border', 'none')}:q={case['q']}" if not res else "|".join(kinds))
        label = case.get("fixture") or (f"{case['doc']} all sizes set" if case["kind"] == "bset" else None) or (f"{case['doc']} order={'>'.join(case['perm'])} geometry={case['geom'] if any(a in case['vals'] for a in ATTRS[:3]) else 'unset'}" if case["kind"] == "order"
                                        else f"{case['kind']} S={case.get('S', 0):07b} border={case.get('border', 'none')}")
        for ident, detail in res:
            part.fail(ident, f"[{label}] {detail}", case)
        if fam in ("subset", "fixture", "order", "bordered-set"):
            part.sample({"case": {k: v for k, v in case.items() if k != "vals"}, "outcome": kinds or "held"})
    d = part.dump()
    d["keys"] = keys
    return d


def main():
    args = parse_args()
    if args.replay:
        def rp(case, payload):
            from mc.evidence import ident_matches, load_known

            res = eval_case(case)
            want = payload.get("ident")
            known = load_known(PID)
            hit = [d for i, d in res if i == want]
            other = [d for i, d in res if i != want and not any(ident_matches(k["match"], i) for k in known)]
            n_known = len(res) - len(hit) - len([i for i, _ in res if i != want and not any(ident_matches(k["match"], i) for k in known)])
            text = f"case {json.dumps(case)}: " + ("; ".join((hit + other)[:3]) or "geometry and labels unchanged over all cycles")
            if n_known:
                text += f" [{n_known} further difference(s) match a known finding]"
            return bool(hit or other), text
        return run_replay(args, rp)
    run = Run(PID, "exploration", args)
    Scratch.dir()
    fresh = list(gen_cases(args.tier, args.seed))
    fixtures = readable_fixtures()
    fx = sorted(gen_fixture_cases(args.tier, args.seed, fixtures), key=lambda cn: -cn[1])
    odocs = order_docs(fixtures)
    fresh += list(gen_order_cases(args.tier, args.seed, odocs))
    bdocs = bset_docs(fixtures)
    bs = list(gen_bset_cases(args.tier, args.seed, bdocs))
    fx = sorted(fx + bs, key=lambda cn: -cn[1])
    tasks = [[c] for c, _ in fx]
    chunk = 8
    tasks += [fresh[i:i + chunk] for i in range(0, len(fresh), chunk)]
    keys = set()
    for res in pmap(work, tasks, args.jobs):
        keys.update(tuple(k) for k in res.pop("keys", []))
        run.merge(res)
    c = run.counters
    n_sub = sum(1 for x in fresh if x["family"] == "subset")
    run.floor("every subset of the 7 attributes was executed (complete product with borders, query modes, rotations)",
              c["cases_subset"] == n_sub and len({x["S"] for x in fresh if x["family"] == "subset"}) == 128)
    run.floor("every generated case was executed", c["evaluations"] == len(fresh) + len(fx))
    names = [d for d, _ in bdocs]
    run.floor("bordered-set family: >= 4 loaded fixtures with stored borders (test-extra-borders, test-styles among them) and the library-written document, each set-first and query-then-set",
              len(bdocs) >= 5 and {"test-extra-borders.numbers", "test-styles.numbers", WRITTEN} <= set(names) and c["cases_bordered-set"] == len(bs) >= 2 * len(bdocs))
    run.extra["bordered_set_documents"] = names
    run.floor("re-bordered configurations (thick>thin, thin>thick) ran on all 128 subsets", len({x["S"] for x in fresh if x.get("border") in ("thick>thin", "thin>thick")}) == 128)
    run.floor(">= 60 readable fixtures, each unqueried and queried", c["cases_fixture"] >= 120 and c["cases_fixture"] == 2 * len(fixtures))
    run.floor("all 36 coordinate pairs placed with add_table(x, y)", c["cases_coords"] == 36 * 4)
    n_ord = sum(1 for x in fresh if x["family"] == "order")
    run.floor("order family: all 24 orders of the four label attributes on test-1.numbers, >= 2 further loaded documents without a caption object and a fresh document",
              "test-1.numbers" in odocs and FRESH in odocs and len(odocs) >= 4 and c["cases_order"] == n_ord
              and n_ord == len(odocs) * 24 * (16 if args.tier == "thorough" else 4))
    run.extra["order_family_documents"] = odocs
    run.floor(">= 100 cases in which a bordered row's reported height was written back", c["cases_with_bordered_row_written_back"] >= 100)
    run.floor(">= 100 unqueried cases whose tables have unequal row heights (stored heights that a reset would lose)", c["unqueried_cases_with_unequal_row_heights"] >= 100)
    run.floor(">= 50 distinct initial geometry snapshots", len({k[1] for k in keys}) >= 50)
    run.assume("sizes are the documented integers {10, 20, 100, 33}; header counts 0..5; coordinates are compared with their float32 value (the container stores single precision; 100.1 reads 100.0999984741211 live and after reload)")
    run.assume("the allowance used to recognise the known drift is computed from the borders the observer reads in the reopened file (C15 judges those)")
    run.assume("a size set through the API and then superseded by a later set_cell_border on the same row/column is not compared with the set value (order sizes-first, thorough tier); the live reading of the observer twin is the reference there")
    cov = {
        "distinct_nontrivial": len(keys),
        "rule": "distinct (family, hash of the cycle-0 observer snapshot, border configuration, query mode, order) tuples; "
                "every one is followed by 2/3 save-reopen cycles and compared attribute by attribute",
        "distinct_initial_snapshots": len({k[1] for k in keys}),
        "fixtures": len(fixtures),
        "exhaustive": True,
    }
    return run.finish(cov)


if __name__ == "__main__":
    sys.exit(main())
