"""C11 - A1 and row/column addressing reach the same cell in every call; bounds hold.

Bounded exhaustive enumeration on the real `Table` API (depth-1 space from several initial states):

  position phase   table kind x row x column x method x notation, where
                   kinds   = fresh 1x1, 3x2, 12x8; a 3x2 table reached by growth from 1x1; a 3x2 table
                             saved and reopened,
                   rows    = {-3..3} u {n-2..n+2} u {255,256,257} u {999 999, 1 000 000, 1 000 001},
                   columns = {-3..3} u {m-2..m+2} u {999, 1000, 1001},
                   methods = cell, write, set_cell_style, set_cell_formatting, set_cell_border,
                   notations = (row, col), "A1", "$A$1", "$A1", "A$1", lower case, and the "A0" forms of row -1.
                   Every call starts from a freshly built table, or from one that an earlier call provably
                   left equal to its initial state (at most 100 reuses). Calls that are expected to succeed by
                   growing the table are executed when the growth is affordable (see `affordable`);
                   the 1,000,000-row growth runs in the thorough tier only.
  iterator phase   iter_rows / iter_cols x kinds (fresh) x every (min_row, max_row, min_col, max_col)
                   over {None, -1, 0, 1, last-1, last, last+1} per axis (complete product, keyword and
                   positional calling convention, cells and values_only).

  history phase    (both tiers) on the fresh and the reloaded 3x2 table, for P beyond the rows, beyond the
                   columns and beyond both: op(P in notation n1) -> one structural edit out of 14 (delete /
                   add rows / columns at the end or the front, one or two, both axes; moving the bounds back
                   across P or not) -> op(P in notation n2), for all ordered pairs (n1, n2) of {(row, col),
                   'A1', '$A$1'} and op in {write, set_cell_style, set_cell_formatting, set_cell_border,
                   write-then-cell, cell}. Judged step by step (outcome class, exact dimensions after every
                   step, effect on exactly the addressed cell, every other cell unchanged / new cells empty)
                   and against a twin table that receives the same history in (row, col) form only.

Oracle = a reference grid. The table is filled with distinct numbers v(i,j) and verified through
`rows()` (no coordinates involved). The observation of every cell (class, value, formatted value,
style name/bold/size, four border sides) is compared with a reference observation taken from a twin
table grown with the structural API add_row()/add_column():
  * read outside the table, any negative or beyond-limit position  -> IndexError, dims and every cell unchanged;
  * in-limit write-type call -> succeeds, dims become exactly max(old, pos+1), exactly the addressed
    cell shows the effect (for a border: the addressed edge, i.e. that cell and the neighbour sharing it);
  * all notations of one position give the identical outcome and identical table observation;
  * lower-case A1 text: either identical to the upper-case form, or IndexError with nothing changed;
  * iterators yield exactly the reference rectangle (identity of the cell objects / the fill values)
    in order, raise IndexError for any bound outside 0..last, never change the table.
The documented limits (1,000,000 rows, 1,000 columns) are hard-coded here on purpose.
"""
from __future__ import annotations

import gc
import hashlib
import itertools
import os
import string
import sys

from mc.evidence import Part, Run, parse_args, run_replay
from mc.pool import Scratch, pmap

from numbers_parser import RGB, Border, Document
from numbers_parser.document import Table

PID = "C11"
LIMIT_ROWS = 1_000_000  # documented limits of a Numbers table; NOT imported from the library
LIMIT_COLS = 1000

KINDS = {
    "1x1": (1, 1, "fresh"),
    "3x2": (3, 2, "fresh"),
    "12x8": (12, 8, "fresh"),
    "3x2-grown": (3, 2, "grown"),
    "3x2-reloaded": (3, 2, "reloaded"),
}
ITER_KINDS = ["1x1", "3x2", "12x8"]
METHODS = ["cell", "write", "set_cell_style", "set_cell_formatting", "set_cell_border"]
SIDES = ["top", "right", "bottom", "left"]
OPPOSITE = {"top": ("bottom", -1, 0), "right": ("left", 0, 1), "bottom": ("top", 1, 0), "left": ("right", 0, -1)}
WRITE_VALUES = ["W11", 4711, 47.5, True, "écrit"]
SMALL_TABLE = 400  # cells; above this the (slow) style observation is limited to the interest set
SEED = 0


# ---------------------------------------------------------------------------------------------
# independent helpers
# ---------------------------------------------------------------------------------------------
def colname(c):
    """Bijective base-26 column name, written independently of numbers_parser.xrefs."""
    s = ""
    c += 1
    while c > 0:
        c, rem = divmod(c - 1, 26)
        s = chr(65 + rem) + s
    return s


def fill_value(i, j):
    return (i + 1) * 1000 + j + 1  # distinct ints (float writes cost 0.5 ms each in sigfig)


def fmt_places():
    return 1 + SEED % 2


def expected_formatted(i, j):
    return f"{fill_value(i, j):.{fmt_places()}f}"


def the_border():
    return Border(float(2 + SEED % 3), RGB(11, 22 + SEED % 7, 33), ["solid", "dashes", "dots"][SEED % 3])


def border_side(r, c):
    return SIDES[(r + 2 * c + SEED) % 4]


def write_value():
    return WRITE_VALUES[SEED % len(WRITE_VALUES)]


class _Runaway(BaseException):
    """Raised by the growth monitor; BaseException so that library code cannot swallow it."""


_GUARD = {"on": False, "rows": 0, "cols": 0, "row_budget": 0, "col_budget": 0}
_orig_add_row = Table.add_row
_orig_add_column = Table.add_column


def _guard_add_row(self, num_rows=1, *a, **k):
    if _GUARD["on"]:
        _GUARD["rows"] += num_rows if isinstance(num_rows, int) else 1
        if _GUARD["rows"] > _GUARD["row_budget"]:
            raise _Runaway(f"more than {_GUARD['row_budget']} rows requested from add_row")
    return _orig_add_row(self, num_rows, *a, **k)


def _guard_add_column(self, num_cols=1, *a, **k):
    if _GUARD["on"]:
        _GUARD["cols"] += num_cols if isinstance(num_cols, int) else 1
        if _GUARD["cols"] > _GUARD["col_budget"]:
            raise _Runaway(f"more than {_GUARD['col_budget']} columns requested from add_column")
    return _orig_add_column(self, num_cols, *a, **k)


# Monitor only (counts growth requests made *by the position-taking call* and aborts a runaway
# growth such as 1,000,001 rows on a tree whose limit check is broken); behaviour is unchanged.
Table.add_row = _guard_add_row
Table.add_column = _guard_add_column


# ---------------------------------------------------------------------------------------------
# building initial states and observing them
# ---------------------------------------------------------------------------------------------
_RELOAD_PATH = {}


class SetupError(Exception):
    pass


def _fill(tb, n, m):
    for i in range(n):
        for j in range(m):
            tb.write(i, j, fill_value(i, j))


def _verify_fill(tb, n, m):
    """The initial state is confirmed through rows(), which takes no coordinates."""
    rows = tb.rows()
    if (tb.num_rows, tb.num_cols) != (n, m) or len(rows) != n or any(len(r) != m for r in rows):
        raise SetupError(f"initial table is {tb.num_rows}x{tb.num_cols} / {len(rows)} stored rows, expected {n}x{m}")
    for i in range(n):
        for j in range(m):
            if rows[i][j].value != fill_value(i, j):
                raise SetupError(f"after write({i},{j},{fill_value(i, j)}) rows()[{i}][{j}].value is {rows[i][j].value!r}")


def build(kind):
    """-> (doc, table, style). Deterministic; every caller gets the same initial state. The set-up uses
    only in-limit (row, col) writes and one in-limit A1 write; if it fails, that is reported as a
    failure of the property (mechanism 'initial-state'), not as a harness error."""
    try:
        return _build(kind)
    except SetupError:
        raise
    except Exception as e:  # noqa: BLE001
        raise SetupError(f"building the initial {kind} table failed: {type(e).__name__}: {e}") from None


def _build(kind):
    n, m, how = KINDS[kind]
    if how == "fresh":
        doc = Document(num_rows=n, num_cols=m)
        tb = doc.sheets[0].tables[0]
        _fill(tb, n, m)
    elif how == "grown":
        doc = Document(num_rows=1, num_cols=1)
        tb = doc.sheets[0].tables[0]
        tb.write(colname(m - 1) + str(n), 0)  # history: the table got its size from an A1 write
        _fill(tb, n, m)
    else:
        key = os.getpid()
        path = _RELOAD_PATH.get(key)
        if path is None:
            d0 = Document(num_rows=n, num_cols=m)
            _fill(d0.sheets[0].tables[0], n, m)
            path = Scratch.path(f"c11-{key}.numbers")
            d0.save(path)
            _RELOAD_PATH[key] = path
        doc = Document(path)
        tb = doc.sheets[0].tables[0]
    _verify_fill(tb, n, m)
    style = doc.add_style(name="C11 Style", bold=(SEED % 2 == 0), font_size=17.0 + SEED % 3)
    return doc, tb, style


def _try(fn):
    try:
        return fn()
    except Exception as e:  # noqa: BLE001
        return f"EXC:{type(e).__name__}"


def _style_obs(c):
    s = c.style
    return None if s is None else (s.name, s.bold, s.font_size)


def _border_obs(c):
    b = c.border
    if b is None:
        return (None, None, None, None)
    return (str(b.top), str(b.right), str(b.bottom), str(b.left))


def cell_obs(c, with_style=True):
    """(class, value, formatted value, style, (top, right, bottom, left))"""
    return (
        type(c).__name__,
        _try(lambda: repr(c.value)),
        _try(lambda: c.formatted_value),
        _try(lambda: _style_obs(c)) if with_style else None,
        _try(lambda: _border_obs(c)),
    )


_POOL = {}
MAX_REUSE = 100


def acquire(kind):
    """A pristine table of this kind: freshly built, or one that a previous call provably left
    unchanged (dims and every cell equal to the reference observation)."""
    lst = _POOL.setdefault((kind, SEED), [])
    if lst:
        return lst.pop()
    return (*build(kind), 0)


def release(kind, doc, tb, style, uses):
    if uses + 1 < MAX_REUSE:
        _POOL[(kind, SEED)].append((doc, tb, style, uses + 1))


_REF = {}


def reference(kind):
    """Reference observation: the initial table grown by ONE row and ONE column with the structural
    API. Cell (i,j) of any grown table must look like ref[min(i,n)][min(j,m)]: old cells keep their
    observation, every new cell looks like a new empty cell of that header/body position."""
    key = (kind, SEED)
    if key not in _REF:
        n, m, _ = KINDS[kind]
        _, tb, _ = build(kind)
        try:
            tb.add_row()
            tb.add_column()
        except Exception as e:  # noqa: BLE001
            raise SetupError(f"add_row()/add_column() on the {kind} table failed: {type(e).__name__}: {e}") from None
        rows = tb.rows()
        if (tb.num_rows, tb.num_cols, len(rows)) != (n + 1, m + 1, n + 1):
            raise SetupError("add_row()/add_column() did not produce the (n+1)x(m+1) reference table")
        _REF[key] = [[cell_obs(c) for c in r] for r in rows]
    return _REF[key]


def interest(n, m, nr, nc, r, c):
    def near(vals, hi):
        return {v for v in vals if 0 <= v < hi}

    ir = near([0, 1, 2, n - 1, n, n + 1, nr - 2, nr - 1, r - 1, r, r + 1, c, nr + r, nr + r - 1], nr)
    ic = near([0, 1, 2, m - 1, m, m + 1, nc - 2, nc - 1, c - 1, c, c + 1, r, nc + c, nc + c - 1], nc)
    return ir, ic


def observe(tb, kind, r, c):
    """Compare every cell with the folded reference.
    -> dict(dims, shape_ok, changed {(i,j): (got, want)} (capped), n_changed, digest)"""
    n, m, _ = KINDS[kind]
    ref = reference(kind)
    nr, nc = tb.num_rows, tb.num_cols
    rows = tb.rows()
    shape_ok = len(rows) == nr and all(len(x) == nc for x in rows)
    small = sum(len(x) for x in rows) <= SMALL_TABLE
    ir, ic = interest(n, m, nr, nc, r, c)
    h = hashlib.sha1()
    h.update(repr((nr, nc, shape_ok)).encode())
    changed = {}
    n_changed = 0
    for i, row in enumerate(rows):
        refrow = ref[min(i, n)]
        row_interesting = i in ir
        for j, cell in enumerate(row):
            with_style = small or (i < n and j < m) or (row_interesting and j in ic)
            got = cell_obs(cell, with_style)
            want = refrow[min(j, m)]
            if not with_style:
                want = (want[0], want[1], want[2], None, want[4])
            h.update(repr(got).encode())
            if got != want:
                n_changed += 1
                if len(changed) < 40:
                    changed[(i, j)] = (got, want)
    return {"dims": (nr, nc), "shape_ok": shape_ok, "changed": changed, "n_changed": n_changed, "digest": h.hexdigest()}


# ---------------------------------------------------------------------------------------------
# position cases
# ---------------------------------------------------------------------------------------------
def row_set(n):
    return sorted(set(range(-3, 4)) | set(range(n - 2, n + 3)) | {255, 256, 257} | {LIMIT_ROWS - 1, LIMIT_ROWS, LIMIT_ROWS + 1})


def col_set(m):
    return sorted(set(range(-3, 4)) | set(range(m - 2, m + 3)) | {LIMIT_COLS - 1, LIMIT_COLS, LIMIT_COLS + 1})


def pos_class(n, m, r, c, method):
    if r < 0:
        return "negative-row"
    if c < 0:
        return "negative-col"
    if r >= LIMIT_ROWS:
        return "beyond-row-limit"
    if c >= LIMIT_COLS:
        return "beyond-col-limit"
    if r < n and c < m:
        return "inside"
    if method == "cell":
        return "outside-table"
    return "grow"


def notations(r, c):
    """[(label, argument tuple)] - every way the statement lists to spell this position."""
    out = [("rc", (r, c))]
    if c >= 0 and r >= -1:
        name, row = colname(c), str(r + 1)  # r == -1 gives the 'A0' forms
        out += [
            ("A1", (name + row,)),
            ("$A$1", ("$" + name + "$" + row,)),
            ("$A1", ("$" + name + row,)),
            ("A$1", (name + "$" + row,)),
            ("lower", (name.lower() + row,)),
        ]
    return out


def affordable(n, m, r, c, tier):
    """Growth cost (add_column renumbers the whole table per call). 'mega' = the 10^6-row growth."""
    nr, nc = max(n, r + 1), max(m, c + 1)
    if nr > 300:
        return "mega" if (nc == 1 and tier == "thorough") else "skip"
    if nc >= LIMIT_COLS - 1:
        return "yes" if nr <= (17 if tier == "thorough" else 3) else "skip"
    return "yes"


def invoke(method, tb, pos, style, r, c):
    if method == "cell":
        return tb.cell(*pos)
    if method == "write":
        return tb.write(*pos, write_value())
    if method == "set_cell_style":
        return tb.set_cell_style(*pos, style)
    if method == "set_cell_formatting":
        return tb.set_cell_formatting(*pos, "number", decimal_places=fmt_places())
    if method == "set_cell_border":
        return tb.set_cell_border(*pos, border_side(r, c), the_border())
    raise ValueError(method)


def run_one(kind, r, c, method, label, pos):
    """One call on a freshly built table -> (outcome, observation, problems[(pattern, text)])."""
    n, m, _ = KINDS[kind]
    cls = pos_class(n, m, r, c, method)
    doc, tb, style, uses = acquire(kind)
    grid_before = [list(x) for x in tb.rows()]
    expect_growth = cls == "grow"
    _GUARD.update(on=True, rows=0, cols=0,
                  row_budget=(max(0, r + 1 - n) if expect_growth else 0) + 8,
                  col_budget=(max(0, c + 1 - m) if expect_growth else 0) + 8)
    ret = None
    try:
        ret = invoke(method, tb, pos, style, r, c)
        outcome = ("ok",)
    except _Runaway as e:
        outcome = ("runaway", str(e))
    except Exception as e:  # noqa: BLE001
        outcome = ("exc", type(e).__name__)
    finally:
        _GUARD["on"] = False
    obs = observe(tb, kind, r, c)
    if outcome[0] != "runaway" and obs["dims"] == (n, m) and obs["shape_ok"] and obs["n_changed"] == 0:
        release(kind, doc, tb, style, uses)  # state verified equal to the initial state
    problems = []
    call = f"{method}{pos!r} on {kind} (position class {cls})"

    def unchanged(why):
        if obs["dims"] != (n, m) or not obs["shape_ok"]:
            problems.append(("table-resized-on-error", f"{call}: {why}, but the table is now {obs['dims']} (was {(n, m)})"))
        elif obs["n_changed"]:
            problems.append(("cells-changed-on-error", f"{call}: {why}, but cells changed: {fmt_changed(obs)}"))

    if outcome[0] == "runaway":
        problems.append(("runaway-growth", f"{call}: {outcome[1]}; expected " + ("IndexError" if not expect_growth else "growth by exactly the needed amount")))
        return outcome, obs, problems, cls

    if cls in ("negative-row", "negative-col", "beyond-row-limit", "beyond-col-limit", "outside-table"):
        if outcome != ("exc", "IndexError"):
            problems.append(("no-IndexError" if outcome[0] == "ok" else "wrong-exception", f"{call}: expected IndexError, got {outcome}"))
        unchanged(f"outcome {outcome}")
        return outcome, obs, problems, cls

    # in-limit, non-negative position ------------------------------------------------------------
    want_dims = (max(n, r + 1), max(m, c + 1))
    if method == "cell":  # inside
        if outcome != ("ok",):
            problems.append(("read-failed", f"{call}: expected the cell, got {outcome}"))
        elif ret is not grid_before[r][c]:
            where = [(i, j) for i, x in enumerate(grid_before) for j, y in enumerate(x) if y is ret]
            problems.append(("wrong-cell", f"{call}: returned the cell stored at {where or 'nowhere in the grid'} (value {_try(lambda: ret.value)!r}), expected rows()[{r}][{c}]"))
        unchanged("a read")
        return outcome, obs, problems, cls

    if method == "set_cell_formatting" and cls == "grow":
        # the new cell is empty and number formats apply to number cells only: the type rule may reject
        # the call (TypeError); the position rules still hold: growth exact (or none), no cell disturbed
        if outcome not in (("ok",), ("exc", "TypeError")):
            problems.append(("wrong-exception", f"{call}: expected success or the TypeError of the cell-type rule, got {outcome}"))
        ok_dims = (want_dims,) if outcome == ("ok",) else (want_dims, (n, m))
        if obs["dims"] not in ok_dims or not obs["shape_ok"]:
            problems.append(("wrong-dims", f"{call}: table is {obs['dims']}, expected {want_dims}"))
        bad = {k: v for k, v in obs["changed"].items() if not (outcome == ("ok",) and k == (r, c))}
        if bad:
            problems.append(("wrong-cell", f"{call}: cells other than the target changed: {fmt_changed({'changed': bad})}"))
        return outcome, obs, problems, cls

    if outcome != ("ok",):
        problems.append(("write-failed", f"{call}: expected success, got {outcome}"))
        return outcome, obs, problems, cls
    if obs["dims"] != want_dims or not obs["shape_ok"]:
        problems.append(("wrong-dims", f"{call}: table is {obs['dims']} (stored shape ok={obs['shape_ok']}), expected exactly {want_dims}"))
        return outcome, obs, problems, cls

    # effect on exactly the addressed cell -------------------------------------------------------
    rows = tb.rows()
    target = cell_obs(rows[r][c])
    ref = reference(kind)[min(r, n)][min(c, m)]
    allowed = {(r, c)}
    if method == "write":
        v = write_value()
        want_cls = "TextCell" if isinstance(v, str) else "BoolCell" if isinstance(v, bool) else "NumberCell"
        got_v = _try(lambda: rows[r][c].value)
        if target[0] != want_cls or got_v != v:
            problems.append(("target-not-updated", f"{call}: rows()[{r}][{c}] is {target[0]} {got_v!r}, expected {want_cls} {v!r}"))
    elif method == "set_cell_style":
        want = (style.name, style.bold, style.font_size)
        if target[3] != want:
            problems.append(("target-not-updated", f"{call}: style of rows()[{r}][{c}] is {target[3]}, expected {want}"))
        if (target[0], target[1], target[2], target[4]) != (ref[0], ref[1], ref[2], ref[4]):
            problems.append(("target-damaged", f"{call}: rows()[{r}][{c}] is {target}, expected only the style of {ref} to change"))
    elif method == "set_cell_formatting":
        want = expected_formatted(r, c)
        if target[2] != want:
            problems.append(("target-not-updated", f"{call}: formatted_value of rows()[{r}][{c}] is {target[2]!r}, expected {want!r}"))
        if (target[0], target[1], target[3], target[4]) != (ref[0], ref[1], ref[3], ref[4]):
            problems.append(("target-damaged", f"{call}: rows()[{r}][{c}] is {target}, expected only the formatted value of {ref} to change"))
    elif method == "set_cell_border":
        side = border_side(r, c)
        k = SIDES.index(side)
        want = str(the_border())
        tb_sides = target[4] if isinstance(target[4], tuple) else (target[4],) * 4
        if tb_sides[k] != want:
            problems.append(("target-not-updated", f"{call}: {side} border of rows()[{r}][{c}] is {tb_sides[k]}, expected {want}"))
        exp_sides = tuple(want if q == k else ref[4][q] for q in range(4))
        if (target[0], target[1], target[2], target[3]) != (ref[0], ref[1], ref[2], ref[3]) or tb_sides != exp_sides:
            problems.append(("target-damaged", f"{call}: rows()[{r}][{c}] is {target}, expected {ref} with only the {side} border set"))
        # the edge is shared with one neighbour, whose facing side may show the same stroke
        opp, di, dj = OPPOSITE[side]
        ni, nj = r + di, c + dj
        if 0 <= ni < want_dims[0] and 0 <= nj < want_dims[1]:
            allowed.add((ni, nj))
            nref = reference(kind)[min(ni, n)][min(nj, m)]
            nobs = cell_obs(rows[ni][nj])
            ko = SIDES.index(opp)
            n_ok = nobs[:4] == nref[:4] and isinstance(nobs[4], tuple) and all(
                nobs[4][q] == nref[4][q] or (q == ko and nobs[4][q] == want) for q in range(4))
            if not n_ok:
                problems.append(("wrong-cell", f"{call}: neighbour rows()[{ni}][{nj}] is {nobs}, expected {nref} (only its {opp} side may show the stroke)"))
    others = {k: v for k, v in obs["changed"].items() if k not in allowed}
    if others or obs["n_changed"] > len(obs["changed"]):
        problems.append(("wrong-cell", f"{call}: cells other than the addressed one changed: {fmt_changed({'changed': others})}"
                                       + (f" (+{obs['n_changed'] - len(obs['changed'])} more)" if obs["n_changed"] > len(obs["changed"]) else "")))
    return outcome, obs, problems, cls


def fmt_changed(obs, limit=3):
    items = list(obs["changed"].items())[:limit]
    return "; ".join(f"[{i},{j}] is {g} expected {w}" for (i, j), (g, w) in items) or "(none)"


def eval_case(case):
    """case = ["pos", kind, r, c, method, notation-labels|None, seed] or ["iter", kind, which, a, b, c, d, seed].
    -> (failures [(ident, detail)], stats dict). Used by the enumeration and by --replay."""
    global SEED
    SEED = int(case[-1])
    if case[0] == "iter":
        return eval_iter(case)
    if case[0] == "hist":
        return eval_hist(case)
    _, kind, r, c, method, only, _ = case
    fails, stats = [], {"calls": 0, "outcomes": []}
    base = None
    try:
        for label, pos in notations(r, c):
            if only and label not in only:
                continue
            outcome, obs, problems, cls = run_one(kind, r, c, method, label, pos)
            stats["calls"] += 1
            stats["outcomes"].append(f"{method}|{cls}|{'A0-form' if (r == -1 and label != 'rc') else label}|{'/'.join(map(str, outcome[:2]))}"
                                     + ("|grew" if obs["dims"] != KINDS[kind][:2] else ""))
            lower_rejected = label == "lower" and outcome == ("exc", "IndexError")
            if lower_rejected and cls in ("inside", "grow"):
                # lower case is allowed to be refused - but then nothing may change
                n, m, _ = KINDS[kind]
                problems = []
                if obs["dims"] != (n, m) or not obs["shape_ok"]:
                    problems.append(("table-resized-on-error", f"{method}{pos!r} on {kind}: IndexError for the lower-case form, but the table is now {obs['dims']}"))
                elif obs["n_changed"]:
                    problems.append(("cells-changed-on-error", f"{method}{pos!r} on {kind}: IndexError for the lower-case form, but cells changed: {fmt_changed(obs)}"))
            for pattern, text in problems:
                fails.append(({"mechanism": method, "class": cls, "notation": label, "pattern": pattern}, text))
            sig = (outcome, obs["dims"], obs["digest"])
            if label == "rc":
                base = sig
            elif base is not None and sig != base and not lower_rejected:
                fails.append(({"mechanism": method, "class": cls, "notation": label, "pattern": "notations-differ"},
                              f"{method} at row {r}, column {c} on {kind}: the {label} form {pos!r} gives {sig[:2]} digest {sig[2][:8]}, "
                              f"the (row, col) form gives {base[:2]} digest {base[2][:8]}"))
            if obs["dims"][0] * obs["dims"][1] > 100_000:
                gc.collect()
            del obs
    except SetupError as e:
        fails.append(({"mechanism": "initial-state", "class": kind, "notation": "rc", "pattern": "setup-failed"}, str(e)))
    return fails, stats


# ---------------------------------------------------------------------------------------------
# iterator cases
# ---------------------------------------------------------------------------------------------
def bound_alphabet(size, tier):
    last = size - 1
    vals = [None, -1, 0, 1, last - 1, last, last + 1]
    if tier == "thorough":
        vals += [-3, -2, 2, last + 2, LIMIT_ROWS]
    out = []
    for v in vals:
        if v not in out:
            out.append(v)
    return out


def light_state(tb):
    return (tb.num_rows, tb.num_cols, [[(id(c), type(c).__name__, c.value) for c in r] for r in tb.rows()])


def eval_iter(case, shared=None):
    _, kind, which, a, b, c, d, _ = case
    n, m, _ = KINDS[kind]
    fails, stats = [], {"calls": 0, "outcomes": []}
    try:
        tb = shared if shared is not None else build(kind)[1]
    except SetupError as e:
        return [(({"mechanism": "initial-state", "class": kind, "notation": "rc", "pattern": "setup-failed"}), str(e))], stats
    grid = [list(x) for x in tb.rows()]
    before = light_state(tb)
    lo_r, hi_r = (0 if a is None else a), (n - 1 if b is None else b)
    lo_c, hi_c = (0 if c is None else c), (m - 1 if d is None else d)
    out_of_range = not (0 <= lo_r < n and 0 <= hi_r < n and 0 <= lo_c < m and 0 <= hi_c < m)
    inverted = not out_of_range and (lo_r > hi_r or lo_c > hi_c)
    cls = "out-of-range" if out_of_range else "inverted" if inverted else "rectangle"
    zero = "zero-bound" if (b == 0 or d == 0) and cls == "rectangle" else cls
    for conv in ("keyword", "positional"):
        for values_only in (False, True):
            fn = getattr(tb, which)
            try:
                if conv == "keyword":
                    res = list(fn(min_row=a, max_row=b, min_col=c, max_col=d, values_only=values_only))
                elif which == "iter_rows":
                    res = list(fn(a, b, c, d, values_only))
                else:
                    res = list(fn(c, d, a, b, values_only))
                outcome = ("ok",)
            except Exception as e:  # noqa: BLE001
                res, outcome = None, ("exc", type(e).__name__)
            stats["calls"] += 1
            stats["outcomes"].append(f"{which}|{zero}|{conv}|{'/'.join(outcome)}")
            call = f"{which}(min_row={a}, max_row={b}, min_col={c}, max_col={d}, values_only={values_only}) [{conv}] on {kind}"
            ident = {"mechanism": which, "class": cls, "notation": conv, "pattern": None}

            def bad(pattern, text):
                fails.append((dict(ident, pattern=pattern), f"{call}: {text}"))

            if cls == "out-of-range":
                if outcome != ("exc", "IndexError"):
                    shown = "a result of %d tuples" % len(res) if res is not None else outcome
                    bad("no-IndexError" if outcome[0] == "ok" else "wrong-exception", f"expected IndexError, got {shown}")
            elif cls == "inverted":
                if outcome == ("ok",):
                    if any(len(t) for t in res):
                        bad("cells-for-empty-rectangle", f"min > max addresses no cell, but {sum(len(t) for t in res)} cells were visited")
                elif outcome != ("exc", "IndexError"):
                    bad("wrong-exception", f"expected an empty iteration or IndexError, got {outcome}")
            else:
                if which == "iter_rows":
                    want = [[(i, j) for j in range(lo_c, hi_c + 1)] for i in range(lo_r, hi_r + 1)]
                else:
                    want = [[(i, j) for i in range(lo_r, hi_r + 1)] for j in range(lo_c, hi_c + 1)]
                if outcome != ("ok",):
                    bad("iteration-failed", f"expected {len(want)} tuples, got {outcome}")
                else:
                    shape = [len(t) for t in res]
                    if shape != [len(w) for w in want]:
                        bad("wrong-rectangle", f"yielded tuples of lengths {shape}, expected {[len(w) for w in want]}")
                    elif values_only:
                        wv = [tuple(fill_value(i, j) for i, j in w) for w in want]
                        if [tuple(t) for t in res] != wv:
                            bad("wrong-cells", f"yielded {res}, expected {wv}")
                    elif not all(x is grid[i][j] for t, w in zip(res, want) for x, (i, j) in zip(t, w)):
                        got = [[next(((i, j) for i, gr in enumerate(grid) for j, y in enumerate(gr) if y is x), None) for x in t] for t in res]
                        bad("wrong-cells", f"visited grid positions {got}, expected {want}")
                    if any(not isinstance(t, tuple) for t in res):
                        bad("wrong-rectangle", "yielded items are not tuples")
            if light_state(tb) != before:
                bad("table-changed", f"the table changed: now {tb.num_rows}x{tb.num_cols}")
                return fails, stats
    return fails, stats


# ---------------------------------------------------------------------------------------------
# history cases: op(P in notation n1) -> structural edit -> op(P in notation n2)
# ---------------------------------------------------------------------------------------------
HIST_KINDS = ["3x2", "3x2-reloaded"]
HIST_NOTATIONS = ["rc", "A1", "$A$1"]
HIST_METHODS = ["write", "set_cell_style", "set_cell_formatting", "set_cell_border", "write>cell", "cell"]
HIST_POS = {"row-beyond": lambda n, m: (n + 1, 0), "col-beyond": lambda n, m: (0, m + 1), "both-beyond": lambda n, m: (n + 1, m + 1)}
# every edit is a list of (method, kwargs, rows delta, columns delta); deletions without start remove from the end
EDITS = {
    "none": [],
    "delete_row": [("delete_row", {}, -1, 0)],
    "delete_row2": [("delete_row", {"num_rows": 2}, -2, 0)],
    "delete_first_row": [("delete_row", {"start_row": 0}, -1, 0)],
    "delete_column": [("delete_column", {}, 0, -1)],
    "delete_column2": [("delete_column", {"num_cols": 2}, 0, -2)],
    "delete_first_column": [("delete_column", {"start_col": 0}, 0, -1)],
    "delete_both": [("delete_row", {}, -1, 0), ("delete_column", {}, 0, -1)],
    "delete_both2": [("delete_column", {"num_cols": 2}, 0, -2), ("delete_row", {"num_rows": 2}, -2, 0)],
    "add_row": [("add_row", {}, 1, 0)],
    "add_column": [("add_column", {}, 0, 1)],
    "add_row2": [("add_row", {"num_rows": 2}, 2, 0)],
    "add_column2": [("add_column", {"num_cols": 2}, 0, 2)],
    "add_both2": [("add_row", {"num_rows": 2}, 2, 0), ("add_column", {"num_cols": 2}, 0, 2)],
}


def hist_pos_args(r, c, notation):
    for label, pos in notations(r, c):
        if label == notation:
            return pos
    raise ValueError(notation)


def hist_invoke(method, tb, pos, style, r, c, value):
    if method == "write":
        return tb.write(*pos, value)
    return invoke(method, tb, pos, style, r, c)


def grid_obs(tb):
    return [[cell_obs(x) for x in row] for row in tb.rows()]


def _guarded(fn, row_budget, col_budget):
    _GUARD.update(on=True, rows=0, cols=0, row_budget=row_budget, col_budget=col_budget)
    try:
        return ("ok",), fn()
    except _Runaway as e:
        return ("runaway", str(e)), None
    except Exception as e:  # noqa: BLE001
        return ("exc", type(e).__name__), None
    finally:
        _GUARD["on"] = False


def run_history(kind, method, pkind, edit, n1, n2):
    """One three-step history on a freshly built table.
    -> (signature for the twin comparison, problems [(pattern, text)]) or (None, []) if the edit is not enabled."""
    n, m, _ = KINDS[kind]
    r, c = HIST_POS[pkind](n, m)
    m1, m2 = ("write", "cell") if method == "write>cell" else (method, method)
    doc, tb, style = build(kind)
    problems = []
    what = f"{kind}: {m1}{hist_pos_args(r, c, n1)!r} -> {edit} -> {m2}{hist_pos_args(r, c, n2)!r}"

    def step_dims(label, want_options):
        got = (tb.num_rows, tb.num_cols)
        rows = tb.rows()
        if got not in want_options or len(rows) != got[0] or any(len(x) != got[1] for x in rows):
            problems.append(("wrong-dims", f"{what}: after {label} the table is {got} (stored rows {[len(x) for x in rows][:8]}), expected {' or '.join(map(str, want_options))}"))
            return False
        return True

    def expected_outcomes(meth, d):
        """-> (allowed outcomes, allowed dims) for a call at (r, c) on a table of size d."""
        grown = (max(d[0], r + 1), max(d[1], c + 1))
        if meth == "cell":
            return ([("ok",)] if r < d[0] and c < d[1] else [("exc", "IndexError")]), [d]
        if meth == "set_cell_formatting":  # the target is an empty cell: the cell-type rule may refuse it
            return [("ok",), ("exc", "TypeError")], [grown, d]
        return [("ok",)], [grown]

    # step 1 ---------------------------------------------------------------------------------------
    d0 = (n, m)
    out1, _ = _guarded(lambda: hist_invoke(m1, tb, hist_pos_args(r, c, n1), style, r, c, "first"), r + 9, c + 9)
    ok_out, ok_dims = expected_outcomes(m1, d0)
    if out1 not in ok_out:
        problems.append(("first-call-failed", f"{what}: first call gave {out1}, expected {ok_out}"))
    if out1 == ("ok",) and m1 != "cell":
        ok_dims = ok_dims[:1]
    if not step_dims("the first call", ok_dims):
        return (out1, None, (tb.num_rows, tb.num_cols)), problems
    d1 = (tb.num_rows, tb.num_cols)
    # step 2: structural edit ----------------------------------------------------------------------
    de = d1
    for _, _, dr, dc in EDITS[edit]:
        de = (de[0] + dr, de[1] + dc)
        if de[0] < 1 or de[1] < 1:
            return None, []  # edit not enabled in this state (would empty the table)
    for name, kw, _, _ in EDITS[edit]:
        oute, _ = _guarded(lambda name=name, kw=kw: getattr(tb, name)(**kw), 9, 9)
        if oute != ("ok",):
            problems.append(("edit-failed", f"{what}: {name}({kw}) gave {oute}"))
            return (out1, oute, (tb.num_rows, tb.num_cols)), problems
    if not step_dims(f"the edit {edit}", [de]):
        return (out1, "edit", (tb.num_rows, tb.num_cols)), problems
    pre = grid_obs(tb)
    pre_cells = [list(x) for x in tb.rows()]
    # step 3 ---------------------------------------------------------------------------------------
    out2, ret = _guarded(lambda: hist_invoke(m2, tb, hist_pos_args(r, c, n2), style, r, c, write_value()),
                         max(0, r + 1 - de[0]) + 8, max(0, c + 1 - de[1]) + 8)
    ok_out, ok_dims = expected_outcomes(m2, de)
    if out2 not in ok_out:
        problems.append(("second-call-failed" if out2[0] != "runaway" else "runaway-growth",
                         f"{what}: second call on the {de[0]}x{de[1]} table gave {out2}, expected {ok_out}"))
    if out2 == ("ok",) and m2 != "cell":
        ok_dims = ok_dims[:1]
    dims_ok = step_dims("the second call", ok_dims)
    d2 = (tb.num_rows, tb.num_cols)
    post = grid_obs(tb) if dims_ok else None
    if dims_ok:
        rows = tb.rows()
        allowed = set()
        if out2 == ("ok",) and m2 == "cell":
            if ret is not pre_cells[r][c]:
                problems.append(("wrong-cell", f"{what}: the read did not return rows()[{r}][{c}]"))
        elif out2 == ("ok",):
            allowed.add((r, c))
            t = post[r][c]
            if m2 == "write":
                v = write_value()
                if _try(lambda: rows[r][c].value) != v:
                    problems.append(("target-not-updated", f"{what}: rows()[{r}][{c}] holds {t[1]}, expected {v!r}"))
            elif m2 == "set_cell_style":
                if t[3] != (style.name, style.bold, style.font_size):
                    problems.append(("target-not-updated", f"{what}: style of rows()[{r}][{c}] is {t[3]}"))
            elif m2 == "set_cell_border":
                side = border_side(r, c)
                if not isinstance(t[4], tuple) or t[4][SIDES.index(side)] != str(the_border()):
                    problems.append(("target-not-updated", f"{what}: {side} border of rows()[{r}][{c}] is {t[4]}"))
                _, di, dj = OPPOSITE[side]
                allowed.add((r + di, c + dj))
        for i, row in enumerate(post):
            for j, got in enumerate(row):
                if (i, j) in allowed:
                    continue
                if i < de[0] and j < de[1]:
                    if got != pre[i][j]:
                        problems.append(("wrong-cell", f"{what}: cell [{i},{j}] changed from {pre[i][j]} to {got}"))
                elif (got[0], got[1]) != ("EmptyCell", "None") or got[4] != ("None",) * 4:
                    problems.append(("wrong-cell", f"{what}: new cell [{i},{j}] is {got}, expected an empty cell"))
    return (out1, out2, d1, de, d2, post), problems[:6]


_TWIN = {}


def eval_hist(case):
    """case = ["hist", kind, method, position kind, edit, n1, n2, seed]."""
    _, kind, method, pkind, edit, n1, n2, _ = case
    fails, stats = [], {"calls": 0, "outcomes": []}
    ident = {"mechanism": method, "class": f"history/{pkind}/{edit}", "notation": f"{n1}>{n2}", "pattern": None}
    try:
        sig, problems = run_history(kind, method, pkind, edit, n1, n2)
        if sig is None:
            stats["outcomes"].append("history|edit-not-enabled")
            return fails, stats
        stats["calls"] = 2
        key = (kind, method, pkind, edit, SEED)
        if (n1, n2) == ("rc", "rc"):
            twin = sig
        else:
            if key not in _TWIN:
                _TWIN.clear()
                _TWIN[key] = run_history(kind, method, pkind, edit, "rc", "rc")[0]
            twin = _TWIN[key]
        stats["outcomes"].append(f"history|{method}|{edit}|{'/'.join(map(str, sig[1][:2])) if isinstance(sig[1], tuple) else sig[1]}"
                                 + ("|regrown" if len(sig) > 4 and sig[4] != sig[3] else ""))
        for pattern, text in problems:
            fails.append((dict(ident, pattern=pattern), text))
        if sig != twin:
            diff = next((f"{name}: {a} vs {b}" for name, a, b in zip(("first outcome", "second outcome", "dims after first call", "dims after edit", "final dims"), sig, twin) if a != b),
                        "cell observations differ")
            fails.append((dict(ident, pattern="differs-from-rowcol-twin"),
                          f"{kind}: history {method} at {HIST_POS[pkind](*KINDS[kind][:2])} / {edit} in notations {n1}>{n2} differs from the same history in (row, col) form: {diff}"))
    except SetupError as e:
        fails.append(({"mechanism": "initial-state", "class": kind, "notation": "rc", "pattern": "setup-failed"}, str(e)))
    return fails, stats


def hist_cases(kind, method):
    for pkind in HIST_POS:
        for edit in EDITS:
            for n1 in HIST_NOTATIONS:
                for n2 in HIST_NOTATIONS:
                    yield ("hist", kind, method, pkind, edit, n1, n2)


# ---------------------------------------------------------------------------------------------
# enumeration
# ---------------------------------------------------------------------------------------------
def pos_tasks(tier):
    tasks, skipped, mega = [], [], []
    for kind, (n, m, _) in KINDS.items():
        for method in METHODS:
            for r in row_set(n):
                cols = []
                for c in col_set(m):
                    cls = pos_class(n, m, r, c, method)
                    if cls == "grow":
                        a = affordable(n, m, r, c, tier)
                        if a == "skip" or (a == "mega" and KINDS[kind][2] != "fresh"):
                            skipped.append((kind, r, c, method))
                            continue
                        if a == "mega":
                            mega.append(["pos", kind, r, c, method, ["rc", "A1"]])
                            continue
                    cols.append(c)
                if cols:
                    tasks.append(("pos", kind, method, r, cols))
    return tasks, skipped, mega


def _record(part, case, fails, stats):
    part.count("evaluations", stats["calls"])
    for o in stats["outcomes"]:
        part.outcome(o)
    for ident, detail in fails:
        part.fail(ident, detail, list(case))


def work(task):
    global SEED
    part = Part()
    if task[0] == "pos":
        _, kind, method, r, cols, SEED = task
        for c in cols:
            case = ("pos", kind, r, c, method, None, SEED)
            fails, stats = eval_case(case)
            _record(part, case, fails, stats)
            part.count("position_cases")
            part.count("position_calls", stats["calls"])
            part.count(f"calls_{method}", stats["calls"])
        part.sample({"phase": "position", "case": ["pos", kind, r, cols[0], method, None, SEED]})
    elif task[0] == "hist":
        _, kind, method, SEED = task
        first = None
        for base in hist_cases(kind, method):
            case = (*base, SEED)
            first = first or case
            fails, stats = eval_case(case)
            _record(part, case, fails, stats)
            if stats["calls"]:
                part.count("histories")
                part.count("history_calls", stats["calls"])
            else:
                part.count("histories_not_enabled")
        part.sample({"phase": "history", "case": list(first)})
    elif task[0] == "mega":
        _, case, SEED = task
        case = (*case, SEED)
        fails, stats = eval_case(case)
        _record(part, case, fails, stats)
        part.count("position_cases")
        part.count("position_calls", stats["calls"])
        part.count("mega_growth_calls", stats["calls"])
        part.sample({"phase": "10^6-row growth", "case": list(case)})
        gc.collect()
    else:
        _, kind, which, a_list, tier, SEED = task
        n, m, _ = KINDS[kind]
        shared = None
        for a in a_list:
            for b in bound_alphabet(n, tier):
                for c in bound_alphabet(m, tier):
                    for d in bound_alphabet(m, tier):
                        if shared is None:
                            try:
                                shared = build(kind)[1]
                            except SetupError:
                                shared = None  # eval_iter rebuilds and reports it
                        case = ("iter", kind, which, a, b, c, d, SEED)
                        fails, stats = eval_iter(case, shared)
                        if fails:
                            shared = None  # never reuse a table after a failure
                        _record(part, case, fails, stats)
                        part.count("iterator_tuples")
                        part.count("iterator_runs", stats["calls"])
        part.sample({"phase": "iterator", "case": ["iter", kind, which, a_list[0], 0, None, 0, SEED]})
    return part.dump()


def replay(case, payload):
    fails, stats = eval_case(list(case))
    text = f"case {case}: {stats['calls']} calls; " + ("; ".join(d for _, d in fails) or "agrees with the reference grid")
    return bool(fails), text


def main():
    global SEED
    args = parse_args()
    SEED = args.seed
    if args.replay:
        return run_replay(args, replay)
    run = Run(PID, "exploration", args)
    tier = args.tier

    tasks, skipped, mega = pos_tasks(tier)
    work_items = [(*t, SEED) for t in tasks]
    for kind in ITER_KINDS:
        n = KINDS[kind][0]
        for which in ("iter_rows", "iter_cols"):
            for a in bound_alphabet(n, tier):
                work_items.append(("iter", kind, which, [a], tier, SEED))
    for kind in HIST_KINDS:
        for method in HIST_METHODS:
            work_items.append(("hist", kind, method, SEED))
    # most expensive shards first (rows 255..257 and wide growth)
    work_items.sort(key=lambda t: 0 if (t[0] == "pos" and (t[3] >= 255 or t[1] == "12x8")) else 1)
    for res in pmap(work, work_items, args.jobs):
        run.merge(res)
    if mega:
        for res in pmap(work, [("mega", case, SEED) for case in mega], min(args.jobs, 3)):
            run.merge(res)

    # ---- non-vacuity floors -------------------------------------------------------------------
    names = ["".join(t) for k in (1, 2, 3) for t in itertools.product(string.ascii_uppercase, repeat=k)]
    run.floor("independent column-name generator agrees with itertools.product for columns 0..1001",
              [colname(i) for i in range(LIMIT_COLS + 2)] == names[: LIMIT_COLS + 2])
    oc = run.outcomes
    for method in METHODS:
        for cls in ("negative-row", "negative-col", "beyond-row-limit", "beyond-col-limit", "inside"):
            run.floor(f"{method}: position class {cls} executed in (row,col) and A1 form where expressible",
                      any(k.startswith(f"{method}|{cls}|rc|") for k in oc)
                      and (cls == "negative-col" or any(k.startswith(f"{method}|{cls}|") and "|rc|" not in k for k in oc)))
        if method != "cell":
            run.floor(f"{method}: growth executed and observed in both notations",
                      any(k.startswith(f"{method}|grow|rc|") and k.endswith("|grew") for k in oc)
                      and any(k.startswith(f"{method}|grow|A1|") and k.endswith("|grew") for k in oc))
    run.floor("cell: reads outside the table executed", any(k.startswith("cell|outside-table|") for k in oc))
    run.floor("'A0' forms of row -1 executed", any("|A0-form|" in k for k in oc))
    run.floor("lower-case forms executed", any("|lower|" in k for k in oc))
    run.floor(">= 2 distinct outcomes per phase", len({k.split("|")[-1] for k in oc if k.startswith("iter_")}) >= 2 and len(oc) >= 20)
    for which in ("iter_rows", "iter_cols"):
        run.floor(f"{which}: rectangles, zero bounds, out-of-range and inverted bounds all executed",
                  all(any(k.startswith(f"{which}|{z}|") for k in oc) for z in ("rectangle", "zero-bound", "out-of-range", "inverted")))
    for method in HIST_METHODS:
        run.floor(f"histories of {method}: an edit moved the bounds back across P and the second call was executed",
                  any(k.startswith(f"history|{method}|delete_") for k in oc)
                  and (method == "cell" or any(k.startswith(f"history|{method}|delete_") and (k.endswith("|regrown") or method == "write>cell") for k in oc)))
    run.floor("histories: >= 2500 three-step histories executed", run.counters["histories"] >= 2500)
    if tier == "thorough":
        run.floor("10^6-row growth executed", run.counters["mega_growth_calls"] >= 8)

    lower = sorted({k.split("|")[-1] for k in oc if "|lower|" in k and ("|inside|" in k or "|grow|" in k)})
    run.extra["lower_case_behaviour"] = lower
    run.extra["skipped_expensive_growth_cases"] = len(skipped)
    run.extra["skipped_expensive_growth_examples"] = [list(s) for s in skipped[:6]]
    run.assume("limits are the documented 1,000,000 rows / 1,000 columns (hard-coded in the check)")
    run.assume(f"write-type calls whose success needs an expensive growth are outside the bounded space: {len(skipped)} "
               "(kind,row,col,method) combinations (rows 255..257 or 999,999 combined with column 999, wide growth of tables "
               "with more than " + ("17" if tier == "thorough" else "3") + " rows, and the 10^6-row growth"
               + ("" if tier == "thorough" else " - thorough tier only") + "); their reads and all error positions are executed")
    run.assume("style observation (48 us per cell) covers every cell of tables up to 400 cells; on larger grown tables it covers the old "
               "cells and the crossings of the rows/columns {0,1,2,n-1,n,n+1,last-1,last,r-1,r,r+1,c,wrapped r} x the same for columns; "
               "class, value, formatted value and all four borders are observed on every cell")
    run.assume("new cells are compared with the cells add_row()/add_column() create (structural API as reference for 'empty')")
    cov = {
        "distinct_nontrivial": run.counters["position_calls"] + run.counters["iterator_tuples"] + run.counters["histories"],
        "rule": "distinct (table kind, row, column, method, notation) calls, each on a freshly built table and compared cell by cell with "
                "the reference grid, plus distinct (table, iterator, min_row, max_row, min_col, max_col) tuples (each run in 4 calling variants), "
                "plus distinct three-step histories (table, method, position, structural edit, first notation, second notation)",
        "exhaustive": True,
    }
    return run.finish(cov)


if __name__ == "__main__":
    sys.exit(main())
