"""C06 - what is read does not depend on meaning-preserving choices of file layout.

For every readable fixture, the template and the API-generated family, layout-transformation
families T1..T6 (and their pairwise compositions) are produced with the independent container code
(mc.pkg) at protobuf level, all other bytes copied; the library reads each variant.
Oracles: (metamorphic) snapshot(read(T(d))) == snapshot(read(d)); (absolute, independent of read(d))
every stored text record is read with the string its key carries in the table's string list, and the
set of non-empty cells is exactly the set of stored records at tileid*tile_size + tile_row_index.
"""
from __future__ import annotations

import itertools
import os
import shutil
import struct
import sys
import zipfile

from mc import gen_docs, pkg
from mc.evidence import Part, Run, parse_args, run_replay
from mc.pool import Scratch, pmap
from mc.snapshot import diff, doc_snap, open_doc, readable_fixtures

PID = "C06"
_n = [0]


def _tmp(tag, ext=".numbers"):
    _n[0] += 1
    return Scratch.path(f"c06-{os.getpid()}-{_n[0]}-{tag}{ext}")


# ---------------------------------------------------------------------------------------------
# transformations: members -> members


def _perm(n, how):
    idx = list(range(n))
    if n < 2:
        return idx
    if how == "reverse":
        return idx[::-1]
    if how == "rotate":
        return idx[1:] + idx[:1]
    if how == "swap-first":
        return [1, 0] + idx[2:]
    if how == "swap-last":
        return idx[:-2] + [idx[-1], idx[-2]]
    if how == "interleave":
        return idx[1::2] + idx[0::2]
    if how.startswith("perm"):
        k = int(how[4:])
        perms = list(itertools.permutations(idx)) if n <= 4 else None
        if perms is None:
            return idx[::-1] if k % 2 else idx[1:] + idx[:1]
        return list(perms[k % len(perms)])
    raise ValueError(how)


def t1(how, only_list=None):
    """Permute the entries of every TST.TableDataList (or only the `only_list`-th one)."""
    counter = [0]
    stats = {"lists_permuted": 0}

    def fn(name, m, ident):
        if name != "TST.TableDataList":
            return False
        i = counter[0]
        counter[0] += 1
        if only_list is not None and i != only_list:
            return False
        n = len(m.entries)
        if n < 2:
            return False
        order = _perm(n, how)
        if order == list(range(n)):
            return False
        es = [type(e).FromString(e.SerializeToString()) for e in m.entries]
        del m.entries[:]
        for j in order:
            m.entries.add().CopyFrom(es[j])
        stats["lists_permuted"] += 1
        return True

    def apply(members):
        counter[0] = 0
        out = pkg.transform(members, fn)
        return out, stats["lists_permuted"] > 0

    return apply


def t2(mode):
    """Re-chunk every archive: 'one' (single chunk if <= 64 KiB), 'cut1', 'half', '1k'."""

    def apply(members):
        out = []
        changed = False
        for name, blob in members:
            if not pkg.is_iwa_name(name):
                out.append((name, blob))
                continue
            try:
                stream = pkg.unframe(blob)
            except pkg.PkgError:
                out.append((name, blob))
                continue
            n = len(stream)
            if mode == "one":
                cuts = [] if n <= pkg.CHUNK else None
            elif mode == "cut1":
                cuts = [1] + list(range(1 + pkg.CHUNK, n, pkg.CHUNK)) if n > 1 else None
            elif mode == "half":
                cuts = sorted({n // 2} | set(range(pkg.CHUNK, n // 2, pkg.CHUNK)) | set(range(n // 2 + pkg.CHUNK, n, pkg.CHUNK))) if n > 1 else None
            elif mode == "1k":
                cuts = list(range(1024, n, 1024))
            else:
                raise ValueError(mode)
            if cuts is None:
                out.append((name, blob))
                continue
            nb = pkg.frame(stream, cuts)
            changed = changed or nb != blob
            out.append((name, nb))
        return out, changed

    return apply


def t3(order):
    def apply(members):
        if order == "reversed":
            out = members[::-1]
        elif order == "sorted":
            out = sorted(members, key=lambda x: x[0])
        elif order == "rotated":
            k = len(members) // 2
            out = members[k:] + members[:k]
        else:
            raise ValueError(order)
        return out, out != members

    return apply


def t5(scope):
    """Flip wide <-> narrow offsets for every row where representable (scope 'all', 'tile<k>' or
    'all-absent' = as 'all' but byte-offset rows carry NO has_wide_offsets field at all, which is how
    Numbers itself writes them; present-false and absent mean the same)."""
    absent = scope == "all-absent"
    if absent:
        scope = "all"
    stats = {"rows": 0}
    counter = [0]

    def fn(name, m, ident):
        if name != "TST.Tile":
            return False
        k = counter[0]
        counter[0] += 1
        if scope != "all" and scope != f"tile{k}":
            return False
        ch = False
        for r in m.rowInfos:
            if len(r.cell_offsets) % 2 or not r.cell_storage_buffer:
                continue
            offs = struct.unpack(f"<{len(r.cell_offsets) // 2}h", r.cell_offsets)
            if r.has_wide_offsets:
                if len(r.cell_storage_buffer) < 32000 and all(o * 4 < 32768 for o in offs):
                    r.cell_offsets = struct.pack(f"<{len(offs)}h", *[o * 4 if o >= 0 else o for o in offs])
                    r.has_wide_offsets = False
                    if absent:
                        r.ClearField("has_wide_offsets")
                    ch = True
                    stats["rows"] += 1
            elif all(o % 4 == 0 for o in offs if o >= 0):
                r.cell_offsets = struct.pack(f"<{len(offs)}h", *[o // 4 if o >= 0 else o for o in offs])
                r.has_wide_offsets = True
                ch = True
                stats["rows"] += 1
        return ch

    def apply(members):
        counter[0] = 0
        out = pkg.transform(members, fn)
        return out, stats["rows"] > 0

    return apply


def empty_rows_without_header(members):
    """-> list of (bucket object id, row) for rows that have no explicit header record."""
    objs = pkg.decode_objects(members, strict=False)
    out = []
    for ident, (_n2, _ai, msg, _p) in sorted(objs.items()):
        if msg is None or msg.DESCRIPTOR.full_name != "TST.TableModelArchive":
            continue
        bds = msg.base_data_store
        if not bds.rowHeaders.buckets:
            continue
        bid = bds.rowHeaders.buckets[0].identifier
        if bid not in objs or objs[bid][2] is None:
            continue
        have = {h.index for h in objs[bid][2].headers}
        for r in range(msg.number_of_rows):
            if r not in have:
                out.append((bid, r))
    return out


def t6(which):
    """Add explicit header records (numberOfCells=0) for empty rows that lack one.
    which = 'all' | 'none' | tuple of indices into empty_rows_without_header()."""

    def apply(members):
        cand = empty_rows_without_header(members)
        if which == "all":
            chosen = cand
        elif which == "none":
            chosen = []
        else:
            chosen = [cand[i] for i in which if i < len(cand)]
        if not chosen:
            return members, False
        by_bucket = {}
        for bid, r in chosen:
            by_bucket.setdefault(bid, []).append(r)

        def fn(name, m, ident):
            if name != "TST.HeaderStorageBucket" or ident not in by_bucket:
                return False
            from numbers_parser.generated import TSTArchives_pb2 as TST

            hs = [TST.HeaderStorageBucket.Header.FromString(h.SerializeToString()) for h in m.headers]
            for r in by_bucket[ident]:
                hs.append(TST.HeaderStorageBucket.Header(index=r, numberOfCells=0, size=0.0, hidingState=0))
            hs.sort(key=lambda x: x.index)
            del m.headers[:]
            for h in hs:
                m.headers.add().CopyFrom(h)
            return True

        return pkg.transform(members, fn), True

    return apply


def build_transform(spec):
    """spec = ['T1', how] | ['T1one', how, k] | ['T2', mode] | ['T3', order, compress] | ['T4'] | ['T5', scope] | ['T6', which] | ['ID']"""
    k = spec[0]
    if k == "T1":
        return t1(spec[1])
    if k == "T1one":
        return t1(spec[1], spec[2])
    if k == "T2":
        return t2(spec[1])
    if k == "T3":
        return t3(spec[1])
    if k == "T5":
        return t5(spec[1])
    if k == "T6":
        return t6(tuple(spec[1]) if isinstance(spec[1], list) else spec[1])
    if k in ("T4", "ID"):
        return lambda members: (members, k == "T4")
    raise ValueError(spec)


# ---------------------------------------------------------------------------------------------
# independent mini reader: stored text values and stored cell positions


def independent_view(members):
    """-> {(sheetless) table_name_occurrence: {"text": {(r,c): str}, "stored": {(r,c): cell_type}}} keyed by table order"""
    from mc.validate import record_fields, record_length

    objs = pkg.decode_objects(members, strict=False)
    out = []
    for ident, (_n2, _ai, msg, _p) in sorted(objs.items()):
        if msg is None or msg.DESCRIPTOR.full_name != "TST.TableModelArchive":
            continue
        bds = msg.base_data_store
        strings = {}
        if bds.stringTable.identifier in objs and objs[bds.stringTable.identifier][2] is not None:
            for e in objs[bds.stringTable.identifier][2].entries:
                strings.setdefault(e.key, e.string)
        tsize = bds.tiles.tile_size or 256
        text, stored = {}, {}
        ok = True
        for tl in bds.tiles.tiles:
            if tl.tile.identifier not in objs or objs[tl.tile.identifier][2] is None:
                ok = False
                continue
            tile = objs[tl.tile.identifier][2]
            for r in tile.rowInfos:
                if not r.cell_storage_buffer and r.cell_storage_buffer_pre_bnc:
                    ok = False  # pre-BNC only: unsupported by the library
                    continue
                row = tl.tileid * tsize + r.tile_row_index
                offs = struct.unpack(f"<{len(r.cell_offsets) // 2}h", r.cell_offsets)
                mult = 4 if r.has_wide_offsets else 1
                buf = r.cell_storage_buffer
                for c, o in enumerate(offs[: msg.number_of_columns]):
                    if o < 0:
                        continue
                    p = o * mult
                    if record_length(buf, p) is None:
                        continue
                    fields, ctype = record_fields(buf, p)
                    stored[(row, c)] = ctype
                    if ctype == 3 and "string_id" in fields and fields["string_id"] in strings:
                        text[(row, c)] = strings[fields["string_id"]]
        out.append({"table_id": ident, "name": msg.table_name, "nr": msg.number_of_rows, "nc": msg.number_of_columns, "text": text, "stored": stored, "ok": ok})
    return out


def absolute_oracle(doc, members, label):
    fails = []
    views = {v["table_id"]: v for v in independent_view(members)}
    n_text = n_pos = 0
    for s in doc.sheets:
        for t in s.tables:
            v = views.get(t._table_id)
            if v is None or not v["ok"]:
                continue
            if doc._model.is_a_pivot_table(t._table_id):
                continue
            rows = t.rows()
            for (r, c), want in v["text"].items():
                if r >= len(rows) or c >= len(rows[r]):
                    continue
                cell = rows[r][c]
                if type(cell).__name__ == "TextCell":
                    n_text += 1
                    if cell.value != want:
                        fails.append(({"mechanism": "string-lookup", "class": "empty-instead-of-text" if cell.value == "" else "wrong-text", "oracle": "absolute"},
                                      f"{label}: {s.name}/{t.name}({r},{c}) reads {cell.value!r}, the entry carrying its key holds {want!r}"))
            lib_nonempty = {(r, c) for r, row in enumerate(rows) for c, cell in enumerate(row) if type(cell).__name__ not in ("EmptyCell", "MergedCell")}
            stored_nonempty = {k for k, ct in v["stored"].items() if ct != 0}
            n_pos += len(stored_nonempty)
            missing = sorted(stored_nonempty - lib_nonempty)
            extra = sorted(lib_nonempty - set(v["stored"]))
            if missing or extra:
                fails.append(({"mechanism": "row-position", "class": "stored-row-reported-elsewhere", "oracle": "absolute"},
                              f"{label}: {s.name}/{t.name}: stored cells not reported at their declared position {missing[:4]}, cells reported where nothing is stored {extra[:4]}"))
    return fails, n_text, n_pos


# ---------------------------------------------------------------------------------------------


def source_members(src):
    kind, name = src
    if kind == "fixture":
        import re

        # a zip that wraps a package folder ('x.numbers/...'): member names relative to the package
        return [(re.sub(r"^[^/]*\.numbers/", "", n), b) for n, b in pkg.read_members(name)], name
    p = _tmp(f"gen-{name}")
    gen_docs.build(name).save(p)
    m = pkg.read_members(p)
    return m, p


def variants(tier, members, ncells):
    nlists = sum(1 for _ in _datalists(members))
    vs = [["ID"]]
    if tier == "quick":
        vs += [["T1", "reverse"], ["T1", "rotate"], ["T2", "cut1"], ["T3", "reversed", "deflated"], ["T3", "sorted", "stored"], ["T4"], ["T5", "all"], ["T5", "all-absent"], ["T6", "all"]]
        if ncells <= 2000:
            vs += [["T1", "interleave"], ["T1", "perm3"], ["T2", "1k"], ["T2", "half"]]
        return vs, []
    vs += [["T1", h] for h in ("reverse", "rotate", "swap-first", "swap-last", "interleave")]
    vs += [["T1", f"perm{k}"] for k in range(1, 24)] if ncells <= 2000 else []
    if nlists <= 12 and ncells <= 2000:
        vs += [["T1one", h, k] for k in range(nlists) for h in ("reverse", "rotate")]
    vs += [["T2", m] for m in ("one", "cut1", "half", "1k")]
    vs += [["T3", o, c] for o in ("reversed", "sorted", "rotated") for c in ("stored", "deflated")]
    vs += [["T4"], ["T5", "all"], ["T5", "all-absent"]]
    ntiles = sum(1 for n, _ in _tiles(members))
    if ntiles <= 6:
        vs += [["T5", f"tile{k}"] for k in range(ntiles)]
    cand = empty_rows_without_header(members)
    vs += [["T6", "all"]]
    if len(cand) <= 4:
        for k in range(1, len(cand)):
            for sub in itertools.combinations(range(len(cand)), k):
                vs.append(["T6", list(sub)])
    else:
        vs += [["T6", [i]] for i in range(min(len(cand), 12))]
    pairs = []
    if ncells <= 500:
        base = [["T1", "reverse"], ["T2", "cut1"], ["T3", "reversed", "deflated"], ["T4"], ["T5", "all"], ["T6", "all"]]
        pairs = [[a, b] for a in base for b in base if a[0] != b[0]]
    return vs, pairs


def _datalists(members):
    for name, blob in members:
        if pkg.is_iwa_name(name):
            try:
                for ai, _p in pkg.segments(pkg.unframe(blob)):
                    if ai.message_infos and pkg.message_class(ai.message_infos[0].type) is not None and pkg.message_class(ai.message_infos[0].type).DESCRIPTOR.full_name == "TST.TableDataList":
                        yield ai.identifier
            except Exception:  # noqa: BLE001
                continue


def _tiles(members):
    for name, blob in members:
        if pkg.is_iwa_name(name):
            try:
                for ai, _p in pkg.segments(pkg.unframe(blob)):
                    c = pkg.message_class(ai.message_infos[0].type) if ai.message_infos else None
                    if c is not None and c.DESCRIPTOR.full_name == "TST.Tile":
                        yield name, ai.identifier
            except Exception:  # noqa: BLE001
                continue


def write_variant(members, specs):
    """Write the variant; returns (path, is_dir)."""
    compress = zipfile.ZIP_STORED
    as_folder = False
    for sp in specs:
        if sp[0] == "T3" and sp[2] == "deflated":
            compress = zipfile.ZIP_DEFLATED
        if sp[0] == "T4":
            as_folder = True
    if as_folder:
        p = _tmp("v")
        pkg.write_package_folder(p, members, compress)
        return p, True
    p = _tmp("v")
    pkg.write_members(p, members, compress)
    return p, False


def eval_case(case):
    """case = [src_kind, src_name, [spec, ...]] (one spec or a composition)"""
    kind, name, specs = case
    fails = []
    stats = {"changed": False, "text_checked": 0, "positions_checked": 0, "cells": 0}
    cleanup = []
    try:
        members, src_path = source_members((kind, name))
        if kind == "gen":
            cleanup.append(src_path)
        d0, _ = open_doc(src_path)
        s0 = doc_snap(d0)
        stats["cells"] = sum(t["nr"] * t["nc"] for t in s0)
        m = members
        for sp in specs:
            m, ch = build_transform(sp)(m)
            stats["changed"] = stats["changed"] or ch
        p, is_dir = write_variant(m, specs)
        cleanup.append(p)
        label = f"{os.path.basename(name)} {specs}"
        try:
            d1, _ = open_doc(p)
            s1 = doc_snap(d1)
        except Exception as e:  # noqa: BLE001
            fails.append(({"mechanism": specs[0][0] if len(specs) == 1 else "composition", "class": f"read-raised-{type(e).__name__}", "oracle": "metamorphic"},
                          f"{label}: reading the variant raised {type(e).__name__}: {e}"))
            return fails, stats
        df = diff(s0, s1, limit=6)
        if df:
            keys = sorted({x.split("] ")[1].split(":")[0] if "] " in x else "structure" for x in df})
            fails.append(({"mechanism": specs[0][0] if len(specs) == 1 else "composition", "class": "snapshot-differs", "fields": ",".join(keys)[:40], "oracle": "metamorphic"},
                          f"{label}: {len(df)}+ differences, e.g. {df[:3]}"))
        af, nt, npos = absolute_oracle(d1, m, label)
        stats["text_checked"] = nt
        stats["positions_checked"] = npos
        fails += af
    finally:
        for p in cleanup:
            if os.path.isdir(p):
                shutil.rmtree(p, ignore_errors=True)
            elif os.path.exists(p):
                os.unlink(p)
    return fails, stats


def work(case):
    part = Part()
    try:
        fails, stats = eval_case(case)
    except pkg.PkgError as e:
        part.count("skipped_source_not_decodable")
        part.sample({"skipped": os.path.basename(case[1]), "why": str(e)[:80]})
        return part.dump()
    part.count("evaluations")
    part.count("variants_" + ("+".join(s[0] for s in case[2])))
    if stats["changed"]:
        part.count("variants_that_changed_bytes")
    part.count("text_cells_checked_absolutely", stats["text_checked"])
    part.count("stored_positions_checked_absolutely", stats["positions_checked"])
    part.outcome("same" if not fails else "differs")
    for ident, detail in fails:
        part.fail(ident, detail, case)
    part.sample({"document": os.path.basename(case[1]), "transform": case[2], "changed_bytes": stats["changed"], "cells": stats["cells"]})
    return part.dump()


def plan_doc(arg):
    tier, kind, name, ncells = arg
    try:
        members, p = source_members((kind, name))
        if kind == "gen" and os.path.exists(p):
            os.unlink(p)
        vs, pairs = variants(tier, members, ncells)
    except Exception as e:  # noqa: BLE001
        return {"cases": [], "error": f"{name}: {type(e).__name__}: {e}"}
    return {"cases": [[kind, name, [v]] for v in vs] + [[kind, name, pr] for pr in pairs]}


def main():
    args = parse_args()
    if args.replay:
        def rp(case, payload):
            fails, _ = eval_case(case)
            return bool(fails), f"case {case}: " + ("; ".join(d for _, d in fails[:3]) or "variant reads the same")
        return run_replay(args, rp)
    run = Run(PID, "exploration", args)
    docs = [(args.tier, "fixture", p, n) for p, n in readable_fixtures()] + [(args.tier, "gen", n, 30) for n in gen_docs.names()]
    cases = []
    for res in pmap(plan_doc, docs, args.jobs, ordered=True):
        if res.get("error"):
            run.count("documents_not_transformable")
            run.sample({"not transformable": res["error"][:160]})
        cases += res["cases"]
    size = {d[2]: d[3] for d in docs}
    cases.sort(key=lambda c: -size.get(c[1], 0))
    for res in pmap(work, cases, args.jobs):
        run.merge(res)
    ndocs = len({c[1] for c in cases})
    run.floor(">= 75 documents transformed", ndocs >= 75)
    run.floor(">= 100 variants actually changed bytes for each of T1, T2, T3, T5 / >= 5 for T6", all(run.counters[f"variants_{k}"] >= 50 for k in ("T1", "T2", "T3", "T4", "T5")) and run.counters["variants_T6"] >= 5)
    run.floor(">= 10000 text cells and stored positions checked by the absolute oracle", run.counters["text_cells_checked_absolutely"] >= 10000 and run.counters["stored_positions_checked_absolutely"] >= 10000)
    run.floor("most variants differ from the source in bytes", run.counters["variants_that_changed_bytes"] * 2 >= run.counters["evaluations"])
    cov = {
        "distinct_nontrivial": run.counters["variants_that_changed_bytes"],
        "documents": ndocs,
        "rule": "one case = (document, transformation or pair of transformations); complete product of the document list with the tier's transformation list; non-trivial = the rewritten package differs from the source in bytes",
        "exhaustive": True,
    }
    run.assume("layout freedoms not listed in the statement (objects moved between archive files) are not enumerated")
    return run.finish(cov)


if __name__ == "__main__":
    sys.exit(main())
