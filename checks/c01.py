"""C01 - values written to cells are read back exactly after save and reopen.

Two layers, both complete enumerations of explicitly bounded spaces (DESIGN.md section 3, C01).

(a) record layer: the real Cell._from_value -> Cell._to_buffer -> Cell._from_storage with a stub
    model (string table + empty merge map), over complete sub-ranges: every int |n| <= N, every
    d*10^k +- {0,1}, every 2-decimal price, every 3-digit mantissa x every decimal exponent (both
    signs), one 15-digit float per (exponent, leading digit, trailing digit, sign) class, extremes,
    every whole second of a day x a year alphabet, a microsecond grid over every year 1900..2100,
    every whole-day duration within +-100 years, every whole second of a day as a duration.
(b) document layer: table shapes x positions (corners, 255/256 boundaries, growth by one, growth
    across a tile boundary, growth to column 999 on <= 2-row tables) x a value alphabet, written
    with the real Table.write, saved with Document.save, reopened with Document(path). Values are
    packed many per document by a rotation, so that over the |alphabet| documents of one
    (shape, scenario) every position receives every value; every shape is also saved at exactly
    the size it was created with. An "exact" family saves tables that have exactly 256*k rows (or
    columns) at save time - created so, grown to it by a write to the last row (by one, or from a
    4-row table across the tile boundaries), kept at / grown to / shrunk to it in a second cycle on
    the reopened document - with values in the first row, on both sides of every tile boundary and
    in the last row (a last tile that is exactly full is a boundary case of the tile loop of
    recalculate_table_data). A further family writes every ordered
    pair of values into one table (shared strings, overwrite with a different type, second
    save cycle on the reopened document), and the same pairs in a 'pair-same' family in which ONE
    open Document is edited and saved three times (second cycle of writes after the first save, third
    save without an edit), each saved file reopened and judged - state that survives a save (string
    table keys, memoised lookups) is part of the history there.

Oracle (nothing beyond the statement): the cell class is the one for the written Python type,
`cell.value == written` (Python ==), for floats also repr equality; table dimensions are exactly
max(old, pos + 1); every cell never written is still an EmptyCell.

VERIF_SEED only rotates representatives (middle digits of the 15-digit floats, the calendar day
used for the whole-second grid in the quick tier); every grid is complete for every seed.
"""
from __future__ import annotations

import hashlib
import math
import os
import sys
import time
from datetime import datetime, timedelta

from mc.evidence import Part, Run, parse_args, run_replay
from mc.pool import Scratch, pmap, shards

from numbers_parser import Document
from numbers_parser.cell import (
    BoolCell,
    Cell,
    DateCell,
    DurationCell,
    EmptyCell,
    NumberCell,
    TextCell,
)

PID = "C01"
EXPECT = {str: TextCell, bool: BoolCell, int: NumberCell, float: NumberCell, datetime: DateCell, timedelta: DurationCell}

# ------------------------------------------------------------------------------------------
# value codec: small JSON descriptors <-> Python values (replay payloads)
# ------------------------------------------------------------------------------------------


def enc(v):
    t = type(v)
    if t is str:
        if len(v) > 200 and v == v[0] * len(v):
            return ["srep", v[0], len(v)]
        return ["s", v]
    if t is bool:
        return ["b", v]
    if t is int:
        return ["i", v]
    if t is float:
        return ["f", repr(v)]
    if t is datetime:
        return ["dt", v.year, v.month, v.day, v.hour, v.minute, v.second, v.microsecond]
    if t is timedelta:
        return ["td", v.days, v.seconds, v.microseconds]
    raise TypeError(t)


def dec(d):
    k = d[0]
    if k == "s":
        return d[1]
    if k == "srep":
        return d[1] * d[2]
    if k == "b":
        return bool(d[1])
    if k == "i":
        return int(d[1])
    if k == "f":
        return float(d[1])
    if k == "dt":
        return datetime(*d[1:])
    if k == "td":
        return timedelta(days=d[1], seconds=d[2], microseconds=d[3])
    raise ValueError(d)


# ------------------------------------------------------------------------------------------
# oracle
# ------------------------------------------------------------------------------------------


def same(v, got):
    """The statement's equality: Python ==, plus repr equality for floats (one-ulp drift, -0.0)."""
    try:
        if not (got == v):
            return False
        if type(v) is float:
            return repr(float(got)) == repr(v)
        return True
    except Exception:  # noqa: BLE001
        return False


def pattern(v, got, others=()):
    """Coarse description of a wrong value, part of the failure identity."""
    try:
        if got is None:
            return "none"
        tv = type(v)
        if tv in (int, float) and isinstance(got, (int, float)) and not isinstance(got, bool):
            if got == v:
                return "zero-sign" if v == 0 else "equal-but-repr-differs"
            if got == -v:
                return "sign"
            rel = abs(got - v) / max(abs(v), 1e-300)
            if rel < 1e-12:
                return "drift<1e-12"
            if rel < 1e-6:
                return "drift<1e-6"
            return "far"
        if tv is datetime and isinstance(got, datetime):
            if got.tzinfo is not None:
                return "aware"
            return "sub-second" if abs(got - v) < timedelta(seconds=1) else "whole-seconds"
        if tv is timedelta and isinstance(got, timedelta):
            return "sub-second" if abs(got - v) < timedelta(seconds=1) else "whole-seconds"
        if tv is str and isinstance(got, str):
            if got == "":
                return "empty"
            if any(type(o) is str and o == got for o in others):
                return "other-text-of-document"
            if v.startswith(got):
                return "truncated"
            return "other-text"
        if tv is bool and isinstance(got, bool):
            return "inverted"
        return "foreign-type:" + type(got).__name__
    except Exception as e:  # noqa: BLE001
        return "uncomparable:" + type(e).__name__


def short(v):
    r = repr(v)
    return r if len(r) <= 70 else r[:50] + f"...<{len(r)} chars>"


# ------------------------------------------------------------------------------------------
# (a) record layer
# ------------------------------------------------------------------------------------------


class StubModel:
    """What _to_buffer / _from_storage need from a model for plain value cells: the string table
    of one table and an (empty) merge map."""

    def __init__(self):
        self.by_value = {}
        self.by_key = {}

    def table_string_key(self, _table_id, value):
        key = self.by_value.get(value)
        if key is None:
            key = len(self.by_value) + 1
            self.by_value[value] = key
            self.by_key[key] = value
        return key

    def table_string(self, _table_id, key):
        return self.by_key[key]

    def merge_cells(self, _table_id):
        return {}


STUB = StubModel()


def eval_record(v):
    """One record-layer case. Returns () when the value survives, else [(ident, detail), ...]."""
    tv = type(v)
    exp = EXPECT[tv]
    try:
        c = Cell._from_value(0, 0, v)
        c._model = STUB
        c._table_id = 1
        c2 = Cell._from_storage(1, 0, 0, c._to_buffer(), STUB)
        g1 = c.value
        g2 = c2.value
        if type(c) is exp and type(c2) is exp and g1 == v and g2 == v:
            if tv is not float or (repr(float(g1)) == repr(v) and repr(float(g2)) == repr(v)):
                return ()
    except Exception:  # noqa: BLE001, S110
        pass
    return _diagnose_record(v)


def _diagnose_record(v):
    out = []
    tn = type(v).__name__
    exp = EXPECT[type(v)]

    def ident(stage, kind, pat):
        return {"layer": "record", "stage": stage, "vtype": tn, "kind": kind, "pattern": pat}

    try:
        c = Cell._from_value(0, 0, v)
    except Exception as e:  # noqa: BLE001
        return [(ident("from_value", "exception", type(e).__name__), f"Cell._from_value({short(v)}) raised {type(e).__name__}: {e}")]
    if type(c) is not exp:
        out.append((ident("from_value", "class", type(c).__name__), f"Cell._from_value({short(v)}) is a {type(c).__name__}, expected {exp.__name__}"))
    elif not same(v, c.value):
        out.append((ident("from_value", "value", pattern(v, c.value)), f"Cell._from_value({short(v)}).value == {short(c.value)}"))
    try:
        c._model = STUB
        c._table_id = 1
        buf = c._to_buffer()
    except Exception as e:  # noqa: BLE001
        out.append((ident("to_buffer", "exception", type(e).__name__), f"_to_buffer of {short(v)} raised {type(e).__name__}: {e}"))
        return out
    try:
        c2 = Cell._from_storage(1, 0, 0, buf, STUB)
    except Exception as e:  # noqa: BLE001
        out.append((ident("from_storage", "exception", type(e).__name__), f"_from_storage of the record of {short(v)} raised {type(e).__name__}: {e} (record {bytes(buf).hex()})"))
        return out
    if type(c2) is not exp:
        out.append((ident("storage", "class", type(c2).__name__), f"{short(v)} stored and decoded is a {type(c2).__name__}, expected {exp.__name__} (record {bytes(buf).hex()})"))
    elif not same(v, c2.value):
        out.append((ident("storage", "value", pattern(v, c2.value)), f"{short(v)} stored and decoded reads {short(c2.value)} (record {bytes(buf).hex()})"))
    return out


def _mid13(seed, *cls):
    h = hashlib.sha256(("c01:" + ":".join(str(x) for x in (seed, *cls))).encode()).hexdigest()
    return int(h, 16) % 10**13


def rep15(seed, e, lead, last, neg):
    """The seed-chosen representative of the class of 15-significant-digit floats with decimal
    exponent e, leading digit `lead`, (non-zero) trailing digit `last` and the given sign."""
    return float(f"{'-' if neg else ''}{lead}.{_mid13(seed, e, lead, last, neg):013d}{last}e{e}")


YEARS = [1, 1582, 1899, 1900, 1970, 2000, 2001, 2038, 2100, 9999]
DAYS = [(1, 1), (2, 28), (3, 1), (6, 30), (12, 31)]
US_CLASSES = [0, 1, 499_999, 500_000, 999_999]
US_TIMES = [(0, 0, 0), (0, 0, 1), (11, 59, 59), (12, 0, 0), (12, 30, 30), (23, 59, 59)]
US_DAYS = [(1, 1), (1, 31), (2, 28), (3, 1), (6, 30), (7, 1), (10, 15), (12, 31)]
US_FULL_SECONDS = [datetime(1900, 1, 1, 0, 0, 0), datetime(2001, 1, 1, 0, 0, 0), datetime(2100, 12, 31, 23, 59, 59)]
TD_MAX_DAYS = 36524
RECORD_TEXTS = ["", "a", "line1\nline2", "\U0001F600 astral \U0001F9EA", "nul\x00in", "x" * 10000, "tab\tcr\rlf\n", " lead/trail ", "12", "True"]
EXTREMES = [999_999_999_999_999.0, -999_999_999_999_999.0, 1e-290, -1e-290, 1e290, -1e290, 0.0, -0.0,
            9.99999999999999e289, 1.00000000000001e-290, 0.1, 0.12, 846400000000.0, 123456789.012345, 0.000123456789012345]


def rec_bounds(tier):
    if tier == "thorough":
        return dict(int_max=1_000_000, price_max=9_999_999, neg_price_max=999_999, exp_step=1, days=DAYS, td_day_step=1, us_full=True)
    return dict(int_max=100_000, price_max=999_999, neg_price_max=99_999, exp_step=7, days=None, td_day_step=7, us_full=False)


def rec_group_size(group, tier, seed):
    b = rec_bounds(tier)
    if group == "int":
        return 2 * b["int_max"] + 1
    if group == "edge":
        return 9 * 15
    if group == "price":
        return b["price_max"] + 1
    if group == "negprice":
        return b["neg_price_max"]
    if group == "mant":
        return 900
    if group == "rep15":
        return 580  # exponents -290..289
    if group == "small":
        return 1
    if group == "date":
        return 86400
    if group == "dateus":
        return 201
    if group == "dateusfull":
        return 1_000_000 if b["us_full"] else 0
    if group == "tdday":
        return TD_MAX_DAYS + 1
    if group == "tdsec":
        return 86400
    raise KeyError(group)


def _in_int_group(n, b):
    return abs(n) <= b["int_max"]


def _in_price_groups(x, b):
    """True when float x is a member of the price / negprice group."""
    if abs(x) > 1e7 or x != x or (x == 0 and math.copysign(1, x) < 0):
        return False
    i = round(x * 100)
    if i / 100 != x:
        return False
    return (0 <= i <= b["price_max"]) or (-b["neg_price_max"] <= i < 0)


def _in_mant_group(x, b):
    """True when float x is a member of the 3-digit-mantissa x exponent group."""
    if x == 0 or not (1e-290 <= abs(x) <= 1e290):
        return False
    m, e = f"{x:.2e}".split("e")
    return float(f"{m}e{e}") == x and (int(e) + 290) % b["exp_step"] == 0


def _date_days(b, seed):
    return b["days"] or [DAYS[seed % len(DAYS)]]


TDDAY_TIMES = ((0, 0), (0, 1), (86399, 0), (86399, 999_999), (43200, 500_000))


def _in_td_groups(td, b):
    a = abs(td)
    if a.days > TD_MAX_DAYS:
        return False
    if (a.days % b["td_day_step"] == 0 or a.days == TD_MAX_DAYS) and (a.seconds, a.microseconds) in TDDAY_TIMES:
        return True
    return a.days in (0, TD_MAX_DAYS) and a.microseconds in (0, 999_999)


def gen_record(group, lo, hi, tier, seed):
    """Yield (value, counts_as_distinct) for the index range [lo, hi) of a record-layer group.
    A value that belongs to several groups counts as distinct only in the first of them
    (order of RECORD_GROUPS)."""
    b = rec_bounds(tier)
    if group == "int":
        n = b["int_max"]
        for i in range(lo, hi):
            yield i - n, True
    elif group == "price":
        for i in range(lo, hi):
            yield i / 100, True  # correctly rounded quotient == the float literal "<i//100>.<i%100>"
    elif group == "negprice":
        for i in range(lo, hi):
            yield -(i + 1) / 100, True
    elif group == "mant":
        # every 3-significant-digit mantissa x every decimal exponent, both signs, within [1e-290, 1e290]
        exps = range(-290, 291, b["exp_step"])
        for i in range(lo, hi):
            m = 100 + i
            for e in exps:
                for sg in ("", "-"):
                    x = float(f"{sg}{m // 100}.{m % 100:02d}e{e}")
                    if 1e-290 <= abs(x) <= 1e290:
                        yield x, not _in_price_groups(x, b)
    elif group == "rep15":
        for i in range(lo, hi):
            e = -290 + i
            for lead in range(1, 10):
                for last in range(1, 10):
                    for neg in (False, True):
                        yield rep15(seed, e, lead, last, neg), True
    elif group == "date":
        days = _date_days(b, seed)
        for s in range(lo, hi):
            hh, rem = divmod(s, 3600)
            mm, ss = divmod(rem, 60)
            for y in YEARS:
                for mo, dd in days:
                    yield datetime(y, mo, dd, hh, mm, ss), True
    elif group == "dateus":
        days = _date_days(b, seed)
        for i in range(lo, hi):
            y = 1900 + i
            for mo, dd in US_DAYS:
                for hh, mm, ss in US_TIMES:
                    for us in US_CLASSES:
                        yield datetime(y, mo, dd, hh, mm, ss, us), not (us == 0 and y in YEARS and (mo, dd) in days)
    elif group == "dateusfull":
        for us in range(lo, hi):
            for base in US_FULL_SECONDS:
                yield base.replace(microsecond=us), us not in US_CLASSES
    elif group == "tdday":
        step = b["td_day_step"]
        for d in range(lo, hi):
            if d % step and d != TD_MAX_DAYS:
                continue
            for secs, us in TDDAY_TIMES:
                td = timedelta(days=d, seconds=secs, microseconds=us)
                yield td, True
                if td:
                    yield -td, True
    elif group == "tdsec":
        for s in range(lo, hi):
            for d in (0, TD_MAX_DAYS):
                for us in (0, 999_999):
                    td = timedelta(days=d, seconds=s, microseconds=us)
                    new = (s, us) not in TDDAY_TIMES
                    yield td, new
                    if td:
                        yield -td, new
    elif group in ("edge", "small"):
        seen = set()

        def once(v):
            key = (type(v).__name__, repr(v))
            if key in seen:
                return False
            seen.add(key)
            if type(v) is int:
                return not _in_int_group(v, b)
            if type(v) is float:
                return not (_in_price_groups(v, b) or _in_mant_group(v, b))
            if type(v) is timedelta:
                return not _in_td_groups(v, b)
            return True

        if group == "edge":
            # d * 10^k + {-1, 0, 1}, both signs, as int and (at most 15 digits) as float
            for i in range(lo, hi):
                d, k = i // 15 + 1, i % 15
                for off in (-1, 0, 1):
                    for sg in (1, -1):
                        n = sg * (d * 10**k + off)
                        yield n, once(n)
                        yield float(n), once(float(n))
        else:
            for x in EXTREMES:
                yield x, once(x)
            for s in RECORD_TEXTS:
                yield s, once(s)
            yield True, True
            yield False, True
            # duration grid of the design {0, +-1us, +-1ms, +-1s, +-1d, +-(36524d 23:59:59.999999)} and neighbours
            for days in (0, 1, 365, TD_MAX_DAYS):
                for secs in (0, 1, 59, 60, 3599, 3600, 86399):
                    for us in (0, 1, 999, 1000, 499_999, 500_000, 999_999):
                        td = timedelta(days=days, seconds=secs, microseconds=us)
                        yield td, once(td)
                        if td:
                            yield -td, once(-td)
    else:
        raise KeyError(group)


RECORD_GROUPS = ["int", "price", "negprice", "mant", "rep15", "date", "dateus", "dateusfull", "tdday", "tdsec", "edge", "small"]


def work_record(task):
    group, lo, hi, tier, seed = task
    part = Part()
    n = 0
    distinct = 0
    first = None
    by_type = {}
    for v, is_new in gen_record(group, lo, hi, tier, seed):
        n += 1
        distinct += bool(is_new)
        if first is None:
            first = v
        res = eval_record(v)
        tn = type(v).__name__
        by_type[tn] = by_type.get(tn, 0) + 1
        for ident, detail in res:
            part.fail(ident, detail, ["rec", enc(v)])
    part.count("evaluations", n)
    part.count("record_round_trips", n)
    part.count("record_distinct_values", distinct)
    part.count(f"record_{group}", n)
    for tn, k in by_type.items():
        part.outcome(f"record:{tn}", k)
    if first is not None and lo == 0:
        part.sample({"layer": "record", "group": group, "first_value_of_group": enc(first)})
    return part.dump()


# ------------------------------------------------------------------------------------------
# (b) document layer
# ------------------------------------------------------------------------------------------


def doc_alphabet(seed):
    """Value alphabet of the document layer: (name, value), one representative per class."""
    f15_mid = rep15(seed, 8, 1 + seed % 9, 1 + (seed // 9) % 9, False)
    f15_small = rep15(seed, -4, 1 + (seed + 4) % 9, 1 + (seed // 7) % 9, True)
    vals = [
        ("text-empty", ""), ("text-a", "a"), ("text-multiline", "line1\nline2"), ("text-astral", "\U0001F600 astral \U0001F9EA"),
        ("text-nul", "nul\x00in"), ("text-10000", "x" * 10000), ("text-control", "tab\tcr\rlf\n"), ("text-spaces", " lead/trail "),
        ("text-numberlike", "12"), ("text-boollike", "True"),
        ("bool-true", True), ("bool-false", False),
        ("int-0", 0), ("int-1", 1), ("int--1", -1), ("int-12", 12), ("int-50", 50), ("int-52", 52), ("int-2^31", 2**31),
        ("int-max", 10**15 - 1), ("int-min", -(10**15 - 1)),
        ("float-0", 0.0), ("float--0", -0.0), ("float-0.1", 0.1), ("float-0.12", 0.12), ("float-8464e8", 846400000000.0),
        ("float--2.5", -2.5), ("float-1e-290", 1e-290), ("float-1e290", 1e290), ("float--1e290", -1e290),
        ("float-15digits-mid", f15_mid), ("float-15digits-small", f15_small), ("float-15x9", 999_999_999_999_999.0),
        ("date-min", datetime(1, 1, 1, 0, 0, 0)), ("date-min+1s", datetime(1, 1, 1, 0, 0, 1)), ("date-1582", datetime(1582, 10, 15, 12, 0, 0)),
        ("date-1899", datetime(1899, 12, 31, 23, 59, 59)), ("date-1900+1us", datetime(1900, 1, 1, 0, 0, 0, 1)), ("date-1970", datetime(1970, 1, 1)),
        ("date-2000-leap-us", datetime(2000, 2, 29, 23, 59, 59, 999_999)), ("date-epoch", datetime(2001, 1, 1)),
        ("date-epoch+.5s", datetime(2001, 1, 1, 0, 0, 0, 500_000)), ("date-2038", datetime(2038, 1, 19, 3, 14, 8)),
        ("date-2100-us", datetime(2100, 12, 31, 23, 59, 59, 999_999)), ("date-max", datetime(9999, 12, 31, 23, 59, 59)),
        ("dur-0", timedelta(0)), ("dur-1us", timedelta(microseconds=1)), ("dur--1us", timedelta(microseconds=-1)), ("dur-1ms", timedelta(milliseconds=1)),
        ("dur-1s", timedelta(seconds=1)), ("dur-1d", timedelta(days=1)),
        ("dur-max", timedelta(days=36524, hours=23, minutes=59, seconds=59, microseconds=999_999)),
        ("dur-min", -timedelta(days=36524, hours=23, minutes=59, seconds=59, microseconds=999_999)),
        ("dur-mixed", timedelta(days=3, seconds=7, microseconds=123_456)),
    ]
    assert len({n for n, _ in vals}) == len(vals)
    return vals


PAIR_QUICK = ["text-empty", "text-a", "text-multiline", "text-astral", "text-nul", "text-10000", "text-numberlike", "bool-true", "bool-false",
              "int-0", "int-12", "int-max", "float--0", "float-0.12", "float-15digits-mid", "date-min", "date-2000-leap-us", "date-max",
              "dur--1us", "dur-max", "dur-mixed"]

SHAPES_QUICK = [(1, 1), (2, 2), (12, 8), (255, 2), (256, 2), (257, 2), (2, 256), (2, 257), (3, 300)]
SHAPES_THOROUGH = [(1, 1), (2, 2), (12, 8), (255, 2), (256, 2), (257, 2), (513, 3), (2, 256), (2, 257), (3, 300)]


def inbound_positions(R, C):
    pos = [(0, 0), (R - 1, 0), (0, C - 1), (R - 1, C - 1)]
    if R >= 5 and C >= 5:
        pos.append((R // 2, C // 2))
    for r in (254, 255, 256, 511, 512):
        if r < R - 1:
            pos.append((r, C - 1 if r % 2 else 0))
    for c in (254, 255, 256):
        if c < C - 1:
            pos.append((R - 1 if c % 2 else 0, c))
    out = []
    for p in pos:
        if p not in out:
            out.append(p)
    return out


def growth_scenarios(R, C, tier):
    """Named growth scenarios: each a list of writes outside the current bounds, applied in order
    after the in-bounds writes ("none": the table is saved at exactly the size it was created with). Column growth is quadratic in the implementation (add_column
    renumbers the whole table per call), so wide growth is used on tables of <= 3 rows only and
    column 999 on tables of <= 2 rows only."""
    sc = [("none", []), ("plus1", [(R, 0), (0, C), (R + 1, C + 1)])]
    if C <= 8:
        nxt = (R // 256 + 1) * 256  # first row of the next tile
        far = [(nxt, C - 1)] if nxt > R else [(nxt + 1, C - 1)]
        if R <= 12:
            far.append((600, 0))  # a second growth in the same document, across the 512 boundary
        sc.append(("row-tile", far))
    if R <= 3:
        if C < 256:
            sc.append(("col-tile", [(R - 1, 256)]))
        elif C == 256:
            sc.append(("col-tile", [(R - 1, 258)]))
        else:
            sc.append(("col-tile", [(0, 520)]))  # two more blocks of 256 columns
    if tier == "thorough":
        if R <= 2:
            sc.append(("col-999", [(R - 1, 999)]))
        if (R, C) == (1, 1):
            sc.append(("row-65536", [(65536, 0)]))  # 257 tiles, row index beyond 16 bits
    return sc


def exact_rows(H):
    """Cells of a table of H = 256*k rows: first row, both sides of every tile boundary, both cells of the last row."""
    rows = sorted({0, H - 2, H - 1} | {r for b in range(256, H, 256) for r in (b - 1, b)})
    pos = [(r, r % 2) for r in rows if r != H - 1]
    return pos + [(H - 1, 0), (H - 1, 1)]


def exact_scenarios(tier):
    """(name, initial shape, cycles) of the 'exact' family: the table has exactly H = 256*k rows (or exactly
    256*k columns) when it is saved, because it was created so, grown to it by a write to its last row from
    a table one row smaller or from a small table (across the tile boundaries), kept at it through a second
    write/save cycle on the reopened document, grown to it in the second cycle, or shrunk to it."""
    out = []
    for H in ((256, 512, 768) if tier == "thorough" else (256, 512)):
        pos = exact_rows(H)
        last = [(H - 1, 1)]
        rest = [p for p in pos if p not in last and p != (0, 0)]
        out.append((f"rows{H}-created", (H, 2), [pos]))
        out.append((f"rows{H}-grown-by-one", (H - 1, 2), [[(0, 0)] + last + rest]))
        out.append((f"rows{H}-grown-from-4", (4, 2), [[(0, 0)] + last + rest]))
        out.append((f"rows{H}-kept-in-second-cycle", (H, 2), [pos[: len(pos) // 2], pos[len(pos) // 2:] + [(0, 0)]]))
        out.append((f"rows{H}-grown-in-second-cycle", (H - 1, 2), [[(0, 0), (H - 2, 0)], last + [p for p in rest if p != (H - 2, 0)]]))
        out.append((f"rows{H}-shrunk-in-second-cycle", (H + 1, 2), [[p for p in pos if p[0] < H - 1], [("delete_last_rows", 1)] + [p for p in pos if p[0] == H - 1]]))
    for W in ((256, 512) if tier == "thorough" else (256,)):
        cpos = [(c % 2, c) for c in sorted({0, W - 2} | {x for b in range(256, W, 256) for x in (b - 1, b)})] + [(0, W - 1), (1, W - 1)]
        clast = [(1, W - 1)]
        crest = [p for p in cpos if p not in clast and p != (0, 0)]
        out.append((f"cols{W}-grown-by-one", (2, W - 1), [[(0, 0)] + clast + crest]))
        out.append((f"cols{W}-grown-from-2", (2, 2), [[(0, 0)] + clast + crest]))
        out.append((f"cols{W}-kept-in-second-cycle", (2, W), [cpos[: len(cpos) // 2], cpos[len(cpos) // 2:]]))
    return out


def _stride(n):
    for s in (7, 11, 13, 17, 19, 23):
        if math.gcd(s, n) == 1:
            return s
    return 1


def doc_plans(tier, seed):
    """All document plans (small JSON dicts) of the tier, and the set of distinct
    (family, shape, scenario-or-slot, position, value-name) transitions they contain."""
    alpha = doc_alphabet(seed)
    names = [n for n, _ in alpha]
    encv = {n: enc(v) for n, v in alpha}
    nv = len(alpha)
    stride = _stride(nv)
    plans = []
    triples = set()
    for R, C in (SHAPES_THOROUGH if tier == "thorough" else SHAPES_QUICK):
        inb = inbound_positions(R, C)
        headers = [1, 1] if (R, C) == (12, 8) else [0, 0]
        for sname, growth in growth_scenarios(R, C, tier):
            positions = inb + growth
            assert len(positions) <= nv
            for k in range(nv):
                writes = []
                for i, (r, c) in enumerate(positions):
                    name = names[(k + i * stride) % nv]
                    writes.append([r, c, encv[name], name])
                    triples.add(("shape", R, C, sname if (r, c) in growth else "in-bounds", r, c, name))
                plans.append({"family": "shape", "shape": [R, C], "headers": headers, "scenario": sname, "rotation": k, "cycles": [writes]})
    # tables that have exactly 256*k rows (or 256 columns) at save time, reached in several ways
    for scen, shape, cycles in exact_scenarios(tier):
        npos = sum(1 for cyc in cycles for w in cyc if w[0] != "delete_last_rows")
        assert npos <= nv
        for k in range(nv):
            out_cycles = []
            i = 0
            for cyc in cycles:
                oc = []
                for w in cyc:
                    if w[0] == "delete_last_rows":
                        oc.append(list(w))
                        continue
                    name = names[(k + i * stride) % nv]
                    i += 1
                    oc.append([w[0], w[1], encv[name], name])
                    triples.add(("exact", scen, w[0], w[1], name))
                out_cycles.append(oc)
            plans.append({"family": "exact", "shape": list(shape), "headers": [0, 0], "scenario": scen, "rotation": k, "cycles": out_cycles})
    # every ordered pair of values in one 3x3 table with one header row and column
    pair_names = names if tier == "thorough" else PAIR_QUICK
    for a in pair_names:
        for b in pair_names:
            c1 = [[0, 0, encv[a], a], [0, 1, encv[b], b], [1, 0, encv[b], b], [1, 1, encv[a], a], [1, 1, encv[b], b], [2, 2, encv[a], a]]
            c2 = [[0, 0, encv[b], b], [3, 3, encv[a], a], [2, 1, encv[b], b]]
            plans.append({"family": "pair", "shape": [3, 3], "headers": [1, 1], "scenario": "pair", "pair": [a, b], "cycles": [c1, c2]})
            triples.add(("pair", a, b))
            # the same pair with both saves made from one open Document (state kept across saves: string
            # table keys, memoised lookups), then a third save without any edit in between
            plans.append({"family": "pair-same", "shape": [3, 3], "headers": [1, 1], "scenario": "pair-same", "pair": [a, b],
                          "same_object": True, "cycles": [c1, c2, []]})
            triples.add(("pair-same", a, b))
    return plans, triples


def _zone(r, c):
    if c >= 256:
        return "col>=256"
    if r >= 256:
        return "row>=256"
    return "tile0"


def eval_doc(plan):
    """One document-layer case: apply the plan's cycles of writes to a real Document, save and
    reopen after each cycle, compare with a dict. Returns [(ident, detail), ...]."""
    out = []
    fam = plan.get("family", "shape")
    R, C = plan["shape"]
    hr, hc = plan.get("headers", [0, 0])

    def ident(kind, pat, vtype="-", where="-", zone="-"):
        return {"layer": "document", "family": fam, "kind": kind, "pattern": pat, "vtype": vtype, "where": where, "zone": zone}

    tag = f"{fam} {R}x{C} {plan.get('scenario', '')}"
    try:
        doc = Document(num_rows=R, num_cols=C, num_header_rows=hr, num_header_cols=hc)
        t = doc.sheets[0].tables[0]
    except Exception as e:  # noqa: BLE001
        return [(ident("exception-new", type(e).__name__), f"{tag}: Document(num_rows={R}, num_cols={C}) raised {type(e).__name__}: {e}")]
    if (t.num_rows, t.num_cols) != (R, C):
        return [(ident("dims-new", "wrong"), f"{tag}: new table is {t.num_rows}x{t.num_cols}")]
    ref = {}  # (r, c) -> (value, where)
    dims = [R, C]
    path = Scratch.path(f"c01-{os.getpid()}.numbers")
    for ci, writes in enumerate(plan["cycles"]):
        for w in writes:
            if w[0] == "delete_last_rows":
                # not a value transition: brings the table to the wanted height; no written cell may be in those rows
                n = w[1]
                assert not any(r >= dims[0] - n for r, _ in ref), "plan deletes a written row"
                try:
                    t.delete_row(num_rows=n)
                except Exception as e:  # noqa: BLE001
                    out.append((ident("exception-delete-row", type(e).__name__), f"{tag}: delete_row({n}) on a {t.num_rows}-row table raised {type(e).__name__}: {e}"))
                    return out
                dims[0] -= n
                if t.num_rows != dims[0]:
                    out.append((ident("dims-live", "rows", "-", "shrink", "-"), f"{tag}: after delete_row({n}) the table has {t.num_rows} rows, expected {dims[0]}"))
                continue
            r, c, v = w[0], w[1], dec(w[2])
            old = (t.num_rows, t.num_cols)
            where = ("growth-both" if c >= old[1] else "growth-rows") if r >= old[0] else ("growth-cols" if c >= old[1] else "in-bounds")
            if ci:
                where = ("sameobject:" if plan.get("same_object") else "reopened:") + where
            try:
                t.write(r, c, v)
            except Exception as e:  # noqa: BLE001
                out.append((ident("exception-write", type(e).__name__, type(v).__name__ if eval_record(v) else "any", where, _zone(r, c)),
                            f"{tag}: write({r}, {c}, {short(v)}) on a {old[0]}x{old[1]} table raised {type(e).__name__}: {e}"))
                continue
            want = (max(old[0], r + 1), max(old[1], c + 1))
            if (t.num_rows, t.num_cols) != want:
                out.append((ident("dims-live", "rows" if t.num_rows != want[0] else "cols", "-", where, _zone(r, c)),
                            f"{tag}: after write({r}, {c}, ...) on a {old[0]}x{old[1]} table the table is {t.num_rows}x{t.num_cols}, expected {want[0]}x{want[1]}"))
            dims = [max(dims[0], r + 1), max(dims[1], c + 1)]
            ref[(r, c)] = (v, where)
        try:
            os.makedirs(os.path.dirname(path), exist_ok=True)  # the scratch directory may be swept by a concurrent cleanup
            doc.save(path)
        except Exception as e:  # noqa: BLE001
            out.append((ident("exception-save", type(e).__name__), f"{tag}: save (cycle {ci}) raised {type(e).__name__}: {e}"))
            return out
        wdoc, wt = doc, t
        try:
            doc = Document(path)
            t = doc.sheets[0].tables[0]
        except Exception as e:  # noqa: BLE001
            out.append((ident("exception-open", type(e).__name__), f"{tag}: reopening the saved file (cycle {ci}) raised {type(e).__name__}: {e}"))
            return out
        finally:
            try:
                os.unlink(path)
            except OSError:
                pass
        if (t.num_rows, t.num_cols) != tuple(dims):
            out.append((ident("dims-file", "rows" if t.num_rows != dims[0] else "cols"),
                        f"{tag}: reopened table (cycle {ci}) is {t.num_rows}x{t.num_cols}, expected {dims[0]}x{dims[1]}"))
        others = [v for v, _ in ref.values()]
        for (r, c), (v, where) in ref.items():
            tn = type(v).__name__
            try:
                cell = t.cell(r, c)
                got = cell.value
            except Exception as e:  # noqa: BLE001
                out.append((ident("exception-read", type(e).__name__, "any", where, _zone(r, c)), f"{tag}: cell({r}, {c}) of the reopened table raised {type(e).__name__}: {e}"))
                continue
            if type(cell) is EXPECT[type(v)] and same(v, got):
                continue
            # A value that does not survive the record layer either fails because of its encoding, wherever it is
            # written: position, growth and family are then left out of the identity. Otherwise the position is
            # what matters and the value type is left out.
            codec = bool(eval_record(v))
            if type(cell) is not EXPECT[type(v)]:
                kind = "class"
                pat = type(cell).__name__ if codec or type(cell) is EmptyCell else "cell-of-another-type"
                detail = f"{tag}: wrote {short(v)} at ({r}, {c}); reopened cell is a {type(cell).__name__} with value {short(got)}, expected {EXPECT[type(v)].__name__}"
            else:
                kind = "value"
                if codec:
                    pat = pattern(v, got, others)
                else:
                    pat = "another-value-of-the-document" if any(type(o) is type(got) and same(o, got) for o in others) else "foreign-value"
                detail = f"{tag}: wrote {short(v)} at ({r}, {c}); after save and reopen (cycle {ci}) the cell reads {short(got)}"
            if codec:
                idn = ident(kind, pat, tn, "any", "any")
                idn["family"] = "any"
                idn["cause"] = "record-codec"
            else:
                idn = ident(kind, pat, tn if kind == "value" else "any", where, _zone(r, c))
            out.append((idn, detail))
        bad = []
        try:
            for r in range(t.num_rows):
                for c in range(t.num_cols):
                    if (r, c) not in ref:
                        cell = t.cell(r, c)
                        if type(cell) is not EmptyCell or cell.value is not None:
                            bad.append((r, c, type(cell).__name__, short(cell.value)))
        except Exception as e:  # noqa: BLE001
            out.append((ident("exception-scan", type(e).__name__), f"{tag}: reading the unwritten cells raised {type(e).__name__}: {e}"))
        if bad:
            out.append((ident("untouched-not-empty", "-"), f"{tag}: {len(bad)} cells never written are not empty after reopen (cycle {ci}), first {bad[0]}"))
        if plan.get("same_object"):
            # the next cycle edits and saves the SAME open Document again (the file just verified was a snapshot)
            doc, t = wdoc, wt
    return out


def work_docs(task):
    plans = task
    part = Part()
    for plan in plans:
        res = eval_doc(plan)
        ncells = sum(1 for c in plan["cycles"] for w in c if w[0] != "delete_last_rows")
        part.count("evaluations", ncells)
        part.count("document_cells_written_and_compared", ncells)
        part.count("documents_saved_and_reopened", len(plan["cycles"]))
        part.count(f"documents_{plan['family']}", 1)
        grow = 0
        R, C = plan["shape"]
        dims = [R, C]
        for cyc in plan["cycles"]:
            for w in cyc:
                if w[0] == "delete_last_rows":
                    dims[0] -= w[1]
                    continue
                part.outcome("document:" + w[2][0], 1)
                if w[0] >= dims[0] or w[1] >= dims[1]:
                    grow += 1
                    if w[0] // 256 > (dims[0] - 1) // 256 or w[1] // 256 > (dims[1] - 1) // 256:
                        part.count("growth_writes_across_a_tile_boundary", 1)
                dims = [max(dims[0], w[0] + 1), max(dims[1], w[1] + 1)]
        part.count("growth_writes", grow)
        if dims[0] % 256 == 0:
            part.count("documents_saved_with_a_multiple_of_256_rows", 1)
        if dims[1] % 256 == 0:
            part.count("documents_saved_with_a_multiple_of_256_columns", 1)
        if dims[1] == 1000:
            part.count("documents_grown_to_column_999", 1)
        for ident, detail in res:
            part.fail(ident, detail, ["doc", _strip(plan)])
    return part.dump()


def _strip(plan):
    """Replay payload: the plan without the value names (descriptors are enough)."""
    p = {k: v for k, v in plan.items() if k != "cycles"}
    p["cycles"] = [[w[:3] for w in cyc] for cyc in plan["cycles"]]
    return p


def eval_case(case):
    if case[0] == "rec":
        return list(eval_record(dec(case[1])))
    if case[0] == "doc":
        return eval_doc(case[1])
    raise ValueError(case[0])


# ------------------------------------------------------------------------------------------


def plan_cost(plan):
    R, C = plan["shape"]
    for cyc in plan["cycles"]:
        for w in cyc:
            if w[0] != "delete_last_rows":
                R, C = max(R, w[0] + 1), max(C, w[1] + 1)
    return 1 + (R * C) / 800 + (C > 256) * 2 + len(plan["cycles"])


def main():
    args = parse_args()
    if args.replay:
        def rp(case, payload):
            res = eval_case(case)
            what = f"record-layer value {short(dec(case[1]))}" if case[0] == "rec" else f"document plan {case[1].get('family')} {case[1].get('shape')} {case[1].get('scenario')}"
            return bool(res), f"{what}: " + ("; ".join(d for _, d in res) or "every written value read back equal")
        return run_replay(args, rp)

    run = Run(PID, "exploration", args)
    tier, seed = args.tier, args.seed

    # (b) first: the document tasks are the long ones; balance them over the pool
    plans, triples = doc_plans(tier, seed)
    plans.sort(key=plan_cost, reverse=True)
    nbins = max(args.jobs * 6, 1)
    bins = [[] for _ in range(nbins)]
    loads = [0.0] * nbins
    for p in plans:
        i = loads.index(min(loads))
        bins[i].append(p)
        loads[i] += plan_cost(p)
    doc_tasks = [b for b in bins if b]

    rec_tasks = []
    for g in RECORD_GROUPS:
        n = rec_group_size(g, tier, seed)
        if not n:
            continue
        per = {"int": 50_000, "price": 25_000, "negprice": 25_000, "mant": 30 if tier == "thorough" else 150, "rep15": 20, "date": 3600 if tier == "thorough" else 7200,
               "dateus": 20, "dateusfull": 50_000, "tdday": 4000, "tdsec": 7200}.get(g, n)
        for lo, hi in shards(n, max(1, -(-n // per))):
            rec_tasks.append((g, lo, hi, tier, seed))

    # development aid: C01_LAYERS=document|record runs one layer only; the floors of the other layer
    # then fail, so such a run ends as a harness error (exit 2) and can never pass as "held"
    layers = os.environ.get("C01_LAYERS", "document,record").split(",")
    t0 = time.time()
    if "document" in layers:
        for res in pmap(work_docs, doc_tasks, args.jobs):
            run.merge(res)
    t1 = time.time()
    if "record" in layers:
        for res in pmap(work_record, rec_tasks, args.jobs):
            run.merge(res)
    run.extra["wall_document_layer_s"] = round(t1 - t0, 1)
    run.extra["wall_record_layer_s"] = round(time.time() - t1, 1)

    c = run.counters
    b = rec_bounds(tier)
    alpha = doc_alphabet(seed)
    run.sample({"layer": "document", "first_plan": _strip(min(plans, key=lambda p: (p["family"], p["shape"], p["scenario"], p.get("rotation", 0))))})
    run.floor("every int of the range visited", c["record_int"] == 2 * b["int_max"] + 1)
    run.floor("every 2-decimal price of the range visited", c["record_price"] == b["price_max"] + 1 and c["record_negprice"] == b["neg_price_max"])
    run.floor(">= 100,000 mantissa x exponent floats and one 15-digit float per class", c["record_mant"] >= 100_000 and c["record_rep15"] == 580 * 81 * 2)
    run.floor("every whole second of a day x every year of the alphabet", c["record_date"] == 86400 * len(YEARS) * len(b["days"] or [0]))
    run.floor("microsecond grid over every year 1900..2100", c["record_dateus"] == 201 * len(US_DAYS) * len(US_TIMES) * len(US_CLASSES))
    run.floor(">= 50,000 durations incl. both extremes", c["record_tdday"] + c["record_tdsec"] >= 50_000)
    run.floor("all six value types reach the record layer", sum(1 for k in run.outcomes if k.startswith("record:")) == 6)
    run.floor("all six value types written to documents", sum(1 for k in run.outcomes if k.startswith("document:")) >= 6)
    run.floor(">= 1000 growth writes, >= 100 of them across a tile boundary", c["growth_writes"] >= 1000 and c["growth_writes_across_a_tile_boundary"] >= 100)
    run.floor(">= 500 documents saved with exactly 256*k rows (created, grown, second cycle, shrunk) and >= 100 with exactly 256*k columns",
              c["documents_saved_with_a_multiple_of_256_rows"] >= 500 and c["documents_saved_with_a_multiple_of_256_columns"] >= 100)
    run.floor("every (shape, scenario, position, value) triple of the plan was executed", c["document_cells_written_and_compared"] >= len(triples) > 1000)
    if tier == "thorough":
        run.floor("growth to column 999 executed", c["documents_grown_to_column_999"] >= len(alpha))
    run.assume("floats outside the enumerated grids (about 10^15 fifteen-digit values), texts other than the representatives, rows beyond 65536, "
               "tz-aware datetimes, documents with several tables and cells carrying styles/formats are not enumerated")
    if tier != "thorough":
        run.assume("quick tier: ints to 10^5, prices to 9,999.99, decimal exponents in steps of 7, one calendar day (chosen by VERIF_SEED), durations every 7th day, "
                   "no 513x3 shape, no growth to column 999 / row 65536, pair family over a 21-value sub-alphabet")
    cov = {
        "distinct_nontrivial": c["record_distinct_values"] + len(triples),
        "rule": "record layer: values counted once per (Python type, value) - members of a group that also belong to another group (e.g. 1.23 as "
                "mantissa 1.23e0 and as a price) are not counted again; document layer: distinct (shape, growth scenario or in-bounds, position, value) "
                "transitions of the shape family plus distinct ordered value pairs of the pair family. Every one is non-trivial: a real value is "
                "encoded by the library, decoded by the library and compared with the value written",
        "document_distinct_transitions": len(triples),
        "document_value_alphabet": len(alpha),
        "documents": len(plans),
        "exhaustive": True,
    }
    return run.finish(cov)


if __name__ == "__main__":
    sys.exit(main())
