"""C15 - styles and borders applied through the API read back equal, now and after reload.

Two parts.

(1) STYLES - complete products (depth-1 spaces). Every value of every one of the 15 style
    attributes with the others at default, all pairs of attribute classes, every layout of 1..3 cells
    over 1..3 styles x how the style is applied (Style object, style name, write(style=object),
    write(style=name)), and a family built from the one shortcut visible in the code (the string
    fingerprint of update_cell_styles). Every case is built TWICE on real documents:
      A: apply, save, read the open document, reopen, read;
      B: apply, read cell.style and cell.border of EVERY cell, save, reopen, read.
    Oracle: every styled cell reports every attribute as given (open document and file), unstyled
    cells report what a pristine document reports, save does not raise, and what the library reads
    back from file B equals what it reads from file A (style, border, value of every cell) and both
    packages hold the same number of archives of every type ("merely reading never changes what is
    saved"). The same A/B comparison runs on fixtures.

(2) BORDERS - explicit-state exploration (mc.explore) of stroke histories on a real 3x3 table, plain
    and with one merged rectangle, against a unit-edge model: a stroke paints its unit edges, a
    cell side reports the latest paint of its edge (so both neighbours agree), edges interior to the
    rectangle report None; every distinct state of the probing plans is saved, reopened and compared,
    and "rs" events continue a history on the document as reloaded from its own file. Families: "redraw"
    (a, then b sharing a unit edge with a, then a again with a third border - complete over all such
    pairs, also with a save+reopen before the redraw) and "two-tables" (strokes on the same side and
    row/column index of two tables of one loaded document).
    Plans (border_plan): geometry "all" = any stroke at every step, "collinear" = later strokes lie on
    the first stroke's grid line (the only strokes that can share an edge or a stored layer with it);
    borders "all" = B1/B2/B3 at every step, "cycle"/"cycle3"/"one" = rotations that keep successive
    looks distinct (B3 is ONE Border object reused, so its order stamp is shared between strokes).

Known findings (known_findings.json): float32 style floats; cell-style fingerprint collision; a merge
anchor never reports its bottom/right border. Development aids: C15_ONLY=styles|borders, C15_PLAN=i,j
run a subset (the coverage floors then fail by design, exit 2 unless a violation is found).
"""
from __future__ import annotations

import collections
import itertools
import os
import struct
import sys
import warnings

from mc import explore, pkg
from mc.evidence import FIXTURES, Part, Run, parse_args, run_replay
from mc.pool import Scratch, pmap

from numbers_parser import Alignment, BackgroundImage, Border, Document, RGB
from numbers_parser import model as np_model

PID = "C15"
_n = [0]


def _tmp(tag="x"):
    _n[0] += 1
    return Scratch.path(f"c15-{tag}-{os.getpid()}-{_n[0]}.numbers")


def _rm(*paths):
    for p in paths:
        try:
            if p and os.path.exists(p):
                os.unlink(p)
        except OSError:
            pass


def f32(x):
    return struct.unpack("f", struct.pack("f", x))[0]


# =============================================================================================
# Part 1: styles
# =============================================================================================

ATTRS = ["alignment", "bg_image", "bg_color", "font_color", "font_size", "font_name", "bold", "italic", "strikethrough",
         "underline", "first_indent", "left_indent", "right_indent", "text_inset", "text_wrap"]
FLOAT_ATTRS = {"font_size", "first_indent", "left_indent", "right_indent", "text_inset"}
CELL_STYLE_ATTRS = {"bg_color", "bg_image", "text_inset", "text_wrap", "alignment"}
DEFAULTS = {"alignment": ["auto", "top"], "bg_image": None, "bg_color": None, "font_color": [0, 0, 0], "font_size": 11.0,
            "font_name": "Helvetica Neue", "bold": False, "italic": False, "strikethrough": False, "underline": False,
            "first_indent": 0.0, "left_indent": 0.0, "right_indent": 0.0, "text_inset": 4.0, "text_wrap": True}
HORIZ = ["left", "right", "center", "justified", "auto"]
VERT = ["top", "middle", "bottom"]
H_NUM = {"left": 0, "right": 1, "center": 2, "justified": 3, "auto": 4}
V_NUM = {"top": 0, "middle": 1, "bottom": 2}
FONTS = sorted(np_model.FONT_FAMILY_TO_NAME)
LATTICE = [[r, g, b] for r in (0, 85, 170, 255) for g in (0, 85, 170, 255) for b in (0, 85, 170, 255)]
CORNERS = [[r, g, b] for r in (0, 255) for g in (0, 255) for b in (0, 255)]
INDENTS = [0.0, 0.5, 1.0, 2.25, 3.3]
SIZES = [1.0, 9.5, 11.0, 14.25, 14.3, 72.0]
# a tiny valid PNG (1x1, red)
IMG_DATA = (b"\x89PNG\r\n\x1a\n\x00\x00\x00\rIHDR\x00\x00\x00\x01\x00\x00\x00\x01\x08\x02\x00\x00\x00\x90wS\xde"
            b"\x00\x00\x00\x0cIDATx\x9cc\xf8\xcf\xc0\x00\x00\x03\x01\x01\x00\xc9\xfe\x92\xef\x00\x00\x00\x00IEND\xaeB`\x82")
NR = NC = 3
ALL_CELLS = [(r, c) for r in range(NR) for c in range(NC)]
METHODS = ["obj", "name", "wobj", "wname"]


def seed_color(seed, salt):
    x = (seed * 2654435761 + salt * 40503 + 12345) & 0xFFFFFFFF
    return [(x >> 16) & 255, (x >> 8) & 255, x & 255]


def domains(seed):
    """attribute -> complete list of values enumerated one factor at a time."""
    return {
        "font_name": list(FONTS),
        "font_size": list(SIZES),
        "font_color": LATTICE + [[1, 2, 3], [127, 128, 129], [254, 1, 128], seed_color(seed, 1)],
        "bg_color": LATTICE + [[1, 2, 3], [127, 128, 129], [254, 1, 128], seed_color(seed, 2)],
        "alignment": [[h, v] for h in HORIZ for v in VERT],
        "first_indent": list(INDENTS), "left_indent": list(INDENTS), "right_indent": list(INDENTS),
        "text_inset": list(INDENTS) + [4.0],
        "bold": [False, True], "italic": [False, True], "strikethrough": [False, True], "underline": [False, True],
        "text_wrap": [True, False],
        "bg_image": [None, "img"],
    }


def pair_classes(seed):
    """Reduced value classes (non-default values) used for the complete 2-way product."""
    rot = seed % 7
    return {
        "font_name": [FONTS[0], FONTS[(len(FONTS) // 2 + rot) % len(FONTS)], FONTS[-1]],
        "font_size": [1.0, 9.5, 14.25, 14.3, 72.0],
        "font_color": [c for c in CORNERS if c != [0, 0, 0]],
        "bg_color": list(CORNERS),
        "alignment": [[h, v] for h in HORIZ for v in VERT if [h, v] != ["auto", "top"]],
        "first_indent": INDENTS[1:], "left_indent": INDENTS[1:], "right_indent": INDENTS[1:],
        "text_inset": INDENTS,
        "bold": [True], "italic": [True], "strikethrough": [True], "underline": [True], "text_wrap": [False],
        "bg_image": ["img"],
    }


def img_name(i):
    return f"c15-bg-{i}.png"


def img_data(i):
    return IMG_DATA + bytes([i])  # trailing byte after IEND: distinct digest per style


def to_api(attr, v, i=0):
    if attr in ("font_color", "bg_color"):
        return None if v is None else RGB(*v)
    if attr == "alignment":
        return Alignment(*v)
    if attr == "bg_image":
        return None if v is None else BackgroundImage(img_data(i), img_name(i))
    return v


def style_snap(st):
    """JSON-able reading of every public attribute of a Style."""
    d = {}
    for a in ATTRS + ["name"]:
        v = getattr(st, a)
        if a == "alignment":
            v = [int(v.horizontal), int(v.vertical)]
        elif a == "bg_image":
            v = None if v is None else [v.filename, len(v.data or b""), (v.data or b"")[: len(IMG_DATA)] == IMG_DATA]
        elif a in ("font_color", "bg_color"):
            if isinstance(v, list):
                v = [list(x) for x in v]
            elif v is not None:
                v = list(v)
        d[a] = v
    return d


def expected_snap(spec, name, i=0):
    d = {}
    for a in ATTRS:
        v = spec.get(a, DEFAULTS[a])
        if a == "alignment":
            v = [H_NUM[v[0]], V_NUM[v[1]]]
        elif a == "bg_image":
            v = None if v is None else [img_name(i), len(IMG_DATA) + 1, True]
        d[a] = v
    d["name"] = name
    return d


def bkey(b):
    if b is None:
        return None
    try:
        sty = {0: "solid", 1: "dashes", 2: "dots", 3: "none"}[int(b.style)]
    except Exception:  # noqa: BLE001
        sty = repr(b.style)
    return [b.width, list(b.color), sty]


def read_cell(cell):
    out = {}
    try:
        out["style"] = style_snap(cell.style)
    except Exception as e:  # noqa: BLE001
        out["style"] = f"EXC:{type(e).__name__}:{str(e)[:60]}"
    try:
        b = cell.border
        out["border"] = None if b is None else [bkey(b.top), bkey(b.right), bkey(b.bottom), bkey(b.left)]
    except Exception as e:  # noqa: BLE001
        out["border"] = f"EXC:{type(e).__name__}:{str(e)[:60]}"
    try:
        out["value"] = repr(cell.value)
    except Exception as e:  # noqa: BLE001
        out["value"] = f"EXC:{type(e).__name__}"
    return out


def read_table(t):
    return {(r, c): read_cell(t.cell(r, c)) for r in range(t.num_rows) for c in range(t.num_cols)}


def read_doc(doc):
    out = {}
    for si, s in enumerate(doc.sheets):
        for ti, t in enumerate(s.tables):
            for k, v in read_table(t).items():
                out[(si, ti) + k] = v
    return out


def type_histogram(path):
    objs = pkg.decode_objects(pkg.read_members(path))
    h = collections.Counter()
    for _name, ai, msg, _pl in objs.values():
        h[type(msg).DESCRIPTOR.full_name if msg is not None else f"type-{ai.message_infos[0].type if ai.message_infos else '?'}"] += 1
    return h


_BASE = {}


def baseline():
    """What a pristine 3x3 document reports for every cell (never saved, never styled)."""
    if "b" not in _BASE:
        t = Document(num_rows=NR, num_cols=NC).sheets[0].tables[0]
        _BASE["b"] = read_table(t)
    return _BASE["b"]


def lib_fingerprint(spec, i=0):
    """The string key update_cell_styles uses to share cell-style archives (used ONLY to label a
    failure for known-finding matching, never for the verdict)."""
    g = lambda a: spec.get(a, DEFAULTS[a])  # noqa: E731
    fp = str(V_NUM[g("alignment")[1]]) + str(g("first_indent")) + str(g("left_indent")) + str(g("right_indent")) + str(g("text_inset")) + str(g("text_wrap"))
    if g("bg_color") is not None:
        fp += "".join(str(x) for x in g("bg_color"))
    if g("bg_image") is not None:
        fp += img_name(i)
    return fp


def build_style_doc(case):
    doc = Document(num_rows=NR, num_cols=NC)
    t = doc.sheets[0].tables[0]
    styles = []
    for i, spec in enumerate(case["styles"]):
        name = None if (case.get("autoname") and i == len(case["styles"]) - 1) else f"C15 Style {i + 1}"
        if case.get("ctor") == "setattr":
            kw0 = {a: to_api(a, v, i) for a, v in spec.items() if a == "bg_image"}
            st = doc.add_style(name=name, **kw0)
            for a, v in spec.items():
                if a != "bg_image":
                    setattr(st, a, to_api(a, v))
        else:
            st = doc.add_style(name=name, **{a: to_api(a, v, i) for a, v in spec.items()})
        styles.append(st)
    written = {}
    for r, c, si, how in case["cells"]:
        st = styles[si]
        if how == "obj":
            t.set_cell_style(r, c, st)
        elif how == "name":
            t.set_cell_style(r, c, st.name)
        elif how == "wobj":
            t.write(r, c, f"v{r}{c}", style=st)
            written[(r, c)] = repr(f"v{r}{c}")
        elif how == "wname":
            t.write(r, c, 10 * r + c + 0.5, style=st.name)
            written[(r, c)] = repr(10 * r + c + 0.5)
        else:
            raise ValueError(how)
    edges = {}
    for side, r, c, ln, look in case.get("strokes", []):
        t.set_cell_border(r, c, side, Border(look[0], RGB(*look[1]), look[2]), ln)
        paint(edges, side, r, c, ln, [look[0], list(look[1]), look[2]])
    return doc, t, styles, written, edges


def eval_style_case(case):
    """Evaluate one style case (two documents). -> (failures [(ident, detail)], stats Counter)."""
    if case.get("restyle"):
        return eval_restyle_case(case)
    if case.get("over"):
        return eval_over_case(case)
    fails = []
    stats = collections.Counter()
    seen = set()

    def fail(view, attr, cls, detail):
        ident = {"mechanism": "style", "view": view, "attr": attr, "class": cls}
        k = repr(sorted(ident.items()))
        if k not in seen:
            seen.add(k)
            fails.append((ident, detail))

    base = baseline()
    pa = pb = None
    views = {}
    try:
        # ---- document A: no read before save
        try:
            doc, t, styles, written, edges = build_style_doc(case)
        except Exception as e:  # noqa: BLE001
            fail("build", "-", f"raised-{type(e).__name__}", f"building the document raised {type(e).__name__}: {e}")
            return fails, stats
        names = [s.name for s in styles]
        edits = case.get("edits") or {}
        pa = _tmp("a")
        try:
            doc.save(pa)
            if edits:  # the style is edited after the first save of the open document, then saved again
                for a, v in edits.items():
                    setattr(styles[0], a, to_api(a, v, 0))
                doc.save(pa)
        except Exception as e:  # noqa: BLE001
            fail("save", "-", f"raised-{type(e).__name__}", f"save (nothing read before) raised {type(e).__name__}: {e}")
            return fails, stats
        views["live-after-save"] = read_table(t)
        views["file"] = read_table(Document(pa).sheets[0].tables[0])
        # ---- document B: everything read before save
        doc, t, styles, written, edges = build_style_doc(case)
        views["live-before-save"] = read_table(t)
        pb = _tmp("b")
        try:
            doc.save(pb)
            if edits:
                for a, v in edits.items():
                    setattr(styles[0], a, to_api(a, v, 0))
                views["live-before-save"] = read_table(t)
                doc.save(pb)
        except Exception as e:  # noqa: BLE001
            fail("save-after-read", "-", f"raised-{type(e).__name__}", f"save after reading cell.style/cell.border of every cell raised {type(e).__name__}: {e}")
            return fails, stats
        views["file-after-read"] = read_table(Document(pb).sheets[0].tables[0])
    except Exception as e:  # noqa: BLE001
        fail("reopen-or-read", "-", f"raised-{type(e).__name__}", f"reopening the saved document or reading its cells raised {type(e).__name__}: {e}")
        _rm(pa, pb)
        return fails, stats

    # ---- oracle 1: every cell against what was given / the pristine document
    final = {}
    for r, c, si, _how in case["cells"]:
        final[(r, c)] = si
    eff = [dict(s) for s in case["styles"]]
    eff[0].update(case.get("edits") or {})
    fps = [lib_fingerprint(s, i) for i, s in enumerate(eff)]
    border_want = model_view(edges, None, NR, NC)
    for vname, view in views.items():
        from_file = vname.startswith("file")
        for rc in ALL_CELLS:
            got = view[rc]
            if rc in final:
                si = final[rc]
                spec = eff[si]
                want = expected_snap(spec, names[si], si)
                stats["style_evaluations"] += 1
            else:
                want = base[rc]["style"]
                stats["unstyled_evaluations"] += 1
            if isinstance(got["style"], str):
                fail(vname, "-", "style-read-raised", f"{vname}: cell {rc}: reading cell.style gave {got['style']}")
                continue
            for a in ATTRS + ["name"]:
                stats["attr_comparisons"] += 1
                g, w = got["style"][a], want[a]
                if g == w:
                    continue
                if rc not in final:
                    fail(vname, a, "unstyled-cell-changed", f"{vname}: unstyled cell {rc} reports {a}={g!r}, a pristine document reports {w!r}; case {case}")
                    continue
                cls = "value-differs"
                if a in FLOAT_ATTRS and from_file and isinstance(g, float) and g == f32(w) and g != w:
                    cls = "float32-rounding"
                elif a in CELL_STYLE_ATTRS and from_file:
                    others = [j for j in range(len(case["styles"])) if j != si and fps[j] == fps[si]]
                    if any(expected_snap(eff[j], "", j)[a] == g for j in others):
                        cls = "cell-style-fingerprint-collision"
                fail(vname, a, cls, f"{vname}: cell {rc} styled with {spec} reports {a}={g!r}, given {w!r}")
            wantv = written.get(rc, base[rc]["value"])
            if got["value"] != wantv:
                fail(vname, "value", "value-differs", f"{vname}: cell {rc} value {got['value']} expected {wantv}")
            wb = [None if x is None else [x[0], list(x[1]), x[2]] for x in border_want[rc]]
            if got["border"] != wb:
                fail(vname, "border", "border-differs", f"{vname}: cell {rc} border {got['border']} expected {wb}")
    # ---- oracle 2: reading before save does not change what is saved
    stats["read_before_save_comparisons"] += 1
    fa, fb = views["file"], views["file-after-read"]
    for rc in ALL_CELLS:
        if fa[rc] != fb[rc]:
            ks = [k for k in fa[rc] if fa[rc][k] != fb[rc][k]]
            fail("read-before-save", ks[0], "reload-differs", f"cell {rc}: file saved after reading reports {fb[rc][ks[0]]!r}, file saved without reading {fa[rc][ks[0]]!r}")
            break
    try:
        ha, hb = type_histogram(pa), type_histogram(pb)
        if ha != hb:
            d = {k: (ha.get(k, 0), hb.get(k, 0)) for k in set(ha) | set(hb) if ha.get(k, 0) != hb.get(k, 0)}
            fail("read-before-save", "-", "saved-objects-differ", f"archives per type (saved without reading, saved after reading): {d}; case {case}")
    except Exception as e:  # noqa: BLE001
        fail("read-before-save", "-", f"package-unreadable-{type(e).__name__}", f"independent reader failed on the saved package: {e}")
    _rm(pa, pb)
    stats["style_docs"] += 2
    stats["style_cases"] += 1
    return fails, stats


def apply_style(t, r, c, st, how):
    if how == "obj":
        t.set_cell_style(r, c, st)
    elif how == "name":
        t.set_cell_style(r, c, st.name)
    elif how == "wobj":
        t.write(r, c, f"v{r}{c}", style=st)
        return repr(f"v{r}{c}")
    elif how == "wname":
        t.write(r, c, 10 * r + c + 0.5, style=st.name)
        return repr(10 * r + c + 0.5)
    else:
        raise ValueError(how)
    return None


def eval_over_case(case):
    """Restyle over an existing STORED style. case["over"] = {"mode": "reopen" | "session", "old": spec, "new": spec,
    "how": method}. Two cells get the old style and the document is saved (so both carry stored style keys); then - on the
    reopened document, or on the same open document - a NEW style is created and applied to the first cell only.
    Oracle: that cell reports every attribute of the NEW style (defaults where the new style says nothing), its neighbour
    still reports the old style, unstyled cells a pristine document; on the open document and after save + reopen."""
    fails = []
    stats = collections.Counter()
    seen = set()

    def fail(view, attr, cls, detail):
        ident = {"mechanism": "style", "view": view, "attr": attr, "class": cls}
        k = repr(sorted(ident.items()))
        if k not in seen:
            seen.add(k)
            fails.append((ident, detail))

    ov = case["over"]
    base = baseline()
    p1, p2 = _tmp("o1"), _tmp("o2")
    target, keeper = (1, 1), (1, 2)
    views = {}
    written = {}
    try:
        doc = Document(num_rows=NR, num_cols=NC)
        t = doc.sheets[0].tables[0]
        old = doc.add_style(name="C15 Old", **{a: to_api(a, v, 0) for a, v in ov["old"].items()})
        t.set_cell_style(*target, old)
        t.set_cell_style(*keeper, old)
        doc.save(p1)
        if ov["mode"] == "reopen":
            doc = Document(p1)
            t = doc.sheets[0].tables[0]
        new = doc.add_style(name="C15 New", **{a: to_api(a, v, 1) for a, v in ov["new"].items()})
        w = apply_style(t, target[0], target[1], new, ov["how"])
        if w is not None:
            written[target] = w
        views["live-after-restyle"] = read_table(t)
        doc.save(p2)
        views["file-after-restyle"] = read_table(Document(p2).sheets[0].tables[0])
    except Exception as e:  # noqa: BLE001
        fail("restyle-over-stored", "-", f"raised-{type(e).__name__}", f"{type(e).__name__}: {e}; case {case}")
        _rm(p1, p2)
        return fails, stats
    want_by = {target: expected_snap(ov["new"], "C15 New", 1), keeper: expected_snap(ov["old"], "C15 Old", 0)}
    for vname, view in views.items():
        for rc in ALL_CELLS:
            got = view[rc]
            want = want_by.get(rc, base[rc]["style"])
            stats["style_evaluations" if rc in want_by else "unstyled_evaluations"] += 1
            if isinstance(got["style"], str):
                fail(vname, "-", "style-read-raised", f"{vname}: cell {rc}: reading cell.style gave {got['style']}")
                continue
            for a in ATTRS + ["name"]:
                stats["attr_comparisons"] += 1
                g, wv = got["style"][a], want[a]
                if g == wv:
                    continue
                if a in FLOAT_ATTRS and isinstance(g, float) and g == f32(wv) and g != wv:
                    cls = "float32-rounding"
                elif rc == target:
                    cls = "old-style-shows-through" if g == want_by[keeper][a] else "value-differs"
                elif rc == keeper:
                    cls = "other-cell-changed"
                else:
                    cls = "unstyled-cell-changed"
                fail(vname, a, cls, f"{vname}: cell {target} carried stored style {ov['old']} ({ov['mode']}), was restyled with NEW style {ov['new']} by {ov['how']}; "
                                    f"cell {rc} reports {a}={g!r}, expected {wv!r}")
            wantv = written.get(rc, base[rc]["value"])
            if got["value"] != wantv:
                fail(vname, "value", "value-differs", f"{vname}: cell {rc} value {got['value']} expected {wantv}")
    _rm(p1, p2)
    stats["style_docs"] += 2
    stats["style_cases"] += 1
    return fails, stats


def eval_restyle_case(case):
    """A style applied to several cells, saved and reopened; all cell styles are read; then ONE cell's style is
    edited in place (cell-level attribute: background, wrap, inset, vertical alignment) on the reloaded document.
    Oracle: that cell reports the new value, every other cell still reports what it was given / what a pristine
    document reports, on the open document and after a further save + reopen."""
    fails = []
    stats = collections.Counter()
    seen = set()

    def fail(view, attr, cls, detail):
        ident = {"mechanism": "style", "view": view, "attr": attr, "class": cls}
        k = repr(sorted(ident.items()))
        if k not in seen:
            seen.add(k)
            fails.append((ident, detail))

    base = baseline()
    rr, rc_, attr, val = case["restyle"]
    p1, p2 = _tmp("r1"), _tmp("r2")
    views = {}
    try:
        doc, t, styles, written, _edges = build_style_doc(case)
        names = [s.name for s in styles]
        doc.save(p1)
        d2 = Document(p1)
        t2 = d2.sheets[0].tables[0]
        read_table(t2)  # every cell's style and border is read before the edit
        setattr(t2.cell(rr, rc_).style, attr, to_api(attr, val, 0))
        views["live-after-restyle"] = read_table(t2)
        d2.save(p2)
        views["file-after-restyle"] = read_table(Document(p2).sheets[0].tables[0])
    except Exception as e:  # noqa: BLE001
        fail("restyle", "-", f"raised-{type(e).__name__}", f"restyling a loaded cell in place raised {type(e).__name__}: {e}; case {case}")
        _rm(p1, p2)
        return fails, stats
    final = {(r, c): si for r, c, si, _how in case["cells"]}
    for vname, view in views.items():
        for rc in ALL_CELLS:
            got = view[rc]
            if rc in final:
                spec = dict(case["styles"][final[rc]])
                if rc == (rr, rc_):
                    spec[attr] = val
                want = expected_snap(spec, names[final[rc]], final[rc])
                stats["style_evaluations"] += 1
            else:
                want = base[rc]["style"]
                stats["unstyled_evaluations"] += 1
            if isinstance(got["style"], str):
                fail(vname, "-", "style-read-raised", f"{vname}: cell {rc}: reading cell.style gave {got['style']}")
                continue
            for a in ATTRS + ["name"]:
                stats["attr_comparisons"] += 1
                g, w = got["style"][a], want[a]
                if g == w:
                    continue
                if a in FLOAT_ATTRS and isinstance(g, float) and g == f32(w) and g != w:
                    cls = "float32-rounding"
                elif rc == (rr, rc_):
                    cls = "value-differs"
                else:
                    cls = "other-cell-changed"
                fail(vname, a, cls, f"{vname}: after {attr}={val!r} was set in place on cell {(rr, rc_)} of the reloaded document, cell {rc} reports {a}={g!r}, expected {w!r}")
            wantv = written.get(rc, base[rc]["value"])
            if got["value"] != wantv:
                fail(vname, "value", "value-differs", f"{vname}: cell {rc} value {got['value']} expected {wantv}")
    _rm(p1, p2)
    stats["style_docs"] += 2
    stats["style_cases"] += 1
    return fails, stats


def eval_fixture_case(case):
    """A/B (read before save or not) on a fixture. case = {"kind":"fixture","name":basename}."""
    fails = []
    stats = collections.Counter()
    path = os.path.join(FIXTURES, case["name"])
    if not os.path.exists(path):
        import numbers_parser

        path = os.path.join(os.path.dirname(numbers_parser.__file__), "data", case["name"])

    def ident(cls, view="read-before-save"):
        return {"mechanism": "style-fixture", "view": view, "attr": "-", "class": cls}

    def opened():
        with warnings.catch_warnings(record=True) as w:
            warnings.simplefilter("always")
            d = Document(path)
        return d, [str(x.message) for x in w]

    try:
        da, wa = opened()
    except Exception:  # noqa: BLE001
        stats["fixtures_skipped_unreadable"] += 1
        return fails, stats
    if any("unsupported version" in m for m in wa):
        stats["fixtures_skipped_unreadable"] += 1
        return fails, stats
    pa, pb = _tmp("fa"), _tmp("fb")
    try:
        with warnings.catch_warnings():
            warnings.simplefilter("ignore")
            try:
                da.save(pa)
            except Exception as e:  # noqa: BLE001
                # a fixture the library cannot re-save at all says nothing about reads
                stats["fixtures_skipped_unsavable"] += 1
                stats[f"unsavable:{type(e).__name__}"] += 1
                return fails, stats
            fa = read_doc(Document(pa))
            db, _ = opened()
            live = read_doc(db)  # reads cell.style and cell.border of every cell
            try:
                db.save(pb)
            except Exception as e:  # noqa: BLE001
                fails.append((ident(f"raised-{type(e).__name__}", "save-after-read"),
                              f"{case['name']}: save after reading cell.style/cell.border of every cell raised {type(e).__name__}: {e} (saving without reading works)"))
                return fails, stats
            fb = read_doc(Document(pb))
        stats["fixture_cells"] += len(fa)
        stats["fixture_cells_with_border"] += sum(1 for v in live.values() if isinstance(v["border"], list) and any(v["border"]))
        stats["fixture_style_read_raised"] += sum(1 for v in live.values() if isinstance(v["style"], str))
        if set(fa) != set(fb):
            fails.append((ident("reload-differs"), f"{case['name']}: different cell sets after reload"))
        else:
            for k in fa:
                if fa[k] != fb[k]:
                    ks = [x for x in fa[k] if fa[k][x] != fb[k][x]]
                    sub = ""
                    if ks[0] == "style" and isinstance(fa[k]["style"], dict) and isinstance(fb[k]["style"], dict):
                        sub = str({a: (fa[k]["style"][a], fb[k]["style"][a]) for a in fa[k]["style"] if fa[k]["style"][a] != fb[k]["style"][a]})
                    fails.append((ident("reload-differs"), f"{case['name']}: cell {k}: {ks[0]} read from the file saved after reading differs from the file saved without reading: "
                                  f"{sub or (fb[k][ks[0]], fa[k][ks[0]])}"))
                    break
        try:
            ha, hb = type_histogram(pa), type_histogram(pb)
            if ha != hb:
                d = {k: (ha.get(k, 0), hb.get(k, 0)) for k in set(ha) | set(hb) if ha.get(k, 0) != hb.get(k, 0)}
                fails.append((ident("saved-objects-differ"), f"{case['name']}: archives per type (saved without reading, saved after reading): {d}"))
        except Exception:  # noqa: BLE001
            stats["fixture_packages_not_decoded"] += 1
        stats["fixture_cases"] += 1
        stats["read_before_save_comparisons"] += 1
    finally:
        _rm(pa, pb)
    return fails, stats


# ---- case generators ------------------------------------------------------------------------

def set_partitions(m):
    """All assignments of m cells to style indices, up to renaming (restricted growth strings)."""
    out = []

    def rec(prefix, mx):
        if len(prefix) == m:
            out.append(list(prefix))
            return
        for v in range(mx + 2):
            rec(prefix + [v], max(mx, v))

    rec([0], 0)
    return out


LAYOUT_POS = [(1, 1), (0, 2), (2, 0), (2, 2), (1, 2), (0, 0)]


def rot_layouts(seed):
    """Small rotation of layouts used to pack value cases: (cells [(r,c,style index,how)], ctor, autoname)."""
    base = [
        ([(1, 1, 0, "obj"), (0, 2, 1, "name"), (2, 0, 2, "wobj")], "kwargs", False),
        ([(1, 2, 0, "name"), (2, 1, 1, "wname"), (0, 0, 2, "obj")], "kwargs", True),
        ([(2, 2, 0, "wobj"), (1, 0, 1, "obj"), (0, 1, 2, "name")], "setattr", False),
        ([(0, 2, 0, "wname"), (1, 1, 1, "wobj"), (2, 1, 2, "wname")], "kwargs", False),
        ([(1, 1, 0, "obj"), (1, 2, 0, "name"), (2, 1, 1, "name"), (2, 2, 2, "obj")], "setattr", True),
    ]
    k = seed % len(base)
    return base[k:] + base[:k]


def pack(specs, family, seed):
    """Pack style specs three to a document, rotating the layout."""
    lay = rot_layouts(seed)
    cases = []
    for i in range(0, len(specs), 3):
        chunk = specs[i : i + 3]
        cells, ctor, auton = lay[(i // 3) % len(lay)]
        cells = [list(x) for x in cells if x[2] < len(chunk)]
        if ctor == "setattr" and any("bg_image" in s and s["bg_image"] for s in chunk):
            ctor = "kwargs"
        cases.append({"kind": "style", "family": family, "styles": chunk, "cells": cells, "ctor": ctor, "autoname": auton})
    return cases


def gen_style_cases(tier, seed):
    dom = domains(seed)
    cases = []
    # (a) one factor at a time: the whole domain of each attribute
    one = []
    for a in ATTRS:
        for v in dom[a]:
            one.append({a: v})
    if tier == "thorough":
        for k in range(256):  # every channel value, grey diagonal and one channel at a time
            one.append({"font_color": [k, k, k]})
            one.append({"bg_color": [k, 255 - k, (k * 7) % 256]})
    cases += pack(one, "one-factor", seed)
    # (b) pairs of attribute classes
    pc = pair_classes(seed)
    pairs = []
    for a, b in itertools.combinations(ATTRS, 2):
        if {a, b} == {"bg_image", "bg_color"}:
            continue  # a cell background is a colour OR an image
        if tier == "thorough":
            for va in pc[a]:
                for vb in pc[b]:
                    pairs.append({a: va, b: vb})
        else:
            pairs.append({a: pc[a][seed % len(pc[a])], b: pc[b][(seed + 1) % len(pc[b])]})
    cases += pack(pairs, "pairs", seed)
    # everything non-default at once
    alls = []
    for k in range(3 if tier == "quick" else 12):
        s = {}
        for a in ATTRS:
            if a == "bg_image" and k % 2 == 0:
                continue
            if a == "bg_color" and k % 2 == 1:
                continue
            s[a] = pc[a][(k + seed) % len(pc[a])]
        alls.append(s)
    cases += pack(alls, "all-attributes", seed)
    # (c) layouts: every partition of 1..3 cells over styles x how each cell is styled, + strokes
    triples = [
        [{"bold": True, "font_color": [255, 0, 0], "bg_color": [0, 255, 255], "font_size": 14.25},
         {"italic": True, "bg_color": [255, 255, 0], "alignment": ["center", "middle"], "font_name": FONTS[(7 + seed) % len(FONTS)]},
         {"underline": True, "text_inset": 1.0, "left_indent": 0.5, "text_wrap": False, "strikethrough": True}],
        [{"font_size": 72.0, "alignment": ["right", "bottom"], "right_indent": 2.25},
         {"bg_image": "img", "first_indent": 1.0},
         {"font_color": [0, 0, 255], "bg_color": [85, 170, 255], "bold": True, "italic": True}],
    ]
    strokes = [["top", 1, 1, 2, [2.0, [255, 0, 0], "solid"]], ["left", 0, 2, 3, [3.0, [0, 255, 0], "dashes"]], ["bottom", 1, 1, 1, [0.35, [0, 0, 255], "dots"]]]
    methods = METHODS if tier == "thorough" else ["obj", "name", "wobj"]
    li = 0
    for m in (1, 2, 3):
        for part in set_partitions(m):
            for hows in itertools.product(methods, repeat=m):
                for ti, tr in enumerate(triples if tier == "thorough" else triples[:1]):
                    pos = LAYOUT_POS[(li + seed) % len(LAYOUT_POS):] + LAYOUT_POS[:(li + seed) % len(LAYOUT_POS)]
                    cells = [[pos[i][0], pos[i][1], part[i], hows[i]] for i in range(m)]
                    case = {"kind": "style", "family": "layout", "styles": tr[: max(part) + 1] if li % 2 else tr, "cells": cells,
                            "ctor": "kwargs", "autoname": bool(li % 3 == 0)}
                    if li % 2 == 0:
                        case["strokes"] = strokes[: 1 + li % 3]
                    cases.append(case)
                    li += 1
    # restyle: a cell styled twice keeps the last style; its neighbour keeps the first
    for h1, h2 in itertools.product(methods, repeat=2):
        cases.append({"kind": "style", "family": "layout", "styles": triples[0], "cells": [[1, 1, 0, h1], [1, 2, 0, h1], [1, 1, 1, h2], [2, 2, 2, h2]],
                      "ctor": "kwargs", "autoname": False})
    # (e) a style edited after the first save of the open document (update path), every attribute
    ei = 0
    for a in ATTRS:
        if a == "bg_image":
            continue  # an image can only be given at creation (add_style stores the file)
        vals = pc[a] if tier == "thorough" else [pc[a][(seed + 2) % len(pc[a])]]
        for v in vals:
            tr = triples[0] if ei % 2 == 0 else [{}, triples[0][1], triples[0][2]]
            cases.append({"kind": "style", "family": "edit-after-save", "styles": tr, "edits": {a: v},
                          "cells": [[1, 1, 0, "obj"], [1, 2, 0, "name"], [2, 1, 1, "obj"], [0, 2, 2, "wobj"]], "ctor": "kwargs", "autoname": False})
            ei += 1
    # (f) a style shared by several cells, reloaded, then ONE cell's style edited in place (cell-level attributes:
    # text-level attributes set in place on a loaded cell are not written by the library and are not judged)
    s0 = {"bold": True, "bg_color": [0, 255, 255], "font_size": 14.25}
    s1 = {"italic": True, "text_inset": 1.0}
    sharing = [[1, 1, 0, "obj"], [1, 2, 0, "name"], [2, 2, 0, "wobj"], [2, 1, 1, "obj"], [0, 2, 1, "name"]]
    rvals = {"bg_color": pc["bg_color"] if tier == "thorough" else [[255, 0, 255], seed_color(seed, 3)],
             "text_wrap": [False],
             "text_inset": INDENTS if tier == "thorough" else [0.0, 2.25],
             "alignment": [["auto", "middle"], ["auto", "bottom"]]}
    for a, vals in rvals.items():
        for v in vals:
            for target in ((1, 1), (1, 2), (2, 2), (2, 1)):
                cases.append({"kind": "style", "family": "loaded-restyle", "styles": [s0, s1], "cells": sharing, "ctor": "kwargs", "autoname": False,
                              "restyle": [target[0], target[1], a, v]})
    # (g) restyle over an existing STORED style (cell reloaded from a file, or saved once in this session): the new style is
    # the all-default plain style or differs from it in one attribute class; every attribute must be the NEW style's
    old_style = {"bg_color": [255, 0, 255], "text_inset": 1.0, "text_wrap": False, "alignment": ["center", "bottom"], "bold": True, "font_size": 14.25,
                 "left_indent": 0.5}
    news = [{}] + [{a: pc[a][(seed + 1) % len(pc[a])]} for a in ATTRS]
    oi = 0
    for new_style in news:
        for mode in ("reopen", "session"):
            hows = METHODS if (tier == "thorough" or not new_style) else [METHODS[oi % 3]]
            for how in hows:
                cases.append({"kind": "style", "family": "restyle-over-stored", "styles": [old_style, new_style], "cells": [],
                              "over": {"mode": mode, "old": old_style, "new": new_style, "how": how}})
            oi += 1
    # (d) the shortcut visible in update_cell_styles: styles whose concatenated fingerprints coincide
    collide = [
        [{"bg_color": [1, 23, 4]}, {"bg_color": [12, 3, 4]}],
        [{"bg_color": [11, 1, 1]}, {"bg_color": [1, 11, 1]}, {"bg_color": [1, 1, 11]}],
        [{"right_indent": 1.0, "text_inset": 10.0}, {"right_indent": 1.01, "text_inset": 0.0}],
    ]
    for st in collide:
        cells = [[1 + i // 2, 1 + i % 2, i, "obj"] for i in range(len(st))]
        cases.append({"kind": "style", "family": "collide", "styles": st, "cells": cells, "ctor": "kwargs", "autoname": False})
    return cases


def gen_fixture_cases(tier, seed):
    must = ["test-styles.numbers", "test-bgcolour.numbers", "test-extra-borders.numbers"]
    if tier == "thorough":
        from mc.snapshot import readable_fixtures

        names = [os.path.basename(p) for p, n in readable_fixtures() if n <= 3000]
        names = must + [n for n in names if n not in must]
    else:
        # same rule as mc.snapshot.readable_fixtures() (opens, no unsupported-version warning), applied by the
        # worker to the files it is given, so that quick does not open the whole corpus
        cand = ["test-1", "test-formats", "issue-77", "test-save-1", "issue-3", "issue-43", "issue-73", "test-format-save", "issue-7", "issue-42", "matches",
                "test-issue-75", "issue-44", "test-2", "test-5", "issue-51", "test-actions", "test-4", "test-8", "test-titles", "issue-96", "format-1", "test-10",
                "issue-69", "issue-80", "test-9", "issue-37", "test-empty-rows", "test-new-formulas", "issue-54", "issue-10", "custom-formats1", "issue-32",
                "issue-9", "test-7", "issue-49", "issue-59"]
        cand = [n + ".numbers" for n in cand if os.path.exists(os.path.join(FIXTURES, n + ".numbers"))]
        k = (3 * seed) % max(1, len(cand))
        pick = (cand[k:] + cand[:k])[:5]
        names = must + pick
    return [{"kind": "fixture", "name": n} for n in names]


def style_worker(chunk):
    part = Part()
    for case in chunk:
        if case["kind"] == "fixture":
            fails, stats = eval_fixture_case(case)
        else:
            fails, stats = eval_style_case(case)
            part.count(f"style_cases_{case['family']}")
            for s in case["styles"]:
                part.outcome("spec:" + ",".join(sorted(s)) if len(s) <= 2 else "spec:many")
        for k, v in stats.items():
            part.count(k, v)
        for ident, detail in fails:
            part.fail(ident, detail, case)
    if chunk:
        part.sample({"style_case": chunk[0]})
    return part.dump()


# =============================================================================================
# Part 2: borders (unit-edge model + explorer)
# =============================================================================================

SIDES = ["top", "right", "bottom", "left"]
# two of the three looks differ ONLY in the pattern (dashes vs dots share the stored pattern type and differ in the pattern array)
PALETTE = [[2.0, [255, 0, 0], "solid"], [0.35, [0, 0, 255], "dashes"], [0.35, [0, 0, 255], "dots"]]
GROWN = ["append", "insert", "write", "rows2"]
# the merged rectangles of a 3x3 table for which BOTH stroke classes exist: a refused stroke (start edge interior) that would
# have run on beyond the rectangle, and an accepted stroke that starts outside and crosses interior edges
RECTS = [(0, 1, 1, 2), (1, 0, 1, 1), (0, 1, 1, 1), (1, 0, 2, 1), (1, 0, 1, 2), (0, 1, 2, 1), (1, 1, 1, 2), (1, 1, 2, 1)]


def a1(r, c):
    return f"{chr(65 + c)}{r + 1}"


def stroke_edges(side, r, c, ln):
    if side == "top":
        return [("h", r, c + i) for i in range(ln)]
    if side == "bottom":
        return [("h", r + 1, c + i) for i in range(ln)]
    if side == "left":
        return [("v", r + i, c) for i in range(ln)]
    return [("v", r + i, c + 1) for i in range(ln)]


def stroke_line(side, r, c):
    return {"top": ("h", r), "bottom": ("h", r + 1), "left": ("v", c), "right": ("v", c + 1)}[side]


def paint(edges, side, r, c, ln, look):
    for e in stroke_edges(side, r, c, ln):
        edges[e] = look


def in_rect(rect, r, c):
    return rect is not None and rect[0] <= r <= rect[2] and rect[1] <= c <= rect[3]


def interior(rect, e):
    """A unit edge is interior to the merged rectangle when the cells on both of its sides are in it."""
    k, r, c = e
    if k == "h":
        return in_rect(rect, r - 1, c) and in_rect(rect, r, c)
    return in_rect(rect, r, c - 1) and in_rect(rect, r, c)


def cell_edges(r, c):
    return [("h", r, c), ("v", r, c + 1), ("h", r + 1, c), ("v", r, c)]  # top, right, bottom, left


def model_view(edges, rect, nr=NR, nc=NC):
    v = {}
    for r in range(nr):
        for c in range(nc):
            v[(r, c)] = tuple(None if interior(rect, e) else _tup(edges.get(e)) for e in cell_edges(r, c))
    return v


def _tup(look):
    return None if look is None else (look[0], tuple(look[1]), look[2])


def impl_view(t):
    v = {}
    for r in range(NR):
        for c in range(NC):
            b = t.cell(r, c).border
            v[(r, c)] = tuple(_tup(bkey(getattr(b, s))) for s in SIDES)
    return v


def all_strokes():
    out = []
    for side in SIDES:
        for r in range(NR):
            for c in range(NC):
                mx = NC - c if side in ("top", "bottom") else NR - r
                for ln in range(1, mx + 1):
                    out.append((side, r, c, ln))
    return out


STROKES = all_strokes()  # 72 on a 3x3 table


class BState:
    pass


_TWO = {}


def two_table_path():
    """A document with two 3x3 tables on one sheet, written once per process by the library itself; the
    two-table histories start from this LOADED document."""
    p = _TWO.get(os.getpid())
    if p is None or not os.path.exists(p):
        doc = Document(num_rows=NR, num_cols=NC, num_header_rows=0, num_header_cols=0)
        doc.sheets[0].add_table("Second", 400, 0, NR, NC)
        t2 = doc.sheets[0].tables[1]
        if (t2.num_rows, t2.num_cols) != (NR, NC):
            raise RuntimeError(f"second table is {t2.num_rows}x{t2.num_cols}")
        p = Scratch.path(f"c15-two-tables-{os.getpid()}.numbers")
        doc.save(p)
        _TWO.clear()
        _TWO[os.getpid()] = p
    return p


def shares_edge(a, b):
    return bool(set(stroke_edges(*a)) & set(stroke_edges(*b)))


def layer_of(side, r, c):
    return (side, r if side in ("top", "bottom") else c)


class BorderSpec:
    """geometry: "all" | "collinear" (every stroke after the first lies on the first stroke's grid line);
    borders: "all" (B1, B2, B3 at every step) | "cycle" (any first; then B1->B2, B2->B3, B3->B1 or B3 again)
             | "cycle3" (any first; then B1->B2, B2->B3, B3->B1) | "one" (B1 first; then as cycle3).
    family (overrides the two above):
      "redraw"     a with B1; then ONE compound step [b with B2, a again with B3] for every stroke b that shares a unit edge with a
      "redraw-rs"  the same with a save + reopen between b and the second a
      "two-tables" loaded document with two tables: a with B1 on the first table, then every stroke b with B2 on the SECOND
                   table that has a's side (thorough) / a's side and row-or-column index (quick)."""

    def __init__(self, geometry="all", borders="all", reopen=False, family=None, wide=False):
        self.geometry = geometry
        self.borders = borders
        self.reopen = reopen  # every stroke after the first is preceded by ONE save + reopen of the document ("rs" events)
        self.family = family
        self.wide = wide

    def _tables(self, doc):
        return list(doc.sheets[0].tables)

    def initial(self, init_id):
        shape, rot = init_id.split("|")
        rot = int(rot)
        st = BState()
        st.rect = None
        if shape == "two":
            st.doc = Document(two_table_path())
        elif shape.startswith("g:"):
            # a 3x3 table whose last/inner row and column were added in THIS session
            how = shape[2:]
            nr0, nc0 = (1, NC) if how == "rows2" else (NR - 1, NC - 1)
            st.doc = Document(num_rows=nr0, num_cols=nc0, num_header_rows=0, num_header_cols=0)
            t = st.doc.sheets[0].tables[0]
            if how == "append":
                t.add_row()
                t.add_column()
            elif how == "insert":
                t.add_row(1, 1)
                t.add_column(1, 0)
            elif how == "write":
                t.write(NR - 1, NC - 1, "grown")  # implicit growth by writing beyond the bounds
            elif how == "rows2":
                t.add_row(2)
            else:
                raise ValueError(how)
            if (t.num_rows, t.num_cols) != (NR, NC):
                raise RuntimeError(f"grown table is {t.num_rows}x{t.num_cols}")
        else:
            st.doc = Document(num_rows=NR, num_cols=NC, num_header_rows=0, num_header_cols=0)
        st.tabs = self._tables(st.doc)
        if shape.startswith("m:"):
            st.rect = tuple(int(x) for x in shape[2:].split(","))
            st.tabs[0].merge_cells(f"{a1(st.rect[0], st.rect[1])}:{a1(st.rect[2], st.rect[3])}")
        st.looks = {"B1": PALETTE[rot % 3], "B2": PALETTE[(rot + 1) % 3], "B3": PALETTE[(rot + 2) % 3]}
        lk = st.looks["B3"]
        st.b3 = Border(lk[0], RGB(*lk[1]), lk[2])  # ONE object, reused by every B3 stroke
        st.E = [{} for _ in st.tabs]  # per table: unit edge -> look
        st.older = [collections.defaultdict(list) for _ in st.tabs]  # looks painted earlier (for labelling only)
        st.line = None
        st.last = None
        st.first = None
        st.n = 0
        st.reopened = 0
        return st

    def enabled(self, st, depth_left):
        if self.family:
            if st.n == 0:
                return [["s", side, r, c, ln, "B1"] for side, r, c, ln in STROKES]
            if st.n > 1:
                return []
            a = st.first
            if self.family == "two-tables":
                return [["s", side, r, c, ln, "B2", 1] for side, r, c, ln in STROKES
                        if side == a[0] and (self.wide or layer_of(side, r, c) == layer_of(a[0], a[1], a[2]))]
            third = "rs" if self.family == "redraw-rs" else "s"
            return [["seq", ["s", *b, "B2"], [third, *a, "B3"]] for b in STROKES if shares_edge(a, b)]
        if st.last is None:
            bids = ["B1"] if self.borders == "one" else ["B1", "B2", "B3"]
        elif self.borders == "all":
            bids = ["B1", "B2", "B3"]
        else:
            bids = {"B1": ["B2"], "B2": ["B3"], "B3": ["B1", "B3"] if self.borders == "cycle" else ["B1"]}[st.last]
        evs = []
        for side, r, c, ln in STROKES:
            if self.geometry == "collinear" and st.line is not None and stroke_line(side, r, c) != st.line:
                continue
            for b in bids:
                evs.append(["rs" if self.reopen and st.n >= 1 and not st.reopened else "s", side, r, c, ln, b])
        return evs

    def _kind(self, st, ti, r, c, si):
        if ti > 0:
            return "second-table"
        if st.rect is None or not in_rect(st.rect, r, c):
            return "plain"
        if (r, c) == (st.rect[0], st.rect[1]):
            return "anchor-bottom-right" if SIDES[si] in ("bottom", "right") else "anchor-top-left"
        return "placeholder"

    def _compare(self, st, tabs, viewname):
        """-> [(ident, detail)] one per distinct (class, where) among the differing cell sides of all tables."""
        out = {}
        for ti, t in enumerate(tabs):
            rect = st.rect if ti == 0 else None
            want = model_view(st.E[ti], rect)
            got = impl_view(t)
            for rc in sorted(want):
                for si in range(4):
                    g, w = got[rc][si], want[rc][si]
                    if g == w:
                        continue
                    e = cell_edges(*rc)[si]
                    if g is None:
                        cls = "missing"
                    elif w is None:
                        cls = "extra"
                    elif g in [_tup(x) for x in st.older[ti].get(e, [])]:
                        cls = "stale"
                    else:
                        cls = "wrong"
                    where = self._kind(st, ti, rc[0], rc[1], si)
                    ident = {"mechanism": "border", "view": viewname, "class": cls, "where": where}
                    out.setdefault(repr(sorted(ident.items())), (ident, f"{viewname} view: table {ti} cell {rc} {SIDES[si]} reports {g}, the unit-edge model says {w} "
                                                                f"(table {'plain' if rect is None else 'with merged ' + str(rect)})"))
        return list(out.values())

    def apply(self, st, ev):
        if ev[0] == "seq":  # compound step: several strokes in one transition
            fails, outcome = [], "?"
            for sub in ev[1:]:
                f, outcome = self._apply1(st, sub)
                fails += f
                if outcome == "exception":
                    break
            return fails, "+".join(sub[0] for sub in ev[1:]) + ":" + outcome
        return self._apply1(st, ev)

    def _apply1(self, st, ev):
        kind, side, r, c, ln, bid = ev[:6]
        ti = ev[6] if len(ev) > 6 else 0
        if kind == "rs":  # continue on the document as the library reads it back from its own file
            p = _tmp("r")
            try:
                st.doc.save(p)
                st.doc = Document(p)
                st.tabs = self._tables(st.doc)
                st.reopened += 1
            except Exception as e:  # noqa: BLE001
                _rm(p)
                return [({"mechanism": "border", "view": "file", "class": f"raised-{type(e).__name__}", "where": "-"}, f"save/reopen before {ev} raised {type(e).__name__}: {e}")], "exception"
            _rm(p)
        lk = st.looks[bid]
        border = st.b3 if bid == "B3" else Border(lk[0], RGB(*lk[1]), lk[2])
        es = stroke_edges(side, r, c, ln)
        rect = st.rect if ti == 0 else None
        edges = st.E[ti]
        refuse = interior(rect, es[0])  # documented: the start cell's side is merged away -> warning, nothing drawn
        fails = []
        try:
            with warnings.catch_warnings(record=True) as w:
                warnings.simplefilter("always")
                st.tabs[ti].set_cell_border(r, c, side, border, ln)
            warned = any(issubclass(x.category, RuntimeWarning) and "merged" in str(x.message) for x in w)
        except Exception as e:  # noqa: BLE001
            fails.append(({"mechanism": "border", "view": "live", "class": f"raised-{type(e).__name__}", "where": "-"}, f"{ev}: set_cell_border raised {type(e).__name__}: {e}"))
            return fails, "exception"
        st.n += 1
        st.last = bid
        if st.line is None:
            st.line = stroke_line(side, r, c)
            st.first = (side, r, c, ln)
        if refuse:
            outcome = "refused+ext" if any(not interior(rect, e) for e in es) else "refused"
            if not warned:
                fails.append(({"mechanism": "border", "view": "live", "class": "merged-edge-accepted-silently", "where": "-"},
                              f"{ev}: the start cell's {side} edge is inside merged {rect} but no RuntimeWarning was issued"))
        else:
            if warned:
                fails.append(({"mechanism": "border", "view": "live", "class": "refused-visible-edge", "where": "-"},
                              f"{ev}: RuntimeWarning 'merged' although the start cell's {side} edge is not inside a merged rectangle"))
            visible = [e for e in es if not interior(rect, e)]
            outcome = ("overlap" if any(e in edges for e in visible) else "fresh") + ("+cross" if len(visible) < len(es) else "")
            for e in es:
                if e in edges:
                    st.older[ti][e].append(edges[e])
                edges[e] = lk
        try:
            fails += self._compare(st, st.tabs, "live")
        except Exception as e:  # noqa: BLE001
            fails.append(({"mechanism": "border", "view": "live", "class": f"read-raised-{type(e).__name__}", "where": "-"}, f"after {ev}: reading cell.border raised {type(e).__name__}: {e}"))
            return fails, "exception"
        return fails, outcome + ("@t1" if ti else "")

    def probe(self, st):
        fails = []
        p = _tmp("b")
        try:
            live0 = [impl_view(t) for t in st.tabs]
            st.doc.save(p)
            if [impl_view(t) for t in st.tabs] != live0:
                fails.append(({"mechanism": "border", "view": "live", "class": "save-changed-live-view", "where": "-"}, "saving changed the borders reported by the open document"))
            fails += self._compare(st, self._tables(Document(p)), "file")
        except Exception as e:  # noqa: BLE001
            fails.append(({"mechanism": "border", "view": "file", "class": f"raised-{type(e).__name__}", "where": "-"}, f"save/reopen raised {type(e).__name__}: {e}"))
        _rm(p)
        return fails

    def key(self, st):
        m = st.doc._model
        fp = []
        orders = []
        for t in st.tabs:
            sc = m.objects[m.objects[t._table_id].stroke_sidecar.identifier]
            fp.append(sc.max_order)
            for nm in ("top_row_stroke_layers", "right_column_stroke_layers", "bottom_row_stroke_layers", "left_column_stroke_layers"):
                layers = []
                for ref in getattr(sc, nm):
                    lay = m.objects[ref.identifier]
                    layers.append((lay.row_column_index, [(x.origin, x.length, x.order, round(x.stroke.width, 3), int(x.stroke.pattern.type),
                                                           round(x.stroke.color.r, 3), round(x.stroke.color.g, 3), round(x.stroke.color.b, 3)) for x in lay.stroke_runs]))
                fp.append(sorted(layers))
            for row in t._data:
                for cell in row:
                    b = getattr(cell, "_border", None)
                    orders.append(tuple(getattr(getattr(b, "_" + s, None), "_order", None) for s in SIDES) if b is not None else None)
        return repr(([sorted(e.items()) for e in st.E], st.rect, st.line if self.geometry == "collinear" else None,
                     st.last if self.borders != "all" else None, (st.first, st.n) if self.family else None, st.reopened,
                     getattr(st.b3, "_order", None), fp, orders))


SPECS = {f"{g}-{b}": BorderSpec(g, b) for g in ("all", "collinear") for b in ("all", "cycle", "cycle3", "one")}
SPECS["collinear-one-reopen"] = BorderSpec("collinear", "one", reopen=True)
SPECS["collinear-cycle3-reopen"] = BorderSpec("collinear", "cycle3", reopen=True)
SPECS["redraw"] = BorderSpec(family="redraw")
SPECS["redraw-rs"] = BorderSpec(family="redraw-rs")
SPECS["two-tables"] = BorderSpec(family="two-tables")
SPECS["two-tables-wide"] = BorderSpec(family="two-tables", wide=True)


class MultiSpec:
    """Several specs explored in ONE level-synchronous search: the init id is "<spec name>@<shape>|<rotation>"."""

    def initial(self, init_id):
        name, rest = init_id.split("@", 1)
        st = SPECS[name].initial(rest)
        st.spec = SPECS[name]
        st.specname = name
        return st

    def enabled(self, st, depth_left):
        return st.spec.enabled(st, depth_left)

    def apply(self, st, ev):
        return st.spec.apply(st, ev)

    def probe(self, st):
        return st.spec.probe(st)

    def key(self, st):
        return st.specname + "|" + st.spec.key(st)


MULTI = MultiSpec()


def border_plan(tier, seed):
    """[(depth, probe every distinct state, [init ids "<spec>@<shape>|<rot>"])] - one explorer run per entry"""
    rot = seed % 3
    plain = f"plain|{rot}"
    two = f"two|{rot}"

    def merged(i):
        return "m:" + ",".join(map(str, RECTS[i % len(RECTS)])) + f"|{rot}"

    def grown(i):
        return f"g:{GROWN[i % len(GROWN)]}|{rot}"

    if tier == "quick":
        return [
            (2, False, [f"all-one@{plain}", f"collinear-one-reopen@{plain}", f"collinear-cycle3@{merged(seed + 1)}"] + [f"collinear-one@{grown(seed + i)}" for i in range(3)]),
            (1, True, [f"all-one@{grown(seed + i)}" for i in range(3)]),
            (2, True, [f"collinear-cycle3@{plain}", f"collinear-one@{merged(seed)}", f"redraw@{plain}", f"redraw@{merged(seed)}",
                       f"redraw-rs@{plain}", f"two-tables@{two}"]),
        ]
    return [
        (2, False, [f"all-all@{plain}", f"all-all@{merged(seed)}"]),
        (3, False, [f"collinear-cycle@{plain}"]),
        (2, True, [f"all-one@{plain}", f"collinear-cycle3@{plain}"] + [f"collinear-cycle3@{merged(seed + i)}" for i in range(3)] + [f"collinear-cycle3-reopen@{plain}"]
         + [f"collinear-one-reopen@{merged(seed + i)}" for i in range(2)] + [f"redraw@{plain}"] + [f"redraw@{merged(seed + i)}" for i in range(3)]
         + [f"redraw-rs@{plain}", f"redraw-rs@{merged(seed)}", f"two-tables-wide@{two}"] + [f"collinear-one@{grown(i)}" for i in range(len(GROWN))]),
        (3, True, [f"collinear-one@{plain}"]),
    ]


# =============================================================================================

def replay(rep, payload):
    want = payload.get("ident")
    if isinstance(rep, dict) and rep.get("kind") == "style":
        fails, _ = eval_style_case(rep)
    elif isinstance(rep, dict) and rep.get("kind") == "fixture":
        fails, _ = eval_fixture_case(rep)
    else:
        spec = MULTI if "@" in rep["init"] else SPECS[rep.get("spec", "all-all")]
        fails = explore.replay_history(spec, rep["init"], rep["history"], probe=rep.get("probe", False))
    hit = [d for i, d in fails if i == want]
    text = "; ".join((hit or [d for _, d in fails])[:3]) or "agrees with the oracle"
    return bool(fails), f"{str(rep)[:300]}: {text}"


def main():
    args = parse_args()
    if args.replay:
        return run_replay(args, replay)
    run = Run(PID, "model_checking", args)
    run.max_samples = 5  # style cases first; raised below so that stroke histories are sampled as well

    only = os.environ.get("C15_ONLY", "")  # development aid: "styles" | "borders" (floors then fail by design)
    # ---- part 1: styles (complete products) and fixtures
    cases = [] if only == "borders" else gen_style_cases(args.tier, args.seed) + gen_fixture_cases(args.tier, args.seed)
    specs = {repr(sorted(s.items())) for c in cases if c["kind"] == "style" for s in c["styles"] if s}
    per = 2 if args.tier == "quick" else 4
    fx = [[c] for c in cases if c["kind"] == "fixture"]
    sc = [c for c in cases if c["kind"] == "style"]
    chunks = fx + [sc[i : i + per] for i in range(0, len(sc), per)]
    for res in pmap(style_worker, chunks, args.jobs):
        run.merge(res)
    run.extra["distinct_style_specs"] = len(specs)
    run.extra["style_families"] = {k[len("style_cases_"):]: v for k, v in run.counters.items() if k.startswith("style_cases_")}

    # ---- part 2: borders (state-space search)
    run.max_samples = 14
    plan_only = {int(x) for x in os.environ.get("C15_PLAN", "").split(",") if x.strip()}  # development aid: a subset of the border plan
    for i, (depth, probe, inits) in enumerate([] if only == "styles" else border_plan(args.tier, args.seed)):
        if plan_only and i not in plan_only:
            continue
        before = dict(run.counters)
        explore.explore("c15", MULTI, inits, depth, run, jobs=args.jobs, probe=probe, tag=f"#{i}@d{depth}{'+probe' if probe else ''}")
        run.extra.setdefault("plan", []).append({"inits": inits, "depth": depth, "probe_every_state": probe,
                                                  "transitions": run.counters["transitions"] - before.get("transitions", 0),
                                                  "states": run.counters["states"] - before.get("states", 0),
                                                  "probes": run.counters["probes"] - before.get("probes", 0)})

    # ---- non-vacuity floors
    oc = run.outcomes
    run.floor("every one of the 15 attributes enumerated one factor at a time", all(oc.get(f"spec:{a}", 0) >= 2 for a in ATTRS))
    run.floor("all 188 font families styled", oc.get("spec:font_name", 0) >= len(FONTS))
    run.floor(">= 100 attribute pairs styled", sum(1 for k in oc if k.startswith("spec:") and "," in k) >= 100)
    run.floor(">= 150 style documents and >= 3 fixtures compared read-before-save vs not", run.counters["style_cases"] >= 150 and run.counters["fixture_cases"] >= 3)
    run.floor("fixtures contributed cells with borders", run.counters["fixture_cells_with_border"] >= 1)
    run.floor(">= 1 history in which two strokes overlap, >= 1 refused stroke that would have run on beyond the merged rectangle, >= 1 accepted stroke crossing "
              "interior edges, >= 1 stroke over an existing one after save+reopen",
              oc.get("s:overlap", 0) >= 1 and oc.get("s:refused+ext", 0) >= 1 and any(k.endswith("+cross") for k in oc) and oc.get("rs:overlap", 0) >= 1)
    run.floor("redraw triples [a, b sharing an edge with a, a again]: >= 1000 executed, >= 500 more with a save+reopen before the redraw; >= 400 strokes on a second table",
              sum(v for k, v in oc.items() if k.startswith("seq:s+s:")) >= 1000 and sum(v for k, v in oc.items() if k.startswith("seq:s+rs:")) >= 500
              and sum(v for k, v in oc.items() if k.endswith("@t1")) >= 400)
    run.floor("strokes on tables grown in this session were explored", any("@g:" in i for pl in run.extra.get("plan", []) for i in pl["inits"]))
    run.floor(">= 10000 stroke transitions and >= 1000 save/reopen probes", run.counters["transitions"] >= 10000 and run.counters["probes"] >= 1000)
    run.assume("border looks are three representatives (solid 2.0 red; dashes and dots of equal width 0.35 and colour); widths needing more than 2 decimals, the 'none' pattern, tables other than 3x3, "
               "more than one merged rectangle and histories longer than the depth bound are not explored")
    run.assume("style values outside the enumerated domains (other sizes/indents, the 16.7 million colours not on the lattice, gradients, which cannot be written) are represented, not enumerated; "
               "a style that is given both bg_image and bg_color is outside the statement (colour OR image)")
    run.assume("a stroke whose START cell's side lies inside the merged rectangle is refused as a whole with a RuntimeWarning (documented); the model paints nothing for it")
    cov = {
        "states": run.counters["states"],
        "transitions": run.counters["transitions"],
        "traces_validated_against_impl": run.counters["transitions"],
        "evaluations": run.counters["style_evaluations"] + run.counters["unstyled_evaluations"],
        "distinct_nontrivial": len(specs),
        "rule": "styles: distinct attribute dictionaries with at least one non-default attribute that were applied to at least one cell of a real document "
                "(each is read back in four views); borders are counted as states/transitions, not here",
        "explanation": "borders: every transition executes the real Table.set_cell_border on a real document and is compared with the unit-edge model on the open document; "
                       "every distinct state of the probing plans is saved, reopened and compared again. styles: complete products, each case built twice (with / without reading "
                       "every cell before save); evaluations = (cell, view) pairs whose 16 attributes were compared",
    }
    return run.finish(cov)


if __name__ == "__main__":
    sys.exit(main())
