"""C19 - sheet and table collections: unique names, consistent lookup, stable order.

Explicit-state exploration (mc.explore) of add_sheet / add_table / rename histories on real documents
against ordered lists of names; at EVERY state every integer index in [-2n, 2n] and every pool name
(and the existing names) is looked up on every collection; save+reopen probe at every distinct state.
Alphabets (SPECS): mixed pools, per-kind names closed under case variants, generated-looking names, and
names on which str.lower() and str.casefold() differ (tablesuni / sheetsuni).
"""
from __future__ import annotations

import os
import sys

from mc import explore
from mc.evidence import FIXTURES, Run, parse_args, run_replay
from mc.pool import Scratch

from numbers_parser import Document

PID = "C19"
POOL_FULL = [None, "Table 2", "table 2", "Sheet 2", "SHEET 2", "X", "", "É"]
POOL_QUICK = [None, "Table 2", "table 2", "Sheet 2", "SHEET 2", ""]
POOL_MIN = [None, "Table 2", "table 2"]
LOOKUP_NAMES = ["Table 0", "Table 01", "Sheet 0", "Sheet 01", "Table 1", "table 1", "Table 2", "table 2", "TABLE 2", "Sheet 1", "sheet 1", "Sheet 2", "SHEET 2", "sheet 2", "X", "x", "", "É", "é",
                "Table 3", "Sheet 3", "nope"]
MAX_ITEMS = 6
_n = [0]


def _tmp():
    _n[0] += 1
    return Scratch.path(f"c19-{os.getpid()}-{_n[0]}.numbers")


class State:
    pass


class Spec:
    def __init__(self, add_pool, rename_pool, kinds=("sheet", "table")):
        self.add_pool = add_pool
        self.rename_pool = rename_pool
        self.kinds = kinds

    def initial(self, init_id):
        st = State()
        kind, _, arg = init_id.partition(":")
        if kind == "fresh":
            st.doc = Document(num_rows=2, num_cols=2)
        else:
            st.doc = Document(os.path.join(FIXTURES, arg))
        st.ref = [[s.name, [t.name for t in s.tables]] for s in st.doc.sheets]
        st.loaded = kind != "fresh"
        st.saved = 0
        return st

    def enabled(self, st, depth_left):
        evs = []
        ref = st.ref
        if "sheet" in self.kinds and len(ref) < MAX_ITEMS:
            for nm in self.add_pool:
                evs.append(["add_sheet", nm])
        for si in sorted({0, len(ref) - 1}):
            if "table" in self.kinds and len(ref[si][1]) < MAX_ITEMS:
                for nm in self.add_pool:
                    evs.append(["add_table", si, nm])
            if "sheet" in self.kinds:
                for nm in self.rename_pool:
                    evs.append(["rename_sheet", si, nm])
            if "table" in self.kinds:
                for ti in sorted({0, len(ref[si][1]) - 1}):
                    for nm in self.rename_pool:
                        evs.append(["rename_table", si, ti, nm])
        if st.saved < 1:
            evs.append(["save"])  # the same open document keeps being edited after a save
        return evs

    def apply(self, st, ev):
        fails = []
        doc, ref = st.doc, st.ref
        kind = ev[0]
        outcome = "ok"
        before = [[s[0], list(s[1])] for s in ref]
        try:
            if kind == "add_sheet":
                nm = ev[1]
                sibs = [s[0].lower() for s in ref]
                dup = nm is not None and nm.lower() in sibs
                try:
                    doc.add_sheet(nm, num_rows=2, num_cols=2)
                except IndexError:
                    outcome = "IndexError"
                    if not dup:
                        fails.append(({"mechanism": "add_sheet", "class": "refused-fresh-name"}, f"add_sheet({nm!r}) refused although no sibling in {sibs} equals it ignoring case"))
                else:
                    if dup:
                        fails.append(({"mechanism": "add_sheet", "class": "duplicate-accepted"}, f"add_sheet({nm!r}) accepted although siblings are {sibs}"))
                    new = doc.sheets[len(ref)] if len(doc.sheets) > len(ref) else None
                    if new is None:
                        fails.append(({"mechanism": "add_sheet", "class": "not-appended"}, f"add_sheet({nm!r}) did not append a sheet"))
                    else:
                        if nm is None and new.name.lower() in sibs:
                            fails.append(({"mechanism": "add_sheet", "class": "auto-name-not-fresh"}, f"automatic sheet name {new.name!r} equals a sibling in {sibs} ignoring case"))
                        if nm is not None and new.name != nm:
                            fails.append(({"mechanism": "add_sheet", "class": "wrong-name"}, f"add_sheet({nm!r}) created {new.name!r}"))
                        ref.append([new.name, [t.name for t in new.tables]])
            elif kind == "add_table":
                _, si, nm = ev
                sibs = [t.lower() for t in ref[si][1]]
                dup = nm is not None and nm.lower() in sibs
                try:
                    new = doc.sheets[si].add_table(nm, num_rows=2, num_cols=2)
                except IndexError:
                    outcome = "IndexError"
                    if not dup:
                        fails.append(({"mechanism": "add_table", "class": "refused-fresh-name"}, f"add_table({nm!r}) refused although no sibling in {sibs} equals it ignoring case"))
                else:
                    if dup:
                        fails.append(({"mechanism": "add_table", "class": "duplicate-accepted"}, f"add_table({nm!r}) accepted although siblings are {sibs}"))
                    if nm is None and new.name.lower() in sibs:
                        fails.append(({"mechanism": "add_table", "class": "auto-name-not-fresh"}, f"automatic table name {new.name!r} equals a sibling in {sibs} ignoring case"))
                    if nm is not None and new.name != nm:
                        fails.append(({"mechanism": "add_table", "class": "wrong-name"}, f"add_table({nm!r}) created {new.name!r}"))
                    ref[si][1].append(new.name)
            elif kind == "save":
                p = _tmp()
                doc.save(p)
                os.unlink(p)
                st.saved += 1
            elif kind == "rename_sheet":
                _, si, nm = ev
                doc.sheets[si].name = nm
                ref[si][0] = nm
            elif kind == "rename_table":
                _, si, ti, nm = ev
                doc.sheets[si].tables[ti].name = nm
                ref[si][1][ti] = nm
        except Exception as e:  # noqa: BLE001
            fails.append(({"mechanism": kind, "class": f"raised-{type(e).__name__}"}, f"{ev}: raised {type(e).__name__}: {e}"))
            return fails, "unexpected-exception"
        if outcome == "IndexError" and ref != before:
            fails.append(({"mechanism": kind, "class": "changed-after-refusal"}, f"{ev}: reference changed"))
        fails += self.check_state(doc, ref, kind, "live")
        return fails, outcome

    def check_state(self, doc, ref, mech, view):
        fails = []
        got = [[s.name, [t.name for t in s.tables]] for s in doc.sheets]
        if got != ref:
            fails.append(({"mechanism": mech, "class": "names-or-order", "view": view}, f"{view}: iteration gives {got}, reference {ref}"))
            return fails
        colls = [("sheets", doc.sheets, [s[0] for s in ref])]
        for si, s in enumerate(doc.sheets):
            colls.append((f"sheets[{si}].tables", s.tables, ref[si][1]))
        for label, coll, names in colls:
            n = len(names)
            if len(coll) != n:
                fails.append(({"mechanism": "len", "class": "wrong-len", "view": view}, f"{view} len({label}) = {len(coll)} != {n}"))
            items = list(coll._items) if hasattr(coll, "_items") else None
            it_names = [x.name for x in coll]
            if it_names != names:
                fails.append(({"mechanism": "iteration", "class": "order", "view": view}, f"{view} iterating {label} gives {it_names} != {names}"))
            for i in range(-2 * n, 2 * n + 1):
                try:
                    r = ("ok", coll[i].name)
                except IndexError:
                    r = ("IndexError",)
                except Exception as e:  # noqa: BLE001
                    r = (type(e).__name__,)
                want = ("ok", names[i]) if -n <= i < n else ("IndexError",)
                if r != want:
                    cls = "below-minus-n" if i < -n else ("above-n" if i >= n else "in-range")
                    fails.append(({"mechanism": "index-lookup", "class": cls, "view": view}, f"{view} {label}[{i}] -> {r}, list semantics give {want} (n={n})"))
            for key in sorted(set(LOOKUP_NAMES) | set(names)):
                try:
                    item = coll[key]
                except (KeyError, IndexError):
                    item = None
                except Exception as e:  # noqa: BLE001
                    fails.append(({"mechanism": "name-lookup", "class": f"raised-{type(e).__name__}", "view": view}, f"{view} {label}[{key!r}] raised {type(e).__name__}"))
                    continue
                if item is None:
                    if key in names:
                        fails.append(({"mechanism": "name-lookup", "class": "existing-name-not-found", "view": view}, f"{view} {label}[{key!r}] not found although present in {names}"))
                elif item.name != key:
                    fails.append(({"mechanism": "name-lookup", "class": "inexact-match", "view": view}, f"{view} {label}[{key!r}] returned item named {item.name!r}"))
            _ = items
        return fails

    def probe(self, st):
        p = _tmp()
        fails = []
        try:
            st.doc.save(p)
            d2 = Document(p)
            fails += self.check_state(d2, st.ref, "save-reopen", "file")
        except Exception as e:  # noqa: BLE001
            fails.append(({"mechanism": "save-reopen", "class": f"raised-{type(e).__name__}"}, f"save/reopen raised {type(e).__name__}: {e}"))
        if os.path.exists(p):
            os.unlink(p)
        return fails

    def key(self, st):
        m = st.doc._model
        fp = sorted((k, len(v) if hasattr(v, "__len__") else 1) for k, v in m._cache.items())
        # hidden state of the collections themselves (anything besides the item list: cached name sets ...)
        skip = ("_items", "_model", "_data", "_cache")
        colls = [explore.generic_fingerprint(st.doc._sheets, skip)] + [explore.generic_fingerprint(s._tables, skip) for s in st.doc.sheets]
        items = [explore.generic_fingerprint(s, ("_tables", "_model")) for s in st.doc.sheets]
        return repr(st.ref) + repr((st.loaded, st.saved)) + repr(fp) + repr(colls) + repr(items)


SPECS = {
    "wide": Spec(POOL_QUICK, ["Table 2", "SHEET 2"]),
    "full": Spec(POOL_FULL, ["Table 2", "table 2", "Sheet 2", "X", "", "É"]),
    "min": Spec(POOL_MIN, ["Table 2", "SHEET 2"]),
    # complete depth-3/4 alphabets over names closed under case variants, one collection kind at a time:
    # every (query, rename, add) order is a history - e.g. refused add, rename of a sibling, add of its case variant
    "tables3": Spec([None, "table 1", "Table 2", "table 2"], ["Table 2", "table 1"], kinds=("table",)),
    "sheets3": Spec([None, "sheet 1", "Sheet 2", "sheet 2"], ["Sheet 2", "sheet 1"], kinds=("sheet",)),
    # names that look generated but are not what the generator would produce (zero, leading zero, the next number taken)
    "tablesgen": Spec([None, "Table 0", "Table 01", "Table 2"], ["Table 0"], kinds=("table",)),
    "sheetsgen": Spec([None, "Sheet 0", "Sheet 01", "Sheet 2"], ["Sheet 0"], kinds=("sheet",)),
    # names on which str.lower() and str.casefold() differ (sharp s, ligature): an exact duplicate and a case variant
    # of such a name must be refused like any other duplicate, and a lookup must find it
    "tablesuni": Spec([None, "Straße", "straße", "ﬁn"], ["Straße"], kinds=("table",)),
    "sheetsuni": Spec([None, "Straße", "straße", "ﬁn"], ["Straße"], kinds=("sheet",)),
}


def plan(tier):
    if tier == "quick":
        return [("wide", ["fresh:", "fixture:issue-77.numbers"], 2, True), ("tables3", ["fresh:"], 3, True), ("sheets3", ["fresh:"], 3, True), ("tablesgen", ["fresh:"], 3, True), ("sheetsgen", ["fresh:"], 3, True),
                ("tablesuni", ["fresh:"], 2, True), ("sheetsuni", ["fresh:"], 2, True), ("min", ["fixture:test-1.numbers"], 2, True)]
    return [("full", ["fresh:", "fixture:issue-77.numbers", "fixture:test-1.numbers"], 2, True), ("wide", ["fresh:", "fixture:issue-77.numbers"], 3, True),
            ("tables3", ["fresh:", "fixture:issue-77.numbers"], 4, True), ("sheets3", ["fresh:"], 4, True), ("tablesgen", ["fresh:"], 4, True), ("sheetsgen", ["fresh:"], 4, True),
            ("tablesuni", ["fresh:"], 3, True), ("sheetsuni", ["fresh:"], 3, True), ("min", ["fresh:"], 4, True)]


def main():
    args = parse_args()
    if args.replay:
        def rp(rep, payload):
            spec = SPECS[rep.get("spec", "full")]
            fails = explore.replay_history(spec, rep["init"], rep["history"], probe=rep.get("probe", False))
            return bool(fails), f"history {rep['init']} {rep['history']}: " + ("; ".join(d for _, d in fails[:3]) or "agrees with the ordered-name model")
        return run_replay(args, rp)
    run = Run(PID, "model_checking", args)
    for i, (sname, inits, depth, probe) in enumerate(plan(args.tier)):
        nb = len(run.failures)
        before = dict(run.counters)
        explore.explore(f"c19-{sname}", SPECS[sname], inits, depth, run, jobs=args.jobs, probe=probe, tag=f"#{i}@d{depth}")
        for rec in list(run.failures.values())[nb:]:
            if isinstance(rec["replay"], dict):
                rec["replay"].setdefault("spec", sname)
        run.extra.setdefault("plan", []).append({"pool": sname, "inits": inits, "depth": depth, "transitions": run.counters["transitions"] - before.get("transitions", 0),
                                                  "states": run.counters["states"] - before.get("states", 0)})
    run.floor("duplicate additions were refused at least once (IndexError outcome seen)", any(k.endswith(":IndexError") for k in run.outcomes))
    run.floor(">= 200 transitions and >= 50 save/reopen probes", run.counters["transitions"] >= 200 and run.counters["probes"] >= 50)
    cov = {"states": run.counters["states"], "transitions": run.counters["transitions"], "traces_validated_against_impl": run.counters["transitions"],
           "explanation": "every transition executes the real add_sheet/add_table/rename; at every state all indices in [-2n,2n] and all pool names are looked up on every collection"}
    run.assume("lookup of a missing name raises KeyError today; the statement does not fix that and it is not judged")
    return run.finish(cov)


if __name__ == "__main__":
    sys.exit(main())
