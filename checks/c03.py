"""C03 - any edit history leaves each table equal to a plain grid, before and after save.

Explicit-state exploration of the real Document/Sheet/Table objects (mc.explore) against a
list-of-lists reference model, with a save+reopen probe at every distinct state.
"""
from __future__ import annotations

import os
import sys
from datetime import datetime, timedelta

from mc import explore
from mc.evidence import FIXTURES, Run, parse_args, run_replay
from mc.pool import Scratch

from numbers_parser import Document

PID = "C03"

VALUES = {
    "s": "s",
    "i": 7,
    "f": 2.5,
    "b": True,
    "dt": datetime(2021, 3, 4, 5, 6, 7),
    "td": timedelta(days=1, seconds=2),
    "d": "d",
    "3": 3,
    "t": "café\nline 2",
    # falsy members of each supported type (a default or value that is tested for truthiness gets lost)
    "0": 0,
    "e": "",
    "F": False,
    "td0": timedelta(0),
}
CLASS_OF = {str: "TextCell", bool: "BoolCell", int: "NumberCell", float: "NumberCell", datetime: "DateCell",
            timedelta: "DurationCell", type(None): "EmptyCell"}

_counter = [0]


def _tmp(name):
    _counter[0] += 1
    return Scratch.path(f"c03-{os.getpid()}-{_counter[0]}-{name}.numbers")


class RefTable:
    """Plain grid of values; `cls` holds the cell class of cells that came from a loaded document
    (None = derived from the Python type of the value, i.e. the cell was written or created here)."""

    def __init__(self, name, grid, cls=None):
        self.name = name
        self.grid = grid
        self.cls = cls if cls is not None else [[None] * len(r) for r in grid]

    def set(self, r, c, val):
        for g, fill in ((self.grid, None), (self.cls, None)):
            while len(g) <= r:
                g.append([fill] * (len(g[0]) if g else 0))
            if len(g[0]) <= c:
                for row in g:
                    row.extend([fill] * (c + 1 - len(row)))
        self.grid[r][c] = val
        self.cls[r][c] = None

    def insert_rows(self, at, n, val):
        nc = self.nc
        self.grid[at:at] = [[val] * nc for _ in range(n)]
        self.cls[at:at] = [[None] * nc for _ in range(n)]

    def insert_cols(self, at, n, val):
        for row, crow in zip(self.grid, self.cls):
            row[at:at] = [val] * n
            crow[at:at] = [None] * n

    def delete_rows(self, start, n):
        for g in (self.grid, self.cls):
            if start is None:
                del g[-n:]
            else:
                del g[start : start + n]

    def delete_cols(self, start, n):
        for g in (self.grid, self.cls):
            for row in g:
                if start is None:
                    del row[-n:]
                else:
                    del row[start : start + n]

    def want_class(self, r, c):
        return self.cls[r][c] or CLASS_OF[type(self.grid[r][c])]

    @property
    def nr(self):
        return len(self.grid)

    @property
    def nc(self):
        return len(self.grid[0]) if self.grid else 0


class State:
    def __init__(self):
        self.docs = []  # real Document objects
        self.ref = []  # per doc: list of [sheet_name, [RefTable]]
        self.saves = 0
        self.loaded = []  # per doc: True when the live object was obtained by opening a file


def _grid_from_impl(t):
    return [[c.value for c in row] for row in t.rows()]


def _ref_from_doc(doc, loaded=False):
    out = []
    for s in doc.sheets:
        tabs = []
        for t in s.tables:
            cls = [[type(c).__name__ for c in row] for row in t.rows()] if loaded else None
            tabs.append(RefTable(t.name, _grid_from_impl(t), cls))
        out.append([s.name, tabs])
    return out


class Spec:
    """alphabet: 'full' or 'reduced'."""

    def __init__(self, alphabet="full", max_saves=2, max_tables=3):
        self.alphabet = alphabet
        self.max_saves = max_saves
        self.max_tables = max_tables
        self.second_save = False  # thorough: every probe saves twice (quick: 'save; save' histories only)

    # -- initial states ----------------------------------------------------------------------
    def initial(self, init_id):
        st = State()
        kind, _, arg = init_id.partition(":")
        if kind == "fresh":
            r, c = map(int, arg.split("x"))
            st.docs = [Document(num_rows=r, num_cols=c, num_header_rows=min(1, r - 1), num_header_cols=min(1, c - 1))]
        elif kind == "two":
            r, c = map(int, arg.split("x"))
            st.docs = [Document(num_rows=r, num_cols=c), Document(num_rows=r, num_cols=c)]
        elif kind == "fixture":
            st.docs = [Document(os.path.join(FIXTURES, arg))]
        elif kind == "tile":
            r, c = map(int, arg.split("x"))
            d = Document(num_rows=r, num_cols=c)
            t = d.sheets[0].tables[0]
            for rr in sorted({0, 254, 255, 256, r - 1}):
                if rr < r:
                    t.write(rr, 0, f"r{rr}")
            st.docs = [d]
        else:
            raise ValueError(init_id)
        st.ref = [_ref_from_doc(d, loaded=(kind == "fixture")) for d in st.docs]
        st.loaded = [kind == "fixture"] * len(st.docs)
        return st

    # -- alphabet ----------------------------------------------------------------------------
    def _active_tables(self, st, d):
        """(sheet index, table index) of the tables edits are addressed to: the first table of the
        document and the most recently added/last one (forced to share names and positions)."""
        out = []
        sheets = st.ref[d]
        out.append((0, 0))
        ls = len(sheets) - 1
        lt = len(sheets[ls][1]) - 1
        if (ls, lt) != (0, 0):
            out.append((ls, lt))
        if len(sheets[0][1]) > 1 and (0, len(sheets[0][1]) - 1) not in out:
            out.append((0, len(sheets[0][1]) - 1))
        return out[:2]

    def enabled(self, st, depth_left):
        full = self.alphabet in ("full", "medium")
        mini = self.alphabet == "mini"
        evs = []
        for d in range(len(st.docs)):
            for (s, t) in self._active_tables(st, d):
                rt = st.ref[d][s][1][t]
                nr, nc = rt.nr, rt.nc
                big = nr > 50
                vals = {"full": ["s", "i", "f", "b", "dt", "td", "0", "e"], "medium": ["s", "f", "dt", "0", "e"], "reduced": ["s", "0"], "mini": ["0", "i"]}[self.alphabet]  # mini: two values of the same type and stored size
                if big:
                    pos = sorted({(0, 0), (255, 0), (256, 0), (nr - 1, nc - 1), (nr, 0)} & {(r, c) for r in range(nr + 1) for c in range(nc)})
                    vals = ["s"]
                else:
                    pos = [(r, c) for r in range(nr) for c in range(nc)] if nr * nc <= 9 else [(0, 0), (nr // 2, nc // 2), (nr - 1, nc - 1), (0, nc - 1)]
                    pos += [(nr, 0), (0, nc), (nr + 1, nc + 1)] if full else [(nr, nc)]
                if self.alphabet == "mini":
                    pos = [(0, 0), (nr, nc)]
                for (r, c) in pos:
                    for v in vals:
                        evs.append(["write", d, s, t, r, c, v])
                ns = [1, 2] if full else [1]
                defaults = {"full": [None, "d", "0", "e", "F"], "medium": [None, "d", "0"], "reduced": [None, "d", "0"], "mini": [None, "0"]}[self.alphabet]
                if big:
                    ns, defaults = [1], [None]
                for axis, size in (("row", nr), ("col", nc)):
                    starts = [None] + sorted({0, size // 2, size - 1})
                    if mini:
                        starts = [None, 0]
                    if big:
                        starts = [None, 0, 255, 256] if axis == "row" else [None, 0]
                        starts = [x for x in starts if x is None or x < size]
                    for n in ns:
                        for start in starts:
                            for dv in defaults:
                                evs.append([f"add_{axis}", d, s, t, n, start, dv])
                            if (start if start is not None else size - n) + n <= size and size - n >= 1 and (start is not None or n <= size - 1):
                                evs.append([f"del_{axis}", d, s, t, n, start])
                    if mini:
                        continue
                    # out-of-range start: the statement's IndexError + unchanged state
                    evs.append([f"add_{axis}", d, s, t, 1, size, None])
                    evs.append([f"del_{axis}", d, s, t, 1, size])
                    # more than exists after the start index: refused (state unchanged) or clamped - never half-applied
                    if size >= 2:
                        evs.append([f"del_{axis}", d, s, t, 2, size - 1])
                    evs.append([f"del_{axis}", d, s, t, size + 1, None])
                    if full:
                        evs.append([f"add_{axis}", d, s, t, 1, -1, None])
                if not mini:
                    evs.append(["rename_table", d, s, t, "Renamed"])
            if mini:
                if st.saves < self.max_saves:
                    evs.append(["save", d])
                    evs.append(["reopen", d])
                continue
            ntab = sum(len(sh[1]) for sh in st.ref[d])
            if ntab < self.max_tables:
                evs.append(["add_table", d, 0, None, 2, 2])
                if full:
                    evs.append(["add_table", d, 0, "Table 1", 2, 2])  # duplicate -> IndexError, unchanged
                    evs.append(["add_table", d, len(st.ref[d]) - 1, "X", 3, 2])
                evs.append(["add_sheet", d, None, 2, 2])
                if full:
                    evs.append(["add_sheet", d, "Sheet 1", 2, 2])  # duplicate -> IndexError
            evs.append(["rename_sheet", d, 0, "Renamed"])
            if st.saves < self.max_saves:
                evs.append(["save", d])
                evs.append(["reopen", d])
        return evs

    # -- transition + step oracle ------------------------------------------------------------
    def apply(self, st, ev):
        kind = ev[0]
        d = ev[1]
        doc = st.docs[d]
        ref = st.ref[d]
        fails = []
        expect_exc = None
        outcome = "ok"

        def table(s, t):
            return doc.sheets[s].tables[t], ref[s][1][t]

        try:
            if kind == "write":
                _, _, s, t, r, c, v = ev
                tab, rt = table(s, t)
                val = VALUES[v]
                # reference: grow to exactly max(old, pos+1), then set
                tab.write(r, c, val)
                outcome = "grow" if (r >= rt.nr or c >= rt.nc) else "ok"
                rt.set(r, c, val)
            elif kind in ("add_row", "add_col"):
                _, _, s, t, n, start, dv = ev
                tab, rt = table(s, t)
                size = rt.nr if kind == "add_row" else rt.nc
                if start is not None and not (0 <= start < size):
                    expect_exc = IndexError
                dval = None if dv is None else VALUES[dv]
                if kind == "add_row":
                    tab.add_row(n, start, dval)
                    rt.insert_rows(rt.nr if start is None else start, n, dval)
                else:
                    tab.add_column(n, start, dval)
                    rt.insert_cols(rt.nc if start is None else start, n, dval)
            elif kind in ("del_row", "del_col"):
                _, _, s, t, n, start = ev
                tab, rt = table(s, t)
                size = rt.nr if kind == "del_row" else rt.nc
                if start is not None and not (0 <= start < size):
                    expect_exc = IndexError
                avail = size - (start or 0)
                over = expect_exc is None and n > avail
                if over:
                    # the statement does not say whether such a call is refused or clamped; either way the
                    # table must stay a grid: refused -> unchanged, accepted -> exactly the existing rows removed
                    try:
                        (tab.delete_row if kind == "del_row" else tab.delete_column)(n, start)
                    except IndexError:
                        outcome = "IndexError-over"
                    else:
                        outcome = "clamped"
                        if start is None:
                            start = 0
                        (rt.delete_rows if kind == "del_row" else rt.delete_cols)(start, avail)
                elif kind == "del_row":
                    tab.delete_row(n, start)
                    rt.delete_rows(start, n)
                else:
                    tab.delete_column(n, start)
                    rt.delete_cols(start, n)
            elif kind == "add_table":
                _, _, s, name, nr, nc = ev
                names = [x.name.lower() for x in ref[s][1]]
                if name is not None and name.lower() in names:
                    expect_exc = IndexError
                new = doc.sheets[s].add_table(name, num_rows=nr, num_cols=nc)
                ref[s][1].append(RefTable(new.name, [[None] * nc for _ in range(nr)]))
                if name is not None and new.name != name:
                    fails.append(({"mechanism": "add_table", "class": "name"}, f"add_table({name!r}) produced table named {new.name!r}"))
                if name is None and new.name.lower() in names:
                    fails.append(({"mechanism": "add_table", "class": "auto-name-not-fresh"}, f"automatic table name {new.name!r} collides with {names}"))
            elif kind == "add_sheet":
                _, _, name, nr, nc = ev
                names = [x[0].lower() for x in ref]
                if name is not None and name.lower() in names:
                    expect_exc = IndexError
                doc.add_sheet(name, num_rows=nr, num_cols=nc)
                new = doc.sheets[len(ref)]
                ref.append([new.name, [RefTable(new.tables[0].name, [[None] * nc for _ in range(nr)])]])
                if name is None and new.name.lower() in names:
                    fails.append(({"mechanism": "add_sheet", "class": "auto-name-not-fresh"}, f"automatic sheet name {new.name!r} collides with {names}"))
            elif kind == "rename_table":
                _, _, s, t, name = ev
                tab, rt = table(s, t)
                tab.name = name
                rt.name = name
            elif kind == "rename_sheet":
                _, _, s, name = ev
                doc.sheets[s].name = name
                ref[s][0] = name
            elif kind == "save":
                st.saves += 1
                path = _tmp("save")
                doc.save(path)
                fails += self._compare_file(path, ref, "save-event")
                os.unlink(path)
            elif kind == "reopen":
                st.saves += 1
                path = _tmp("reopen")
                doc.save(path)
                st.docs[d] = Document(path)
                st.loaded[d] = True
                os.unlink(path)
            else:
                raise ValueError(ev)
            if expect_exc is not None:
                fails.append(({"mechanism": kind, "class": "missing-IndexError"}, f"{ev}: expected IndexError, call succeeded"))
        except IndexError as e:
            outcome = "IndexError"
            if expect_exc is not IndexError:
                fails.append(({"mechanism": kind, "class": "unexpected-IndexError"}, f"{ev}: unexpected IndexError({e})"))
                return fails, "unexpected-exception"
        except Exception as e:  # noqa: BLE001
            fails.append(({"mechanism": kind, "class": f"raised-{type(e).__name__}"}, f"{ev}: raised {type(e).__name__}: {e}"))
            return fails, "unexpected-exception"
        # invariant on every state: every document equals its reference (isolation included)
        for di in range(len(st.docs)):
            fails += self._compare_live(st.docs[di], st.ref[di], kind, where=f"doc{di}" + ("" if di == d else " (other document)"))
        return fails, outcome

    # -- oracles -----------------------------------------------------------------------------
    def _compare_live(self, doc, ref, mech, where="live"):
        fails = []
        names = [(s.name, [t.name for t in s.tables]) for s in doc.sheets]
        want = [(s[0], [t.name for t in s[1]]) for s in ref]
        if names != want:
            fails.append(({"mechanism": mech, "class": "names-or-order", "view": where.split(" ")[0] if where.startswith("file") else "live"},
                          f"{where}: sheets/tables {names} != reference {want}"))
            return fails
        for s, (sheet, rs) in enumerate(zip(doc.sheets, ref)):
            for t, (tab, rt) in enumerate(zip(sheet.tables, rs[1])):
                view = "file" if where.startswith("file") else "live"
                if (tab.num_rows, tab.num_cols) != (rt.nr, rt.nc):
                    fails.append(({"mechanism": mech, "class": "dims", "view": view}, f"{where} [{s}][{t}]: dims {(tab.num_rows, tab.num_cols)} != reference {(rt.nr, rt.nc)}"))
                    continue
                rows = tab.rows()
                if len(rows) != rt.nr or any(len(r) != rt.nc for r in rows):
                    fails.append(({"mechanism": mech, "class": "ragged", "view": view}, f"{where} [{s}][{t}]: rows() shape {[len(r) for r in rows]} != {(rt.nr, rt.nc)}"))
                    continue
                vals = tab.rows(values_only=True)
                for r in range(rt.nr):
                    for c in range(rt.nc):
                        cell = rows[r][c]
                        want_v = rt.grid[r][c]
                        got_v = vals[r][c]
                        if not (got_v == want_v and type(cell).__name__ == rt.want_class(r, c)):
                            fails.append(({"mechanism": mech, "class": "cell-value", "view": view},
                                          f"{where} [{s}][{t}]({r},{c}): {type(cell).__name__} {got_v!r} != reference {want_v!r}"))
                        if (cell.row, cell.col) != (r, c):
                            fails.append(({"mechanism": mech, "class": "cell-position", "view": view},
                                          f"{where} [{s}][{t}]({r},{c}): cell reports position {(cell.row, cell.col)}"))
                        if len(fails) > 6:
                            return fails
        return fails

    def _compare_file(self, path, ref, tag):
        try:
            d2 = Document(path)
        except Exception as e:  # noqa: BLE001
            return [({"mechanism": tag, "class": f"reopen-raised-{type(e).__name__}", "view": "file"}, f"saved file does not reopen: {type(e).__name__}: {e}")]
        return self._compare_live(d2, ref, tag, where="file")

    def probe(self, st):
        """save -> live unchanged -> reopened file equals reference -> save again (repeatable)."""
        fails = []
        for d, doc in enumerate(st.docs):
            p1, p2 = _tmp("p1"), _tmp("p2")
            try:
                doc.save(p1)
                fails += self._compare_live(doc, st.ref[d], "probe-live-after-save", where=f"doc{d}")
                fails += self._compare_file(p1, st.ref[d], "probe-save")
                if self.second_save:
                    doc.save(p2)
                    fails += self._compare_file(p2, st.ref[d], "probe-second-save")
            except Exception as e:  # noqa: BLE001
                fails.append(({"mechanism": "probe-save", "class": f"raised-{type(e).__name__}"}, f"save raised {type(e).__name__}: {e}"))
            for p in (p1, p2):
                if os.path.exists(p):
                    os.unlink(p)
        # isolation across documents again after the saves
        return fails

    # -- canonical key -----------------------------------------------------------------------
    def key(self, st):
        parts = []
        for d, doc in enumerate(st.docs):
            parts.append(repr([(s[0], [(t.name, t.grid) for t in s[1]]) for s in st.ref[d]]))
            fp = [st.loaded[d], st.saves]
            m = doc._model
            for sheet in doc.sheets:
                for tab in sheet.tables:
                    tid = tab._table_id
                    mc_ = getattr(m, "_merge_cells", {})
                    fp.append(sorted(k for k, v in mc_[tid]._references.items() if v) if tid in mc_ else None)
                    for nm in ("_table_strings", "_table_formats", "_table_styles", "_table_formulas"):
                        dl = getattr(m, nm, None)
                        ent = getattr(dl, "_datalists", {}).get(tid) if dl is not None else None
                        fp.append((ent["next_key"], len(ent["by_key"])) if ent else None)
                    fp.append(sorted(k for k in getattr(tab, "_cache", {})))
            skip = ("_items", "_model", "_data", "_cache", "_tables")
            fp.append(explore.generic_fingerprint(doc._sheets, skip))
            for sheet in doc.sheets:
                fp.append(explore.generic_fingerprint(sheet, skip))
                fp.append(explore.generic_fingerprint(sheet._tables, skip))
                for tab in sheet.tables:
                    fp.append(explore.generic_fingerprint(tab, skip))
            fp.append(sorted((k, len(v) if hasattr(v, "__len__") else 1) for k, v in m._cache.items()))
            fp.append(sorted((k, sorted(v)) for k, v in getattr(m, "_row_heights", {}).items()))
            parts.append(repr(fp))
        return "|".join(parts)


SPECS = {
    "full": Spec("full"),
    "medium": Spec("medium"),
    "reduced": Spec("reduced"),
    "mini": Spec("mini"),
}


def plan(tier):
    """(spec name, init ids, depth, probe, max_states)"""
    if tier == "quick":
        return [
            ("medium", ["fresh:2x2"], 2, True, None),
            ("reduced", ["fixture:test-1.numbers"], 2, True, None),
            ("reduced", ["two:2x2"], 1, True, None),
            ("reduced", ["two:2x2", "fresh:1x1", "fresh:2x3"], 2, False, None),
            ("mini", ["fresh:2x2"], 3, True, None),
            ("reduced", ["tile:256x2", "tile:257x2"], 1, True, None),
        ]
    return [
        ("full", ["fresh:2x2"], 2, True, None),
        ("medium", ["fresh:1x1", "fresh:2x3", "fixture:test-1.numbers", "fixture:issue-3.numbers"], 2, True, None),
        ("medium", ["fresh:2x2"], 3, False, None),
        ("reduced", ["two:2x2"], 2, True, None),
        ("reduced", ["two:2x2", "fresh:2x2"], 3, False, None),
        ("mini", ["fresh:2x2"], 3, True, None),
        ("mini", ["fresh:1x1"], 4, True, None),
        ("reduced", ["tile:255x2", "tile:256x2", "tile:257x2"], 1, True, None),
    ]


def main():
    args = parse_args()
    if args.replay:
        def rp(rep, payload):
            spec = SPECS[rep.get("spec", "full")]
            fails = explore.replay_history(spec, rep["init"], rep["history"], probe=rep.get("probe", False))
            want = payload["ident"]
            hit = [d for i, d in fails if i == want] or [d for i, d in fails]
            return bool(fails), f"history {rep['init']} {rep['history']}: " + ("; ".join(hit[:3]) or "agrees with the reference grid")
        return run_replay(args, rp)
    run = Run(PID, "model_checking", args)
    run.max_samples = 10
    for sp in SPECS.values():
        sp.second_save = args.tier == "thorough"
    for i, (sname, inits, depth, probe, cap) in enumerate(plan(args.tier)):
        spec = SPECS[sname]
        before = dict(run.counters)
        # tag replay payloads with the spec: wrap merge through a small shim
        n_fail_before = len(run.failures)
        explore.explore(f"c03-{sname}", spec, inits, depth, run, jobs=args.jobs, probe=probe, max_states=cap, tag=f"#{i}:{','.join(inits)}@d{depth}")
        for k, rec in list(run.failures.items())[n_fail_before:]:
            if isinstance(rec["replay"], dict):
                rec["replay"].setdefault("spec", sname)
        run.extra.setdefault("plan", []).append({"alphabet": sname, "inits": inits, "depth": depth, "probe_every_state": probe,
                                                  "transitions": run.counters["transitions"] - before.get("transitions", 0),
                                                  "states": run.counters["states"] - before.get("states", 0)})
    ev_types = {k.split(":")[0] for k in run.outcomes}
    run.floor(">= 9 distinct event types executed", len(ev_types) >= 9)
    run.floor("expected-IndexError transitions were exercised", any(k.endswith(":IndexError") for k in run.outcomes))
    run.floor(">= 100 save+reopen probes", run.counters["probes"] >= 100)
    run.floor(">= 1000 transitions", run.counters["transitions"] >= 1000)
    cov = {
        "states": run.counters["states"],
        "transitions": run.counters["transitions"],
        "traces_validated_against_impl": run.counters["transitions"],
        "explanation": "every transition is an execution of the real Document/Table API compared with the list-of-lists model after the step; "
                       "traces_validated_against_impl therefore equals transitions",
    }
    run.assume("loaded initial states are fixtures without merged cells (merged ranges under structural edits are C12's subject; the grid model here has no merges)")
    run.assume("histories longer than the depth bound, more than 3 tables per document and values outside the 6-value alphabet are not explored")
    return run.finish(cov)


if __name__ == "__main__":
    sys.exit(main())
