"""C14 - displayed dates and durations agree with the stored value.

Bounded exhaustive enumeration (depth-1 input space), every point executed on real documents:

  dates      every directive x the whole domain of the field it depends on: all 14 calendars (7 weekdays
             of 1 January x leap / common year, every day of each) for the 14 date directives; all 1440
             hour:minute pairs (seconds cycle through 0..59) for the 13 clock directives; every year 1..9999
             for y/yy/yyyy/G; all millisecond multiples (thorough: all 100 000 values of the 5-digit field)
             for S..SSSSS; every directive x a set of extreme instants.
  formats    all 36 x 36 ordered directive pairs x 20 templates (6 separators, digits, escaped apostrophes,
             quoted text incl. quoted directive names, doubled quotes, non-ASCII) x 3 instants, through both
             public routes (set_cell_formatting "datetime" and named custom date formats); thorough adds
             all ordered triples over one directive per field class.
  durations  a millisecond-resolution value grid 0..10 years (unit multiples +-1 ms) x all 21
             largest/smallest unit pairs x 3 styles, plus automatic units x 3 styles, through the narrow
             seam `_table_formats.lookup_key` + `cell._duration_format_id`; every formatted duration cell
             of tests/data/duration_112.numbers as a cross-check on formats written by Numbers.

Every date format is read in these phases: `live` (cell written with Table.write, right after
set_cell_formatting), `reopened` (after Document.save + Document(path)), `relive` / `relive-new` (a loaded
cell that gets another case's format, read without saving) and `resaved` (the saved file is opened again,
the cells of ONE route get another case's format - the only edit of that table between load and save, no
write and no other setter - and the document is saved and reopened once more: a format set on a loaded cell
must also be what the next reader of the file sees). Oracle: mc/ref_datefmt.py (integer arithmetic from
docs/api/datetime.rst; no strftime).
"""
from __future__ import annotations

import itertools
import json
import os
import sys
from datetime import datetime, timedelta

from mc import ref_datefmt as ref
from mc.evidence import FIXTURES, REPO, Part, Run, parse_args, run_replay
from mc.pool import Scratch, pmap, shards

from numbers_parser import Document
from numbers_parser.cell import DateCell, DurationCell
from numbers_parser.constants import FormatType
from numbers_parser.generated import TSKArchives_pb2 as TSKArchives

PID = "C14"
COLS = 16
BATCH = 1024

DATE_DIRS = [d for d in ref.NAMES if ref.DIRECTIVES[d][0] == "date"]
CLOCK_DIRS = [d for d in ref.NAMES if ref.DIRECTIVES[d][0] in ("hour", "minute", "second")]
YEAR_DIRS = [d for d in ref.NAMES if ref.DIRECTIVES[d][0] == "year"]
SUB_DIRS = [d for d in ref.NAMES if ref.DIRECTIVES[d][0] == "subsecond"]
TRIPLE_DIRS = ["a", "EEE", "yy", "MMM", "d", "D", "HH", "h", "k", "K", "m", "ss", "W", "ww", "G", "F", "SSS"]


# ------------------------------------------------------------------------------------------
# case construction.  A date case is ["date", route, parts, instant(7 ints), template];
# a duration case is ["dur", style, largest, smallest, auto, milliseconds]; ["fixture-dur", name].
def F(d):
    return ["f", d]


def L(t):
    return ["l", t]


def Q(t):
    return ["q", t]


PAIR_TEMPLATES = [
    # name, route, builder(a, b)
    ("a b", "dt", lambda a, b: [F(a), L(" "), F(b)]),
    ("a/b", "dt", lambda a, b: [F(a), L("/"), F(b)]),
    ("a:b", "dt", lambda a, b: [F(a), L(":"), F(b)]),
    ("a, b", "dt", lambda a, b: [F(a), L(", "), F(b)]),
    ("a-b", "dt", lambda a, b: [F(a), L("-"), F(b)]),
    ("a.b", "dt", lambda a, b: [F(a), L("."), F(b)]),
    ("a 1 b", "dt", lambda a, b: [F(a), L(" 1 "), F(b)]),
    ("a '' b", "dt", lambda a, b: [F(a), L(" ' "), F(b)]),
    ("''a b''", "dt", lambda a, b: [L("'"), F(a), L(" "), F(b), L("'")]),
    ("a''b", "dt", lambda a, b: [F(a), L("'"), F(b)]),
    ("a'' b", "dt", lambda a, b: [F(a), L("' "), F(b)]),
    ("'a' b", "dt", lambda a, b: [Q(a), L(" "), F(b)]),
    ("a 'b'", "dt", lambda a, b: [F(a), L(" "), Q(b)]),
    ("cu:a b", "cu", lambda a, b: [F(a), L(" "), F(b)]),
    ("a'x'b", "cu", lambda a, b: [F(a), Q("x"), F(b)]),
    ("'x'a b", "cu", lambda a, b: [Q("x"), F(a), L(" "), F(b)]),
    ("a b'x'", "cu", lambda a, b: [F(a), L(" "), F(b), Q("x")]),
    ("a 'it''s' b", "cu", lambda a, b: [F(a), L(" "), Q("it's"), L(" "), F(b)]),
    ("a' 'b", "cu", lambda a, b: [F(a), Q(" "), F(b)]),
    ("a'年é'b", "cu", lambda a, b: [F(a), Q("年é"), F(b)]),
]
TRIPLE_TEMPLATES = [
    ("a b, c", "dt", lambda a, b, c: [F(a), L(" "), F(b), L(", "), F(c)]),
    ("a'x'b 'y' c", "cu", lambda a, b, c: [F(a), Q("x"), F(b), L(" "), Q("y"), L(" "), F(c)]),
]

INSTANT_POOL = [
    (2024, 2, 29, 0, 5, 9, 123456), (1999, 12, 31, 23, 59, 59, 999999), (2001, 1, 1, 12, 0, 0, 0),
    (2022, 5, 30, 13, 7, 3, 40506), (2000, 2, 29, 12, 30, 1, 900000), (2038, 1, 19, 3, 14, 7, 1),
    (1970, 1, 1, 0, 0, 0, 999), (2023, 10, 1, 11, 59, 0, 500000), (1900, 3, 1, 21, 8, 45, 99999),
]
EXTREMES = [
    (1, 1, 1, 0, 0, 0, 0), (1, 12, 31, 23, 59, 59, 0), (9999, 12, 31, 23, 59, 59, 0), (9999, 1, 1, 0, 0, 0, 0),
    (1582, 10, 4, 12, 0, 0, 0), (1582, 10, 15, 12, 0, 0, 0), (1899, 12, 31, 23, 59, 59, 0), (1900, 1, 1, 0, 0, 0, 0),
    (1900, 2, 28, 23, 59, 59, 999999), (1900, 3, 1, 0, 0, 0, 0), (1969, 12, 31, 23, 59, 59, 999999),
    (1970, 1, 1, 0, 0, 0, 0), (2000, 1, 1, 0, 0, 0, 0), (2000, 2, 29, 12, 0, 0, 0), (2000, 12, 31, 23, 59, 59, 999999),
    (2001, 1, 1, 0, 0, 0, 0), (2001, 1, 1, 0, 0, 0, 1), (2016, 2, 29, 23, 59, 59, 999999), (2024, 2, 29, 0, 0, 0, 0),
    (2024, 2, 29, 23, 59, 59, 999999), (2024, 12, 31, 12, 0, 0, 0), (2023, 12, 31, 12, 0, 0, 0), (2023, 1, 1, 0, 0, 0, 0),
    (2024, 1, 1, 0, 0, 0, 0), (2100, 12, 31, 23, 59, 59, 999999), (2100, 2, 28, 12, 0, 0, 0), (2101, 1, 1, 0, 0, 0, 0),
    (2018, 1, 1, 12, 0, 0, 0), (2018, 12, 31, 12, 0, 0, 0), (2012, 12, 31, 12, 0, 0, 0), (2012, 1, 1, 0, 0, 1, 0),
    (2022, 5, 30, 12, 0, 0, 0), (2022, 5, 30, 0, 0, 0, 0), (2022, 5, 30, 11, 59, 59, 999999), (2022, 5, 30, 12, 59, 59, 0),
    (2022, 5, 30, 10, 10, 10, 100000), (2022, 5, 30, 20, 20, 20, 200000), (2022, 5, 30, 23, 0, 0, 0),
]


def calendar_years(seed):
    """One year per calendar class (weekday of 1 January x leap), all 14, from 1900..2100; the seed
    rotates which concrete year stands for a class."""
    classes = {}
    for y in range(1901, 2100):
        classes.setdefault((ref.weekday(datetime(y, 1, 1)), ref.is_leap(y)), []).append(y)
    return [ys[seed % len(ys)] for _, ys in sorted(classes.items())]


SINGLE = {d: [F(d)] for d in ref.NAMES}  # shared part lists keep the case tables small


def gen_group(group, tier, seed):
    thorough = tier == "thorough"
    out = []
    if group == "single-date":
        for y in calendar_years(seed):
            n = 366 if ref.is_leap(y) else 365
            for i in range(n):
                day = datetime(y, 1, 1) + timedelta(days=i)
                tod = (i * 7919 + seed * 101 + 43) % 86400
                inst = (day.year, day.month, day.day, tod // 3600, tod // 60 % 60, tod % 60, 0)
                for d in DATE_DIRS:
                    out.append(["date", "dt", SINGLE[d], inst, "single"])
    elif group == "single-clock":
        base = INSTANT_POOL[seed % len(INSTANT_POOL)][:3]
        for idx in range(1440):
            inst = (*base, idx // 60, idx % 60, idx * 37 % 60, 0)
            for d in CLOCK_DIRS:
                out.append(["date", "dt", SINGLE[d], inst, "single"])
        for s in range(60):
            inst = (*base, (s * 5 + seed) % 24, 59 - s, s, 0)
            for d in ("s", "ss", "m", "mm"):
                out.append(["date", "dt", SINGLE[d], inst, "single"])
    elif group == "single-year":
        for y in range(1, 10000):
            inst = (y, (y + seed) % 12 + 1, (y * 3 + seed) % 28 + 1, y % 24, y % 60, (y * 7) % 60, 0)
            for d in YEAR_DIRS:
                out.append(["date", "dt", SINGLE[d], inst, "single"])
    elif group == "single-subsecond":
        base = INSTANT_POOL[seed % len(INSTANT_POOL)][:6]
        us = {0, 1, 9, 10, 11, 99, 100, 101, 999, 1000, 1001, 9999, 10000, 10001, 99999, 100000, 100001, 123456,
              499999, 500000, 899999, 900000, 999989, 999990, 999998, 999999}
        us.update(k * 100_000 for k in range(10))
        if thorough:
            us.update(k * 10 + (k + seed) % 10 for k in range(100_000))
        else:
            us.update(k * 1000 + (k * 7 + seed) % 1000 for k in range(1000))
            us.update(k * 1000 for k in range(1000))
        for u in sorted(us):
            inst = (*base, u)
            for d in SUB_DIRS:
                out.append(["date", "dt", SINGLE[d], inst, "single"])
    elif group == "cross":
        for inst in EXTREMES + INSTANT_POOL:
            for d in ref.NAMES:
                out.append(["date", "dt" if (len(out) % 2 == 0) else "cu", SINGLE[d], inst, "single"])
    elif group == "pairs":
        k = 8 if thorough else 3
        insts = [INSTANT_POOL[(seed + j) % len(INSTANT_POOL)] for j in range(k)]
        for name, route, build in PAIR_TEMPLATES:
            for a in ref.NAMES:
                for b in ref.NAMES:
                    parts = build(a, b)
                    for inst in insts:
                        out.append(["date", route, parts, inst, name])
    elif group == "triples":
        if thorough:
            insts = [INSTANT_POOL[(seed + j) % len(INSTANT_POOL)] for j in range(2)]
            for name, route, build in TRIPLE_TEMPLATES:
                for a, b, c in itertools.product(TRIPLE_DIRS, repeat=3):
                    parts = build(a, b, c)
                    for inst in insts:
                        out.append(["date", route, parts, inst, name])
    elif group == "duration":
        for ms in duration_values(thorough):
            for style in (0, 1, 2):
                for lg, sm in ref.unit_pairs():
                    out.append(["dur", style, lg, sm, False, ms])
                out.append(["dur", style, "week", "millisecond", True, ms])
                out.append(["dur", style, "week", None, True, ms])
    return out


TEN_YEARS_MS = 3650 * 86_400_000


def duration_values(thorough):
    vals = {0, TEN_YEARS_MS, TEN_YEARS_MS - 1, 90_061_001, 694_861_001, 3_661_001, 61_001, 1_001, 59_999, 3_599_999,
            86_399_999, 604_799_999, 119_999, 7_199_999, 172_799_999, 1_209_599_999}
    for u in ref.UNIT_MS.values():
        for k in (1, 2, 9, 10, 11, 23, 24, 25, 59, 60, 61, 99, 100, 101, 999, 1000, 1001):
            for delta in (-1, 0, 1):
                v = k * u + delta
                if 0 <= v <= TEN_YEARS_MS:
                    vals.add(v)
    if thorough:
        vals.update(range(0, 2001))                                    # every millisecond up to 2 s
        vals.update(s * 1000 for s in range(0, 3700))                  # every second up to > 1 h
        vals.update(s * 1000 + 999 for s in range(0, 3700, 7))
        vals.update(m * 60_000 for m in range(0, 1500))                # every minute up to > 1 d
        vals.update(h * 3_600_000 for h in range(0, 400))              # every hour up to > 2 w
        vals.update(d * 86_400_000 for d in range(0, 3651, 5))
    return sorted(vals)


GROUPS = ["single-date", "single-clock", "single-year", "single-subsecond", "cross", "pairs", "triples", "duration"]
_CASES = {}  # group -> case list, filled by main() before the pool forks (workers share it copy-on-write)


# ------------------------------------------------------------------------------------------
# evaluation
def _get(fn):
    try:
        return ("ok", fn())
    except Exception as e:  # noqa: BLE001
        return ("exc", f"{type(e).__name__}: {e}"[:200])


def nontrivial(parts):
    return any(p[0] == "f" and p[1] != "G" for p in parts)


def apply_date_format(doc, table, r, c, route, parts, customs, reuse=None):
    """Attach a date format through one of the two public routes. reuse = names of custom formats already
    stored in a loaded document (they are then selected by name instead of being added again)."""
    fmt = ref.format_text(parts)
    if route == "dt":
        table.set_cell_formatting(r, c, "datetime", date_time_format=fmt)
    elif reuse is not None and fmt in reuse:
        table.set_cell_formatting(r, c, "custom", format=reuse[fmt])
    else:
        if fmt not in customs:
            name = f"{'r' if reuse is not None else 'c'}{len(customs)}"
            customs[fmt] = doc.add_custom_format(type="datetime", name=name, format=fmt)
        table.set_cell_formatting(r, c, "custom", format=customs[fmt])


def judge_date(case, phase, cell, out, stats, prev=None):
    """Compare one displayed date with the reference; append (ident, detail, replay-case) on failure.
    prev = the parts of the format the cell carried before this case's format was set (resaved phase)."""
    _, route, parts, inst, template = case
    single = template == "single"
    cls = parts[0][1] if single else template
    fmt = ref.format_text(parts)
    written = datetime(*inst)
    v = _get(lambda: cell.value)
    if v[0] != "ok" or not isinstance(cell, DateCell) or v[1] != written:
        out.append(({"mechanism": "value-roundtrip", "kind": "date", "phase": phase},
                    f"cell written with {written!r} holds {v} ({type(cell).__name__}) in phase {phase}", case))
        return
    value = v[1]
    segs = ref.segments(parts, value)
    got = _get(lambda: cell.formatted_value)
    stats["evaluations"] += 1
    stats[f"date_renderings_{phase}"] += 1
    if nontrivial(parts):
        stats["keys"].add(hash((fmt, tuple(inst))))
    want = ref.expected_text(segs)
    if got[0] == "ok" and ref.matches(segs, got[1]):
        stats["agree"] += 1
        if single and phase == "reopened":
            stats.setdefault("shown:" + cls, set()).add(got[1].lstrip("0") or "0")
        return
    detail = f"format {fmt!r} ({route}) on {value.isoformat(' ')} [{phase}]: displayed {got[1]!r}, reference {want!r}"
    if got[0] == "exc" and route == "cu" and got[1].startswith("KeyError"):
        ident = {"mechanism": "custom-format-lookup", "phase": phase, "pattern": "raised:KeyError"}
    elif got[0] == "exc":
        ident = {"mechanism": "directive" if single else "scanner", "class": cls, "phase": phase,
                 "pattern": "raised:" + got[1].split(":")[0]}
    elif phase == "live" and got[1] == str(value):
        ident = {"mechanism": "live-written-cell", "kind": "date", "pattern": "format-ignored"}
    elif phase == "resaved" and prev is not None and ref.matches(ref.segments(prev, value), got[1]):
        ident = {"mechanism": "format-set-on-loaded-cell", "route": route, "phase": phase, "pattern": "previous-format-shown"}
        detail += f" (= the format {ref.format_text(prev)!r} the cell had when the file was loaded: the new format was not saved)"
    elif phase == "resaved" and got[1] == str(value):
        ident = {"mechanism": "format-set-on-loaded-cell", "route": route, "phase": phase, "pattern": "format-ignored"}
    else:
        spat = scanner_pattern(template, parts, value, got[1])
        who = ref.blame(parts, segs, got[1]) if spat == "structure" else None
        if who is not None:
            w = segs[[j for j, p in enumerate(parts) if p[0] == "f" and p[1] == who][0]]
            g = got[1]
            if single and g.isdigit() and str(w).isdigit() and int(g) == int(w):
                pat = "padding"
            else:
                pat = "wrong-value"
            ident = {"mechanism": "directive", "class": who, "phase": phase, "pattern": pat}
        else:
            ident = {"mechanism": "scanner", "class": template, "phase": phase, "pattern": spat}
    out.append((ident, detail, case))


def unflushed_apostrophe_model(parts, value):
    """Model of the one understood scanner defect: an escaped apostrophe ('') does not terminate the
    directive that precedes it - the apostrophe is emitted first and the field goes on collecting letters
    (so  HH''mm  reads the unknown field 'HHmm' and displays just an apostrophe)."""
    segs = []
    pending = ""

    def flush():
        nonlocal pending
        if pending:
            segs.append(ref.field(pending, value) if pending in ref.DIRECTIVES else "")
            pending = ""

    for kind, text in parts:
        if kind == "f":
            pending += text
        elif kind == "q":
            flush()
            segs.append(text)
        else:
            for ch in text:
                if ch != "'":
                    flush()
                segs.append(ch)
    flush()
    return segs


def scanner_pattern(template, parts, value, got):
    """Name the understood wrong pattern; anything else is 'structure'."""
    if got == "":
        return "empty"
    if got == str(value):
        return "format-ignored"
    if any(k == "l" and "'" in t for k, t in parts) and ref.matches(unflushed_apostrophe_model(parts, value), got):
        return "apostrophe-before-pending-field"
    return "structure"


def eval_date_batch(cases, stats):
    out = []
    n = len(cases)
    rows = -(-n // COLS)
    doc = Document(num_rows=max(rows, 1), num_cols=COLS, num_header_rows=0, num_header_cols=0)
    table = doc.sheets[0].tables[0]
    customs = {}
    applied = [False] * n
    for i, case in enumerate(cases):
        r, c = divmod(i, COLS)
        _, route, parts, inst, template = case
        table.write(r, c, datetime(*inst))
        res = _get(lambda: apply_date_format(doc, table, r, c, route, parts, customs))
        if res[0] == "exc":
            cls = parts[0][1] if template == "single" else template
            out.append(({"mechanism": "validation", "class": cls, "phase": "live", "pattern": "raised:" + res[1].split(":")[0]},
                        f"set_cell_formatting({ref.format_text(parts)!r}, route {route}) raised {res[1]}", case))
            continue
        applied[i] = True
        if ref.uses_subsecond(parts) and not ref.subsecond_resolved(datetime(*inst)):
            continue
        judge_date(case, "live", table.cell(r, c), out, stats)
    path = os.path.join(Scratch.dir(), f"c14-{os.getpid()}.numbers")
    doc.save(path)
    doc2 = Document(path)
    table2 = doc2.sheets[0].tables[0]
    for i, case in enumerate(cases):
        if not applied[i]:
            continue
        r, c = divmod(i, COLS)
        if ref.uses_subsecond(case[2]) and not ref.subsecond_resolved(datetime(*case[3])):
            continue
        judge_date(case, "reopened", table2.cell(r, c), out, stats)
    # relive: every loaded cell takes the format of the next case (its own instant), read without saving.
    # A custom format is first selected by the name it is stored under, then added again as a new format
    # ("relive-new": add_custom_format on a document whose formats have already been displayed).
    stored = {k: v.name for k, v in customs.items()}
    customs2 = {}
    for i, case in enumerate(cases):
        nxt = cases[(i + 1) % n]
        if not applied[i] or not applied[(i + 1) % n]:
            continue
        r, c = divmod(i, COLS)
        new = ["date", nxt[1], nxt[2], case[3], nxt[4]]
        if ref.uses_subsecond(new[2]) and not ref.subsecond_resolved(datetime(*new[3])):
            continue
        for phase, reuse in (("relive", stored), ("relive-new", {})) if new[1] == "cu" else (("relive", stored),):
            res = _get(lambda: apply_date_format(doc2, table2, r, c, new[1], new[2], customs2, reuse=reuse))  # noqa: B023
            if res[0] == "exc":
                out.append(({"mechanism": "validation", "class": new[4], "phase": phase, "pattern": "raised:" + res[1].split(":")[0]},
                            f"set_cell_formatting({ref.format_text(new[2])!r}) on a loaded cell raised {res[1]}", new))
                continue
            judge_date(new, phase, table2.cell(r, c), out, stats)
    # resaved: the saved file is loaded afresh once per route; the loaded cells of that route take the format
    # of the next case of the same route (custom formats alternately by stored name / newly added) and NOTHING
    # else touches the table before the document is saved and reopened a second time.
    for route in ("dt", "cu"):
        idx = [i for i, case in enumerate(cases) if applied[i] and case[1] == route]
        if not idx:
            continue
        doc3 = Document(path)
        table3 = doc3.sheets[0].tables[0]
        customs3 = {}
        news = {}
        for k, i in enumerate(idx):
            # the next case of this route with a DIFFERENT format, so that a lost edit shows; when there is none
            # (e.g. --replay of one case) the cell's own format is extended instead
            j = next((idx[(k + d) % len(idx)] for d in range(1, min(len(idx), 64)) if cases[idx[(k + d) % len(idx)]][2] != cases[i][2]), i)
            parts = cases[j][2] if j != i else [*cases[i][2], L(" "), F("G")]
            new = ["date", route, parts, cases[i][3], cases[j][4]]
            if ref.uses_subsecond(parts) and not ref.subsecond_resolved(datetime(*new[3])):
                continue
            r, c = divmod(i, COLS)
            res = _get(lambda: apply_date_format(doc3, table3, r, c, route, parts, customs3, reuse=stored if k % 2 == 0 else {}))  # noqa: B023
            if res[0] == "exc":
                out.append(({"mechanism": "validation", "class": new[4], "phase": "resaved", "pattern": "raised:" + res[1].split(":")[0]},
                            f"set_cell_formatting({ref.format_text(parts)!r}) on a loaded cell raised {res[1]}", new))
                continue
            news[i] = new
        path2 = os.path.join(Scratch.dir(), f"c14-{os.getpid()}-b.numbers")
        doc3.save(path2)
        table4 = Document(path2).sheets[0].tables[0]
        os.unlink(path2)
        for i, new in news.items():
            r, c = divmod(i, COLS)
            stats[f"resaved_{route}"] += 1
            judge_date(new, "resaved", table4.cell(r, c), out, stats, prev=cases[i][2])
    os.unlink(path)
    return out


def duration_archive(style, largest, smallest, auto):
    return TSKArchives.FormatStructArchive(
        format_type=FormatType.DURATION,
        duration_style=style,
        duration_unit_largest=ref.UNIT_CODE[largest],
        duration_unit_smallest=ref.UNIT_CODE[smallest] if smallest else 0,
        use_automatic_duration_units=auto,
    )


def set_duration_format(doc, table, cell, style, largest, smallest, auto):
    """The narrow seam: no public setter exists for duration formats."""
    cell._duration_format_id = doc._model._table_formats.lookup_key(table._table_id, duration_archive(style, largest, smallest, auto))


def judge_duration(doc, table, cell, cfg, total_ms, phase, case, out, stats):
    style, largest, smallest, auto = cfg
    got = _get(lambda: cell.formatted_value)
    stats["evaluations"] += 1
    stats[f"duration_renderings_{phase}"] += 1
    stats["dur_keys"].add(hash((style, largest, smallest, auto, total_ms)))
    ident0 = {"mechanism": "duration", "style": ref.STYLES[style], "auto": bool(auto), "phase": phase}
    head = f"duration {total_ms} ms, style {ref.STYLES[style]}, units {largest}..{smallest}{' (automatic)' if auto else ''} [{phase}]"
    if got[0] == "exc":
        out.append(({**ident0, "pattern": "raised:" + got[1].split(":")[0]}, f"{head}: formatted_value raised {got[1]}", case))
        return
    text = got[1]
    units = None
    if not auto:
        units = ref.units_between(largest, smallest)
    elif style == 0:
        # compact text carries no unit names: take the units the library shows for the same value
        # and the same automatic setting in the labelled (short) style
        keep = cell._duration_format_id
        set_duration_format(doc, table, cell, 1, largest, smallest, True)
        probe = _get(lambda: cell.formatted_value)
        cell._duration_format_id = keep
        try:
            units = [u for u, _ in ref.read_duration(probe[1], 1)] if probe[0] == "ok" else None
        except ValueError:
            units = None
        if units is None:
            out.append(({**ident0, "pattern": "unit-probe-unreadable"}, f"{head}: short-style probe gave {probe}", case))
            return
    ok, pat, shown, why = ref.check_duration(text, style, total_ms, units)
    if ok:
        stats["agree"] += 1
        stats["dur_shapes"].add((style, tuple(shown)))
        if auto:
            stats["auto_shapes"].add(tuple(shown))
        return
    out.append(({**ident0, "pattern": pat}, f"{head}: displayed {text!r}: {why}", case))


def eval_duration_batch(cases, stats):
    out = []
    n = len(cases)
    rows = -(-n // COLS)
    doc = Document(num_rows=max(rows, 1), num_cols=COLS, num_header_rows=0, num_header_cols=0)
    table = doc.sheets[0].tables[0]
    for i, case in enumerate(cases):
        r, c = divmod(i, COLS)
        _, style, lg, sm, auto, ms = case
        table.write(r, c, timedelta(milliseconds=ms))
        set_duration_format(doc, table, table.cell(r, c), style, lg, sm, auto)
    path = os.path.join(Scratch.dir(), f"c14-{os.getpid()}.numbers")
    doc.save(path)
    doc2 = Document(path)
    table2 = doc2.sheets[0].tables[0]

    def stored_ms(cell, case, phase):
        v = _get(lambda: cell.value)
        ms = ref.timedelta_ms(v[1]) if v[0] == "ok" and isinstance(v[1], timedelta) else None
        if not isinstance(cell, DurationCell) or ms != case[5]:
            out.append(({"mechanism": "value-roundtrip", "kind": "duration", "phase": phase},
                        f"cell written with {case[5]} ms holds {v} ({type(cell).__name__})", case))
            return None
        return ms

    for i, case in enumerate(cases):
        r, c = divmod(i, COLS)
        cell = table2.cell(r, c)
        ms = stored_ms(cell, case, "reopened")
        if ms is not None:
            judge_duration(doc2, table2, cell, tuple(case[1:5]), ms, "reopened", case, out, stats)
    for i, case in enumerate(cases):
        r, c = divmod(i, COLS)
        nxt = cases[(i + 1) % n]
        cell = table2.cell(r, c)
        new = ["dur", *nxt[1:5], case[5]]
        set_duration_format(doc2, table2, cell, *new[1:5])
        judge_duration(doc2, table2, cell, tuple(new[1:5]), case[5], "relive", new, out, stats)
    os.unlink(path)
    return out


CODE_UNIT = {v: k for k, v in ref.UNIT_CODE.items()}


def eval_fixture_durations(name, stats):
    """Every formatted duration cell of a workbook written by Numbers, judged by the same oracle."""
    out = []
    doc = Document(os.path.join(FIXTURES, name))
    for si, sheet in enumerate(doc.sheets):
        for ti, table in enumerate(sheet.tables):
            for row in table.iter_rows():
                for cell in row:
                    if not isinstance(cell, DurationCell) or cell._duration_format_id is None:
                        continue
                    fa = doc._model.table_format(table._table_id, cell._duration_format_id)
                    ms = ref.timedelta_ms(cell.value)
                    lg, sm = CODE_UNIT.get(fa.duration_unit_largest), CODE_UNIT.get(fa.duration_unit_smallest)
                    auto = bool(fa.use_automatic_duration_units)
                    if ms is None or ms < 0 or lg is None or (sm is None and not auto) or fa.duration_style not in (0, 1, 2):
                        stats["fixture_skipped"] += 1
                        continue
                    stats["fixture_cells"] += 1
                    case = ["fixture-dur", name, si, ti, cell.row, cell.col]
                    judge_duration(doc, table, cell, (fa.duration_style, lg, sm, auto), ms, "fixture", case, out, stats)
    return out


class Stats(dict):
    """Per-worker tallies: integer counters (missing = 0) and a few sets."""

    def __init__(self):
        super().__init__(keys=set(), dur_keys=set(), dur_shapes=set(), auto_shapes=set())

    def __missing__(self, k):
        return 0


def new_stats():
    return Stats()


def eval_batch(cases, stats=None):
    """Evaluate a list of cases (enumeration: up to BATCH per document; --replay: one)."""
    stats = stats if stats is not None else new_stats()
    kind = cases[0][0]
    if kind == "date":
        return eval_date_batch(cases, stats)
    if kind == "dur":
        return eval_duration_batch(cases, stats)
    if kind == "fixture-dur":
        res = eval_fixture_durations(cases[0][1], stats)
        if len(cases[0]) > 2:  # replay of one fixture cell
            res = [x for x in res if x[2] == cases[0]]
        return res
    raise ValueError(kind)


def eval_case(case):
    return eval_batch([case])


# ------------------------------------------------------------------------------------------
def work(task):
    group, lo, hi, tier, seed = task
    part = Part()
    stats = new_stats()
    if group == "fixture":
        results = eval_batch([["fixture-dur", "duration_112.numbers"]], stats)
    else:
        cases = _CASES[group][lo:hi]
        results = []
        for b in range(0, len(cases), BATCH):
            results.extend(eval_batch(cases[b:b + BATCH], stats))
        part.count(f"cases_{group}", len(cases))
        if cases:
            c = cases[0]
            part.sample({"group": group, "first_case_of_shard": c[:2] + [ref.format_text(c[2]), list(c[3])] if c[0] == "date" else c})
    for ident, detail, case in results:
        part.fail(ident, detail, case)
    for k, v in stats.items():
        if isinstance(v, int):
            part.count(k, v)
    part.outcome("agrees with the reference", stats["agree"])
    for rec in part.failures.values():
        part.outcome("disagrees: " + rec["ident"]["mechanism"] + "/" + str(rec["ident"].get("pattern")), rec["count"])
    d = part.dump()
    d["sets"] = {k: sorted(v) if k in ("dur_shapes", "auto_shapes") else list(v) for k, v in stats.items() if isinstance(v, set)}
    return d


def reference_self_test(run):
    """Pin the reference to the documentation and to an independent calendar (datetime's own)."""
    documented = ref.documented_directives(os.path.join(REPO, "docs", "api", "datetime.rst"))
    run.floor("reference table has exactly the 36 directives documented in docs/api/datetime.rst",
              sorted(documented) == sorted(ref.NAMES) and len(documented) == 36)
    ok = True
    for y in list(range(1, 40)) + list(range(1890, 2110)) + [9999]:
        for i in range(0, 366 if ref.is_leap(y) else 365):
            x = datetime(y, 1, 1) + timedelta(days=i)
            tt = x.timetuple()
            if ref.weekday(x) != x.weekday() or ref.day_of_year(x) != tt.tm_yday:
                ok = False
    run.floor("reference weekday / day-of-year arithmetic agrees with datetime on 270 whole years", ok)


def main():
    args = parse_args()
    if args.replay:
        def rp(case, payload):
            res = eval_case(case)
            want = payload.get("ident")
            hit = [r for r in res if want is None or r[0] == want]
            other = [r for r in res if r not in hit]
            text = f"case {case}:\n  " + ("\n  ".join(d for _, d, _ in hit) or "the recorded failure does not occur")
            if other:
                text += "\n  (other disagreements on this artefact: " + "; ".join(sorted({json.dumps(i, sort_keys=True) for i, _, _ in other})) + ")"
            return bool(hit), text
        return run_replay(args, rp)

    run = Run(PID, "exploration", args)
    reference_self_test(run)
    tasks = []
    sizes = {}
    only = [g for g in os.environ.get("VERIF_C14_GROUPS", "").split(",") if g]  # development aid, never a verdict
    if only:
        run.cap(f"restricted to groups {only} by VERIF_C14_GROUPS: the coverage floors fail, the run cannot pass as held")
    for g in GROUPS:
        _CASES[g] = gen_group(g, args.tier, args.seed) if not only or g in only else []
        n = len(_CASES[g])
        sizes[g] = n
        if n:
            per = max(1, -(-n // BATCH))
            k = min(per, max(args.jobs * 2, -(-n // (BATCH * 8))))
            for lo, hi in shards(n, k):
                tasks.append((g, lo, hi, args.tier, args.seed))
    tasks.sort(key=lambda t: -(t[2] - t[1]))
    if not only or "fixture" in only:
        tasks.insert(0, ("fixture", 0, 0, args.tier, args.seed))
    sets = {"keys": set(), "dur_keys": set(), "dur_shapes": set(), "auto_shapes": set()}
    for res in pmap(work, tasks, args.jobs):
        for k, v in res.pop("sets", {}).items():
            sets.setdefault(k, set()).update(tuple(x) if isinstance(x, list) else x for x in v)
        run.merge(res)

    # expected-side coverage: distinct reference values produced per directive over the single groups
    need = {"H": 24, "HH": 24, "h": 12, "hh": 12, "k": 24, "kk": 24, "K": 12, "KK": 12, "a": 2, "m": 60, "mm": 60, "s": 60,
            "ss": 60, "d": 31, "dd": 31, "D": 366, "DD": 366, "DDD": 366, "M": 12, "MM": 12, "MMM": 12, "MMMM": 12,
            "EEE": 7, "EEEE": 7, "W": 6, "ww": 54, "F": 5, "S": 10, "SS": 100, "SSS": 1000, "yy": 100, "y": 9999, "yyyy": 9999}
    need.update({"SSSS": 10_000, "SSSSS": 100_000} if args.tier == "thorough" else {"SSSS": 1000, "SSSSS": 1000})
    seen = {}
    for g in ("single-date", "single-clock", "single-year", "single-subsecond"):
        for case in _CASES[g]:
            seen.setdefault(case[2][0][1], set()).add(ref.field(case[2][0][1], datetime(*case[3])))
    short = {d: (len(seen.get(d, ())), n) for d, n in need.items() if len(seen.get(d, ())) < n}
    run.floor(f"every directive is driven through its whole documented range (short: {short})", not short)
    shown_short = {d: (len(sets.get("shown:" + d, ())), n) for d, n in need.items() if len(sets.get("shown:" + d, ())) < n}
    run.floor(f"every directive displayed that many distinct agreeing texts after reopen (short: {shown_short})", not shown_short)
    cnt = run.counters
    run.floor("all groups executed completely", all(cnt[f"cases_{g}"] == sizes[g] for g in GROUPS))
    run.floor(">= 36*36*20 pair formats x 3 instants", sizes["pairs"] >= 36 * 36 * 20 * 3)
    run.floor("dates judged in all phases (live, reopened, relive > 100 000 each; relive-new > 10 000)",
              min(cnt["date_renderings_live"], cnt["date_renderings_reopened"], cnt["date_renderings_relive"]) > 100_000
              and cnt["date_renderings_relive-new"] > 10_000)
    run.floor("formats set on loaded cells as the only edit judged after a further save+reopen: > 100 000 through the "
              "datetime route and > 10 000 through the custom-date route", cnt["resaved_dt"] > 100_000 and cnt["resaved_cu"] > 10_000)
    run.floor("durations judged after reopen and on loaded cells (> 10 000 each)",
              min(cnt["duration_renderings_reopened"], cnt["duration_renderings_relive"]) > 10_000)
    run.floor(">= 400 formatted duration cells of duration_112.numbers judged", cnt["fixture_cells"] >= 400)
    run.floor("durations: all 3 styles x 21 unit selections displayed and read back", len({(s, u[0], u[-1]) for s, u in sets["dur_shapes"]}) >= 63)
    run.floor("automatic units: >= 15 distinct unit selections observed", len(sets["auto_shapes"]) >= 15)
    run.floor("> 100 000 renderings agree with the reference (the oracle is not vacuously failing)", cnt["agree"] > 100_000)
    run.extra["group_sizes"] = sizes
    run.extra["auto_unit_selections_observed"] = len(sets["auto_shapes"])
    run.assume("y = unpadded full year (documentation row knowingly not followed, see DESIGN C14); yyyy and y compared "
               "numerically below year 1000; ww compared numerically; W counts Monday-based weeks; S..SSSSS truncate")
    run.assume("sub-second directives judged only for instants in 1900..2100; durations 0..10 years, non-negative, whole ms")
    run.assume("durations: the displayed numbers must be the carried components of the truncated value over the units shown "
               "(largest unit unbounded; a '.' in the compact style is a decimal point, so exactly three digits must follow it); "
               "plural forms and zero padding after ':' are not judged; with automatic units any unit selection is accepted")
    run.assume("written-cell 'live' phase not run for durations: no public API can attach a duration format to a written cell")
    if args.tier != "thorough":
        run.assume("quick tier: sub-seconds on all 1000 ms multiples (thorough: all 100 000 values of the 5-digit field); "
                   "pairs at 3 instants (thorough: 8, plus triples); reduced duration grid")
    cov = {
        "distinct_nontrivial": len(sets["keys"]) + len(sets["dur_keys"]),
        "rule": "distinct (format string, stored instant) pairs judged whose format contains at least one value-dependent "
                "directive (formats made only of G and literals are not counted) + distinct (style, units, automatic, "
                "milliseconds) duration points; measured by hashing in the workers",
        "exhaustive": not only,
    }
    return run.finish(cov)


if __name__ == "__main__":
    sys.exit(main())
