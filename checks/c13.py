"""C13 - displayed numbers agree numerically with the stored value.

Depth-1 state space, enumerated completely: value alphabet x format parameters, for every built-in
number format (number, percentage, currency, scientific, base, fraction, rating). Every case is
driven through the public API on a live table (`Table.write`, `Table.set_cell_formatting`,
`Cell.formatted_value`) and a second time after `Document.save` + reopen (in batches, one cell per
case), so the persisted format is the one read. The oracle (mc/ref_numfmt.py, independent of the
library) reads the displayed text back as an exact number in the notation of the format and
requires it to equal the cell's own value rounded to the displayed precision; both directions of
an exact decimal tie are accepted.

The value alphabet is a set of classes taken from the shortcuts in the code (zero / negative zero,
powers of ten and their 15-digit neighbours, exact ties at every precision 0..10 with even and
odd last digit, carries that add a digit, values that round to zero, generic mantissas, ints vs
floats). VERIF_SEED only rotates which digits stand for a class (tie multipliers, generic
mantissas, which codes fill the quick currency slice); every point of the product is visited for
every seed.

Two further families:
* re-format: every ordered pair (A, B) of the seven format types (A == B with other parameters),
  with and without reading formatted_value between the two set_cell_formatting calls (thorough:
  also every triple A, B, A): the text must be the rendering under the LAST format, on the live
  document and after save + reopen (same oracle);
* decoration invariance: within each set of cases that differ only in decoration (separator,
  negative style, accounting) the digits read back must be identical ("decorations never change a
  digit"); this is where a tie rule that depends on the separator shows.
"""
from __future__ import annotations

import json
import os
import sys
import warnings
from decimal import Decimal

from mc import ref_numfmt as ref
from mc.evidence import Part, Run, parse_args, run_replay
from mc.pool import Scratch, pmap

from numbers_parser import Document, FractionAccuracy, NegativeNumberStyle
from numbers_parser.cell import NumberCell
from numbers_parser.currencies import CURRENCIES

PID = "C13"
BATCH = 960          # cases per saved document (one cell each)
BATCH_COLS = 16
PLACES = list(range(11)) + [None]          # None = automatic
STYLES = [0, 1, 2, 3]
ACCURACIES = [0xFFFFFFFD, 0xFFFFFFFE, 0xFFFFFFFF, 2, 4, 8, 16, 10, 100]


# ---------------------------------------------------------------------------------------------
# value alphabet
# ---------------------------------------------------------------------------------------------
def _rot(text: str, seed: int) -> str:
    """Rotate every non-zero digit of a literal by `seed` (1..9 stay 1..9): same shape, other digits."""
    return "".join(str((int(ch) - 1 + seed) % 9 + 1) if ch in "123456789" else ch for ch in text)


def _f(text: str) -> float:
    v = float(text)
    assert ref.sig_digits(ref.dec(v)) <= 15, text
    return v


def value_alphabet(tier: str, seed: int):
    """-> list of Python numbers (ints stay ints, floats stay floats), both signs, no duplicates."""
    thorough = tier == "thorough"
    pos = []
    # powers of ten and their neighbours in 15 significant digits
    ks = range(-6, 15) if thorough else (-6, -3, -2, -1, 0, 1, 2, 3, 6, 14)
    pos += [_f(f"1e{k}") for k in ks]
    for k in ((-6, -3, -1, 0, 1, 3, 6, 9, 14) if thorough else (0, 3)):
        pos.append(_f(str(Decimal(1).scaleb(k) + Decimal(1).scaleb(k - 14))))
        pos.append(_f(str(Decimal(1).scaleb(k) - Decimal(1).scaleb(k - 15))))
    # exact ties at every displayed precision: (m + 1/2) units, m even / m odd / m = 0
    even = (2, 4, 6, 8)[seed % 4]
    odd = (1, 3, 5, 7, 9)[seed % 5]
    for p in range(11):
        unit = Decimal(1).scaleb(-p)
        ms = (0, even, odd) if thorough else ((0,) if p in (0, 2) else ()) + ((even,) if (p + seed) % 2 else (odd,))
        for m in ms:
            pos.append(_f(str((Decimal(m) + Decimal("0.5")) * unit)))
    # carries that add a digit
    pos += [_f(t) for t in (("9.5", "99.95", "999.995", "9999.9995", "99999.5", "999999.5", "0.95", "0.995", "0.9999",
                             "0.99999", "999.5", "1.95", "1.995", "1.9999")
                            if thorough else ("9.5", "99.95", "999.995", "999.5", "999999.5", "0.9999", "1.95"))]
    # values that round to zero at some precision
    pos += [_f(t) for t in (("0.4", "0.04", "0.004", "0.0049", "4e-11", "1e-10") if thorough else ("0.4", "0.004", "1e-10"))]
    # generic mantissas (digits rotated by the seed) and a few binary-exact / classic values
    free = ("1234567.891", "123.456", "12345.6789", "0.000001234", "123456789012345", "1234.5", "0.123456789012345") \
        if thorough else ("1234567.891", "123.456", "0.000001234", "123456789012345")
    pos += [_f(_rot(t, seed)) for t in free]
    pos += [_f(t) for t in (("0.333333333333333", "0.666666666666667", "0.125", "0.375", "12", "50", "52", "0.12", "0.29",
                             "0.57", "1.005", "2.675", "0.1", "0.2", "0.3", "0.7", "1.1", "1000.5", "7", "999999999999999",
                             "100.1", "0.07", "1.75", "3.14159")
                            if thorough else ("0.333333333333333", "0.125", "12", "0.29", "0.57", "1.005", "0.1", "1.75",
                                              "999999999999999"))]
    ints = (1, 7, 12, 1000, 1234567, 10 ** 14, 10 ** 15 - 1) if thorough else (1, 12, 1000, 10 ** 15 - 1)
    out, seen = [], set()
    for v in [0.0, -0.0, 0] + [s * v for v in pos for s in (1, -1)] + [s * v for v in ints for s in (1, -1)]:
        key = (type(v).__name__, repr(v))
        if key not in seen:
            seen.add(key)
            out.append(v)
    return out


def currency_slice(seed: int):
    return [0.0, _f("0.004"), -_f("0.004"), _f("0.005"), _f("2.5"), -_f("1.5"), _f("999.995"), -_f("999.995"),
            _f(_rot("1234567.891", seed)), -_f(_rot("1234567.891", seed)), _f("0.29"), 12]


def base_values(seed: int):
    g = int(_rot("123456", seed))
    ints = [0, 1, -1, 2, -2, 7, 8, -8, 15, 16, 35, 36, 255, -255, 256, 1000, -1000, g, -g,
            2 ** 31 - 1, 2 ** 31, -(2 ** 31), -(2 ** 31) - 1, 2 ** 32, -(2 ** 32), -(2 ** 32) - 1, 2 ** 40, -(2 ** 40),
            10 ** 15 - 1, -(10 ** 15 - 1)]
    floats = [0.0, -0.0, 10.4, 10.5, 11.5, 10.6, -10.5, -11.5, 0.4, -0.4, 0.5, -0.5, 0.6, -0.6, 255.0, -255.0,
              float(2 ** 31), -float(2 ** 31)]
    return ints + floats


def base_powers(base: int):
    """Every exact power base^k < 10^15 (k >= 1), its negative and its lower neighbour."""
    out, pw = [], base
    while pw < 10 ** 15:
        out += [pw, -pw, pw - 1]
        pw *= base
    return out


# one parameter set per format type for the re-format family, and a second one for A == B
REFORMAT_PARAMS = {
    "number": ({"decimal_places": 2, "show_thousands_separator": False, "negative_style": 0},
               {"decimal_places": 4, "show_thousands_separator": True, "negative_style": 2}),
    "currency": ({"currency_code": "EUR", "decimal_places": 2, "show_thousands_separator": False, "negative_style": 0,
                  "use_accounting_style": True},
                 {"currency_code": "USD", "decimal_places": 0, "show_thousands_separator": True, "negative_style": 0,
                  "use_accounting_style": False}),
    "percentage": ({"decimal_places": 1, "show_thousands_separator": False, "negative_style": 0},
                   {"decimal_places": 3, "show_thousands_separator": True, "negative_style": 1}),
    "scientific": ({"decimal_places": 2}, {"decimal_places": 5}),
    "base": ({"base": 16, "base_places": 0, "base_use_minus_sign": True},
             {"base": 2, "base_places": 8, "base_use_minus_sign": False}),
    "fraction": ({"fraction_accuracy": 0xFFFFFFFD}, {"fraction_accuracy": 4}),
    "rating": ({}, {}),
}
FORMAT_TYPES = list(REFORMAT_PARAMS)


def reformat_cases(tier: str, seed: int):
    """[kind, value, params, {"before": [[kind, params], ...], "read_between": bool}]: the cell is given the
    formats of `before` in order and then (kind, params); it is judged as a cell formatted (kind, params)."""
    g = _rot("1234", seed)
    general = [_f(g + ".565"), -_f(g + ".565"), _f("0.004"), -_f("0.004"), _f("2.5"), -_f("0.125"), 12, -7, 0.0, 1000]
    rating_ok = [0, 3, 4.0, 5]
    out = []
    for a in FORMAT_TYPES:
        for b in FORMAT_TYPES:
            pa = REFORMAT_PARAMS[a][0]
            pb = REFORMAT_PARAMS[b][1 if a == b else 0]
            values = rating_ok if "rating" in (a, b) else general
            for v in values:
                for read in (False, True):
                    out.append([b, v, pb, {"before": [[a, pa]], "read_between": read}])
                    if tier == "thorough":
                        out.append([a, v, pa, {"before": [[a, pa], [b, pb]], "read_between": read}])
    return out


# ---------------------------------------------------------------------------------------------
# the bounded space
# ---------------------------------------------------------------------------------------------
def quick_currencies(seed: int):
    with_symbol = sorted(ref.SYMBOLS)
    without = [c for c in CURRENCIES if c not in ref.SYMBOLS]
    a = [with_symbol[(seed + i * 2) % len(with_symbol)] for i in range(10)]
    b = [without[(seed * 7 + i * 29) % len(without)] for i in range(10)]
    return a + b


def build_groups(tier: str, seed: int):
    """-> dict group -> list of cases; a case is [kind, value, params] or, for the re-format family,
    [kind, value, params, history] (small JSON values)."""
    thorough = tier == "thorough"
    V = value_alphabet(tier, seed)
    groups = {}
    for kind in ("number", "percentage"):
        groups[kind] = [[kind, v, {"decimal_places": p, "show_thousands_separator": sep, "negative_style": ns}]
                        for v in V for p in PLACES for sep in (False, True) for ns in STYLES]
    cs = currency_slice(seed)
    codes = list(CURRENCIES) if thorough else quick_currencies(seed)
    cplaces = [0, 2, 3, 10] if thorough else [0, 2, 3]  # all 0..10 are taken for the codes of currency-values
    groups["currency-codes"] = [
        ["currency", v, {"currency_code": code, "decimal_places": p, "show_thousands_separator": sep,
                         "negative_style": ns, "use_accounting_style": acc}]
        for code in codes for v in cs for p in cplaces for sep in (False, True) for ns in STYLES for acc in (False, True)]
    full_codes = ["GBP", "USD", "ADP"] if thorough else ["GBP"]
    groups["currency-values"] = [
        ["currency", v, {"currency_code": code, "decimal_places": p, "show_thousands_separator": sep,
                         "negative_style": ns, "use_accounting_style": acc}]
        for code in full_codes for v in V for p in range(11) for sep in (False, True) for ns in STYLES for acc in (False, True)]
    groups["scientific"] = [["scientific", v, {"decimal_places": p}] for v in V for p in PLACES]
    bases = list(range(2, 37)) if thorough else [2, 8, 10, 16, 36]
    groups["base"] = [["base", v, {"base": b, "base_places": bp, "base_use_minus_sign": minus}]
                      for b in bases for bp in range(9) for minus in ((True, False) if b in (2, 8, 16) else (True,))
                      for v in base_values(seed) + base_powers(b)]
    groups["fraction"] = [["fraction", v, {"fraction_accuracy": a}] for a in ACCURACIES for v in V if abs(v) <= 10 ** 4]
    groups["rating"] = [["rating", v, {}] for v in (0, 1, 2, 3, 4, 5, 0.0, 1.0, 2.0, 3.0, 4.0, 5.0)]
    groups["reformat"] = reformat_cases(tier, seed)
    return groups


# ---------------------------------------------------------------------------------------------
# driving the library and judging
# ---------------------------------------------------------------------------------------------
def _kwargs(kind, params):
    kw = dict(params)
    if kw.get("decimal_places", 0) is None:
        del kw["decimal_places"]  # automatic = argument not given
    if "negative_style" in kw:
        kw["negative_style"] = NegativeNumberStyle(kw["negative_style"])
    if "fraction_accuracy" in kw:
        kw["fraction_accuracy"] = FractionAccuracy(kw["fraction_accuracy"])
    return kw


def judge(case, value, text):
    """-> (ident_without_phase, outcome_class, problem-or-None)."""
    kind, _, params = case[:3]
    x = ref.dec(value)
    extra = {}
    if kind in ("number", "percentage", "currency"):
        acc = bool(params.get("use_accounting_style", False))
        sign, mag, bad = ref.judge_decimal(
            x, text, kind=kind, places=params["decimal_places"], separator=params["show_thousands_separator"],
            negative_style=params["negative_style"], accounting=acc, currency_code=params.get("currency_code"))
        extra = {"separator": params["show_thousands_separator"]}
        if sign == "neg":  # the negative style has no say on other values; keeps identities few
            extra["negative_style"] = ref.STYLE_NAMES[params["negative_style"]]
        if kind == "currency":
            extra["accounting"] = acc
    elif kind == "scientific":
        sign, mag, bad = ref.judge_scientific(x, text, places=params["decimal_places"])
        extra = {"places": "auto" if params["decimal_places"] is None else "fixed"}
    elif kind == "base":
        sign, mag, bad = ref.judge_base(x, text, base=params["base"], places=params["base_places"],
                                        use_minus_sign=params["base_use_minus_sign"])
        extra = {"twos_complement": not params["base_use_minus_sign"]}
    elif kind == "fraction":
        sign, mag, bad = ref.judge_fraction(x, text, accuracy=params["fraction_accuracy"])
        extra = {"accuracy": "digits" if params["fraction_accuracy"] & 0xFF000000 else "fixed-denominator"}
    elif kind == "rating":
        sign, mag, bad = ref.judge_rating(x, text)
    else:
        raise ValueError(kind)
    ident = {"format": kind, "sign": sign, "magnitude": mag, **extra}
    return ident, f"{kind}:{sign}:{mag}:{bad[0] if bad else 'ok'}", bad


def _observe(table, r, c):
    """-> ("ok", value, text) | ("exc", type name, message)"""
    try:
        cell = table.cell(r, c)
        if not isinstance(cell, NumberCell):
            return ("exc", "NotANumberCell", type(cell).__name__)
        value = cell.value
        text = cell.formatted_value
        if not isinstance(text, str):
            return ("exc", "NotAString", repr(text))
        return ("ok", value, text)
    except Exception as e:  # noqa: BLE001 - any exception of the accessor is a finding, not a crash
        return ("exc", type(e).__name__, str(e)[:120])


def _decoration_key(case):
    """Cases with equal keys differ only in decoration (separator, negative style, accounting)."""
    kind, value, params = case[:3]
    if kind not in ("number", "percentage", "currency") or len(case) > 3:
        return None
    return (kind, type(value).__name__, repr(value), params["decimal_places"], params.get("currency_code"))


def _core(case, text):
    """The digits of a decimal rendering without decoration: (magnitude, decimals shown), or None."""
    kind, _, params = case[:3]
    symbol = ref.SYMBOLS.get(params["currency_code"], params["currency_code"] + " ") if kind == "currency" else None
    try:
        r = ref.read_decimal(text, symbol=symbol, accounting=bool(params.get("use_accounting_style")),
                             percent=kind == "percentage", separator=params["show_thousands_separator"],
                             allow_exponent=params["decimal_places"] is None)
    except ref.Unreadable:
        return None
    return (r["magnitude"], r["shown"] if params["decimal_places"] is not None else None)


def _history_text(case):
    if len(case) < 4:
        return ""
    h = case[3]
    steps = ", then ".join(f"{k} {p}" for k, p in h["before"])
    return f" [cell first formatted {steps}; formatted_value {'read' if h['read_between'] else 'not read'} in between]"


def eval_batch(cases, path):
    """Evaluate a list of cases (one table cell each) live and after save + reopen.

    -> (results, stats): results[i] is a list of (ident, detail, ref_index) failures of case i; ref_index is
    None, or the index of the case of this batch that the failure is relative to (decoration invariance).
    Used by the enumeration (batches of BATCH cases) and by --replay (a batch of one or two)."""
    n = len(cases)
    ncols = min(BATCH_COLS, max(2, n))
    nrows = max(2, -(-n // ncols))
    results = [[] for _ in cases]
    stats = {"outcomes": {}, "nontrivial": 0, "reopen_text_differs": 0, "exponent_in_auto": 0, "samples": [], "observed": [],
             "reopened": 0, "decoration_comparisons": 0}
    # record=True: the sigfig package calls warnings.resetwarnings(), which would re-enable printing
    with warnings.catch_warnings(record=True):
        warnings.simplefilter("ignore")
        doc = Document(num_rows=nrows, num_cols=ncols)
        table = doc.sheets[0].tables[0]
        live = []
        for i, case in enumerate(cases):
            r, c = divmod(i, ncols)
            kind, value, params = case[:3]
            try:
                table.write(r, c, value)
                if len(case) > 3:
                    for k0, p0 in case[3]["before"]:
                        table.set_cell_formatting(r, c, k0, **_kwargs(k0, p0))
                        if case[3]["read_between"]:
                            try:
                                _ = table.cell(r, c).formatted_value
                            except Exception:  # noqa: BLE001, S110 - judged by the single-format cases
                                pass
                table.set_cell_formatting(r, c, kind, **_kwargs(kind, params))
                live.append(_observe(table, r, c))
            except Exception as e:  # noqa: BLE001
                live.append(("exc", type(e).__name__, str(e)[:120]))
        try:
            doc.save(path)
            doc2 = Document(path)
            table2 = doc2.sheets[0].tables[0]
        except Exception as e:  # noqa: BLE001 - the batch cannot be persisted: reported on its first case
            kind, value, params = cases[0][:3]
            sign, mag = ref.classify(ref.dec(value), None)
            ident = {"format": kind, "sign": sign, "magnitude": mag, "pattern": f"exception-on-save:{type(e).__name__}",
                     "phase": "reopen-only"}
            results[0].append((ident, f"saving and reopening a table of {n} formatted cells raised {type(e).__name__}: {str(e)[:200]}", None))
            return results, stats
        first_of_key = {"live": {}, "reopen": {}}
        for i, case in enumerate(cases):
            r, c = divmod(i, ncols)
            kind, value, params = case[:3]
            hist = case[3] if len(case) > 3 else None
            again = _observe(table2, r, c)
            stats["observed"].append((live[i], again))
            stats["reopened"] += 1
            live_pattern = None
            for phase, obs in (("live", live[i]), ("reopen", again)):
                if obs[0] == "exc":
                    x = ref.dec(value)
                    sign, mag = ref.classify(x, None)
                    ident = {"format": kind, "sign": sign, "magnitude": mag, "pattern": f"exception:{obs[1]}"}
                    bad = (ident["pattern"], f"{obs[1]}: {obs[2]}")
                    outcome = f"{kind}:{sign}:{mag}:{ident['pattern']}"
                    shown = None
                else:
                    ident, outcome, bad = judge(case, obs[1], obs[2])
                    shown = obs[2]
                    if bad:
                        ident["pattern"] = bad[0]
                ref_index = None
                key = _decoration_key(case)
                if not bad and key is not None:
                    # decorations never change a digit: same digits as the first case of this decoration set
                    core = _core(case, shown)
                    first = first_of_key[phase].setdefault(key, (i, core, shown))
                    if first[0] != i:
                        stats["decoration_comparisons"] += 1
                        if core != first[1]:
                            bad = ("decoration-changes-digits",
                                   f"digits {core} differ from {first[1]} shown as {first[2]!r} for {cases[first[0]][2]} "
                                   f"(same value, same precision, other decoration)")
                            ident["pattern"] = bad[0]
                            ref_index = first[0]
                            outcome = outcome[:-2] + bad[0]
                if hist is not None:
                    ident["after"] = ",".join(k0 for k0, _ in hist["before"])
                    ident["read_between"] = bool(hist["read_between"])
                if phase == "live":
                    stats["outcomes"][outcome] = stats["outcomes"].get(outcome, 0) + 1
                    if shown is not None and shown != str(value):
                        stats["nontrivial"] += 1
                    if shown is not None and ("e" in shown) and kind in ("number", "percentage"):
                        stats["exponent_in_auto"] += 1
                    if i == 0 and len(stats["samples"]) < 1:
                        stats["samples"].append({"case": case, "live": shown, "reopened": again[2] if again[0] == "ok" else list(again)})
                    live_pattern = bad[0] if bad else None
                    if bad:
                        ident["phase"] = "live"
                        results[i].append((ident, f"{kind} {params} on value {value!r}{_history_text(case)}: displayed {shown!r}: {bad[1]}",
                                           ref_index))
                else:
                    if live[i][0] == "ok" and again[0] == "ok" and live[i][2] != again[2]:
                        stats["reopen_text_differs"] += 1
                    if bad and bad[0] != live_pattern:
                        ident["phase"] = "reopen-only"
                        results[i].append((ident, f"{kind} {params} on value {value!r}{_history_text(case)} after save+reopen (value read "
                                                  f"{again[1]!r}): displayed {shown!r}: {bad[1]} (live text was {live[i][2]!r})", ref_index))
    return results, stats


def scratch_file(tag):
    d = Scratch.dir()
    os.makedirs(d, exist_ok=True)  # survives a concurrent clean-up of the temp directory between batches
    return os.path.join(d, f"c13-{tag}.numbers")


GROUPS = {}  # filled by main() before the pool forks


def work(task):
    group, lo, hi = task
    cases = GROUPS[group][lo:hi]
    part = Part()
    path = scratch_file(f"{os.getpid()}")
    results, stats = eval_batch(cases, path)
    for i, (case, fails) in enumerate(zip(cases, results)):
        for ident, detail, ref_index in fails:
            replay = {"cases": [case], "index": 0}
            new_identity = json.dumps(ident, sort_keys=True) not in part.failures  # only the first replay is kept
            if ref_index is not None:
                replay = {"cases": [cases[ref_index], case], "index": 1}  # relative to another case of the batch
            elif ident["phase"] == "reopen-only" and new_identity:
                # a failure that needs its neighbours (format table of the saved batch) keeps the smallest
                # of four contexts that reproduces it: alone, with both neighbours, the prefix, the whole batch
                for a, b in ((i, i + 1), (max(0, i - 1), i + 2), (0, i + 2), (0, len(cases))):
                    sub = cases[a:b]
                    again, _ = eval_batch(sub, path)
                    if any(i2 == ident for i2, _, _ in again[i - a]):
                        break
                replay = {"cases": sub, "index": i - a}
            part.fail(ident, detail, replay)
    try:
        os.remove(path)
    except OSError:
        pass
    n = len(cases)
    part.count("evaluations", n + stats["reopened"])
    part.count("cases", n)
    part.count(f"cases_{group}", n)
    part.count("nontrivial_cases", stats["nontrivial"])
    part.count("reopen_text_differs", stats["reopen_text_differs"])
    part.count("decoration_comparisons", stats["decoration_comparisons"])
    part.count("auto_precision_shown_in_exponent_notation", stats["exponent_in_auto"])
    for k, v in stats["outcomes"].items():
        part.outcome(k, v)
    # coverage facts for the non-vacuity floors
    for case in cases:
        kind, value, params = case[:3]
        x = ref.dec(value)
        if len(case) > 3:
            part.count("reformat_pair_" + case[3]["before"][-1][0] + ">" + kind)
            part.count("reformat_read_between" if case[3]["read_between"] else "reformat_not_read_between")
            part.count(f"reformat_steps_{len(case[3]['before']) + 1}")
        if kind in ("number", "percentage", "currency") and params["decimal_places"] is not None:
            X = x * (100 if kind == "percentage" else 1)
            q = X.scaleb(params["decimal_places"])
            if q != q.to_integral_value() and (q * 2) == (q * 2).to_integral_value():
                part.count(f"tie_at_{params['decimal_places']}_places")
            if x < 0:
                part.count(f"negative_under_style_{params['negative_style']}")
        if kind == "base" and not params["base_use_minus_sign"] and x < -(2 ** 31) - 1:
            part.count("twos_complement_wider_than_32_bits")
    for s in stats["samples"]:
        part.sample({"group": group, **s})
    return part.dump()


def replay_fn(payload, _whole):
    cases, index = payload["cases"], payload["index"]
    with warnings.catch_warnings():
        warnings.simplefilter("ignore")
        results, stats = eval_batch(cases, scratch_file("replay"))
    fails = results[index]
    case = cases[index]
    live, again = stats["observed"][index]
    head = (f"case {case!r}" + (f" (cell {index} of a batch of {len(cases)})" if len(cases) > 1 else "")
            + f"\n  live: {live[1:]!r}\n  after save+reopen: {again[1:]!r}")
    if fails:
        return True, head + "\n" + "\n".join(f"  {d}\n  ident={i}" for i, d, _ in fails)
    return False, head + ": displayed text agrees with the value"


def main():
    args = parse_args()
    warnings.simplefilter("ignore")
    if args.replay:
        return run_replay(args, replay_fn)
    run = Run(PID, "exploration", args)
    GROUPS.update(build_groups(args.tier, args.seed))
    tasks = []
    for g, cases in GROUPS.items():
        tasks += [(g, lo, min(len(cases), lo + BATCH)) for lo in range(0, len(cases), BATCH)]
    for res in pmap(work, tasks, args.jobs):
        run.merge(res)
    c = run.counters
    total = sum(len(v) for v in GROUPS.values())
    V = value_alphabet(args.tier, args.seed)
    run.floor("every case of the product was evaluated live and after reopen", c["cases"] == total and c["evaluations"] == 2 * total)
    for g in GROUPS:
        run.floor(f"group {g}: all {len(GROUPS[g])} cases executed", c[f"cases_{g}"] == len(GROUPS[g]) and len(GROUPS[g]) >= 12)
    run.floor("an exact tie was rendered at every precision 0..10",
              all(c[f"tie_at_{p}_places"] > 0 for p in range(11)))
    run.floor("negative values were rendered under each of the four negative styles",
              all(c[f"negative_under_style_{s}"] > 0 for s in STYLES))
    run.floor("two's complement wider than 32 bits was rendered", c["twos_complement_wider_than_32_bits"] > 0)
    run.floor(">= 20 distinct outcome classes observed", len(run.outcomes) >= 20)
    run.floor("re-format family: all 49 ordered pairs of format types executed, with and without an intermediate read"
              + (", and all triples A,B,A" if args.tier == "thorough" else ""),
              all(c[f"reformat_pair_{a}>{b}"] > 0 for a in FORMAT_TYPES for b in FORMAT_TYPES)
              and c["reformat_read_between"] > 0 and c["reformat_read_between"] == c["reformat_not_read_between"]
              and (args.tier != "thorough" or c["reformat_steps_3"] == c["reformat_steps_2"] > 0))
    run.floor("decoration invariance: at least 3 of every 4 number and percentage renderings were compared with the first of their decoration set",
              c["decoration_comparisons"] >= (c["cases_number"] + c["cases_percentage"]) * 2 * 3 // 4)
    run.floor("the currency list of the library has 306 codes and the oracle's symbol table is a subset",
              len(CURRENCIES) == 306 and set(ref.SYMBOLS) <= set(CURRENCIES))
    run.assume("values have at most 15 significant digits and |x| < 10^15 (C01's numeric domain); custom number "
               "patterns, sliders, steppers and pop-ups are not enumerated")
    run.assume("automatic precision: the text must equal the value to 15 significant digits; Python exponent "
               "notation ('1e-06') is accepted there as a decimal literal")
    run.assume("two's complement is read at width max(32, minimal width of the value); a currency is shown with its "
               "CLDR symbol or '<code> '; an improper fraction part ('1 2/2') counts as a misrendering")
    run.assume("re-format family: one parameter set per format type (a second one for A == B) on a 10-value slice "
               "(4 values for pairs with rating); longer histories than A,B,A and re-formatting after a reopen are not enumerated")
    if args.tier == "quick":
        run.extra["tier_bound"] = "quick tier: reduced value alphabet, 20 of 306 currency codes x places {0,2,3}, bases {2,8,10,16,36}; that product is enumerated completely"
    cov = {
        "distinct_nontrivial": c["nontrivial_cases"],
        "rule": "cases are distinct (format, parameters, value) tuples by construction; a case is counted non-trivial "
                "when the displayed text differs from str(value), i.e. the formatter had to round, pad, group, scale, "
                "convert or decorate",
        "value_alphabet_size": len(V),
        "exhaustive": True,
        "bound": {g: len(v) for g, v in GROUPS.items()},
    }
    return run.finish(cov)


if __name__ == "__main__":
    sys.exit(main())
