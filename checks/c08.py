"""C08 - formula text is a faithful infix rendering of the stored expression.

Bounded-exhaustive enumeration (depth-1 state space: one injection + save + reopen + read per tree)
of expression trees over {12 binary operators, unary minus, percent, parentheses (LIST), multi-item
lists, function calls, 1-D / 2-D arrays} with pairwise distinct leaves, every literal class in every
operand/argument position, every known function id x arity x every subset of empty arguments, arrays
of every shape up to a bound, references at several host cells, and the same trees decorated with
the text-neutral thunk / whitespace nodes Numbers stores.
The 'nested' group (both tiers) is the complete family outer context {binary operator x side, unary
minus, percent, function argument} x LIST(inner operator x left {LIST(a op b), f(a), f(), leaf} x
right {LIST(c op d), g(c), leaf}) - bracketed groups whose content begins and ends with a bracket.
Literal classes include doubles that need 16 and 17 significant digits: such a node denotes its
double, the text is right iff float(text) == stored double.

Each tree is serialised to the stored post-fix node array the way Numbers stores it (mc.ref_formula.
to_nodes), injected into a real document (formula data list + cell record), the document is saved and
reopened, and `Cell.formula` is read. Oracle: an independent precedence-climbing parser
(mc.ref_formula.parse, lexer generated from FUNCTION_MAP) must read the reported text back to the
generated tree (parentheses transparent; numbers as Decimal; strings after un-doubling quotes;
DATE(y,m,d) == date literal); `is_formula` is true; no exception; reading twice gives the same text;
the text read from the live (unsaved) document, where it differs, must satisfy the same oracle.

Bounds (mc.ref_formula.BOUNDS): quick = every tree with <= 2 internal nodes over the 23-kind alphabet
+ every tree with 3 internal nodes over an 11-kind sub-alphabet + functions of arity <= 4 + arrays to
3x3; thorough = <= 3 internal nodes (group 'trees') and exactly 4 (group 'trees-deep', 3.06e6 trees,
sharded by root kind x distribution of the remaining nodes) over the full alphabet + 4 internal nodes
over the sub-alphabet + arrays to 4x4.

Failure identities: {mechanism, class, pattern}; mechanism is the stored node kind at the topmost
difference ('bin:-', 'fn', 'arr', 'neg', 'str', ...), 'number-literal', 'grouping', 'unparsable-text',
'read-exception', 'is_formula' or 're-read'. Known findings (known_findings.json) are matched on all
three keys, so any other wrong literal / exception / structure is a VIOLATION.
"""
from __future__ import annotations

import array
import hashlib
import os
import re
import sys

from mc import ref_formula as RF
from mc.evidence import Part, Run, parse_args, run_replay
from mc.pool import Scratch, pmap

PID = "C08"
TASK_DOCS = 2  # documents (of RF.DOC_CASES formulas) per pool task
KNOWN_NUMBER_PATTERN = "magnitude-x10^(mantissa_digits-2)"


# ------------------------------------------------------------------------------------------
# oracle
# ------------------------------------------------------------------------------------------
def _num_leaves(t, acc):
    k = t[0]
    if k == "num":
        acc.setdefault(RF.canon_num(t), t)
    elif k == "bin":
        _num_leaves(t[2], acc)
        _num_leaves(t[3], acc)
    elif k in ("neg", "pct"):
        _num_leaves(t[1], acc)
    elif k in ("list", "fn", "arr"):
        for a in t[-1]:
            _num_leaves(a, acc)
    return acc


def _number_ident(tree, want, got):
    """Identity of a wrong number literal. The known defect of formula.number_to_str has one exact
    signature: the double's repr uses a positive exponent and the text is the repr mantissa digits
    followed by (exponent - 1) zeros, i.e. the value is scaled by 10**(mantissa_digits - 2)."""
    leaf = _num_leaves(tree, {}).get(want[1])
    exp = leaf[2] if leaf else None
    cls = "stored-exponent>0" if exp and exp > 0 else "stored-exponent<0" if exp and exp < 0 else "stored-exponent=0"
    pattern = "other"
    r = repr(float(want[1]))
    if "e+" in r:
        nd = len(re.sub(r"[^0-9]", "", r.split("e")[0]))
        if nd != 2 and got[1] == want[1].scaleb(nd - 2):
            pattern = KNOWN_NUMBER_PATTERN
    return {"mechanism": "number-literal", "class": cls, "pattern": pattern}


def _root_kind(tree):
    return "bin" if tree[0] == "bin" else tree[0]


def judge_text(tree, host, text, source):
    """Compare one reported text with the generated tree -> list of (ident, detail)."""
    want = RF.canon(tree, host)
    extra = {} if source == "reopened" else {"source": source}
    try:
        got = RF.parse(text)
    except RF.ParseError as e:
        return [({"mechanism": "unparsable-text", "class": e.category, **extra},
                 f"text {text!r} ({source}) is not an expression: {e}; stored tree {tree!r}")]
    d = RF.diff(want, got)
    if d is None:
        return []
    mech, parent, pattern, wsub, gsub = d
    if wsub[0] == "num" and gsub[0] == "num":
        ident = _number_ident(tree, wsub, gsub)
    else:
        cls = "structure" if mech == "grouping" else RF.CATEGORY.get(wsub[0], "literal")
        ident = {"mechanism": mech, "class": cls, "pattern": pattern}
    ident.update(extra)
    return [(ident, f"text {text!r} ({source}, host {tuple(host)}) denotes {_short(gsub)} where the stored expression has "
                    f"{_short(wsub)} (under {parent}); stored tree {_short(tree, 300)}")]


def _short(x, n=160):
    s = repr(x)
    return s if len(s) <= n else s[: n - 3] + "..."


def judge(tree, deco, host, rec):
    out = []
    kind = _root_kind(tree)
    for slot, source in (("text", "reopened"), ("again", "reopened"), ("live", "live")):
        if rec[slot][0] == "exc":
            where = "array-with-reference-element" if RF.has_ref_in_array(tree) else f"root-{kind}"
            out.append(({"mechanism": "read-exception", "class": rec[slot][1].split(":")[0], "pattern": where,
                         **({} if source == "reopened" else {"source": source})},
                        f"Cell.formula ({source}) raised {rec[slot][1]} for stored tree {_short(tree, 300)} deco={deco}"))
            if slot == "text":
                return out
            if slot == "again":
                break
    if not rec["is_formula"]:
        out.append(({"mechanism": "is_formula", "class": "false-after-reopen"}, f"is_formula is False at host {tuple(host)} for {_short(tree)}"))
    if rec["again"][0] == "ok" and rec["again"] != rec["text"]:
        out.append(({"mechanism": "re-read", "class": "text-differs"},
                    f"two reads of the same cell differ: {rec['text'][1]!r} then {rec['again'][1]!r}"))
    out += judge_text(tree, host, rec["text"][1], "reopened")
    if rec["live"][0] == "ok" and rec["live"][1] != rec["text"][1]:
        out += judge_text(tree, host, rec["live"][1], "live")
    return out


def eval_cases(cases, tag="x"):
    """Evaluate [(tree, deco, host)] in one document -> (list of failure lists, render records)."""
    cases = [(RF.tup(t), bool(d), tuple(h)) for t, d, h in cases]
    path = Scratch.path(f"c08-{os.getpid()}-{tag}.numbers")
    recs = RF.render_cases(cases, path, reopen=True)
    return [judge(t, d, h, rec) for (t, d, h), rec in zip(cases, recs)], recs


def eval_case(case):
    """One case {tree, deco, host[, shared_with]}; used by --replay and (batched through eval_cases)
    by the enumeration. `shared_with` lists hosts that carried the very same stored formula (same
    formula-list key) earlier in the same document; they are written and read first, as in the
    enumeration, so that a defect which depends on another host of the formula reproduces."""
    deco = case.get("deco", False)
    cases = [(case["tree"], deco, h) for h in case.get("shared_with", [])] + [(case["tree"], deco, case["host"])]
    res, recs = eval_cases(cases, "replay")
    return res[-1], recs[-1]


# ------------------------------------------------------------------------------------------
# enumeration
# ------------------------------------------------------------------------------------------
def _h(s):
    return int.from_bytes(hashlib.blake2b(s.encode(), digest_size=8).digest(), "big")


_GLYPHS = set("+-×÷^&=≠<>≤≥%(){},;\"$")


def work(task):
    group, sub, lo, hi, tier, seed = task
    part = Part()
    cases = RF.cases_with_hosts(group, tier, seed, lo, hi, sub)
    hashes, names, glyphs, ref_hosts = set(), set(), set(), {}
    n_known_class = 0
    for off in range(0, len(cases), RF.DOC_CASES):
        doc_cases = cases[off:off + RF.DOC_CASES]
        results, recs = eval_cases(doc_cases, f"{group}-{lo + off}")
        first_doc = lo + off == 0 and (sub is None or sub[1] == (0,) * len(sub[1]))
        part.count("documents_saved_and_reopened")
        sharers = {}  # (tree, deco) -> hosts seen so far in this document (same formula-list key)
        for (tree, deco, host), fails, rec in zip(doc_cases, results, recs):
            earlier = list(sharers.setdefault((tree, deco), []))
            sharers[(tree, deco)].append(list(host))
            part.count("evaluations")
            part.count(f"cases_{group}")
            part.count("formula_reads", 3)
            verdict = "agrees"
            for ident, detail in fails:
                verdict = "differs"
                payload = {"tree": tree, "deco": deco, "host": list(host)}
                if earlier:
                    payload["shared_with"] = earlier
                part.fail(ident, detail, payload)
            part.outcome(f"{_root_kind(tree)}:{verdict}")
            if rec["text"][0] == "ok":
                text = rec["text"][1]
                hashes.add(_h(text))
                glyphs.update(_GLYPHS.intersection(text))
                names.update(re.findall(r"[A-Z][A-Z0-9.]*(?=\()", text))
                if tree[0] == "ref":
                    ref_hosts.setdefault(repr(tree), set()).add(text)
                if first_doc and len(part.samples) < 2 and tree[0] != "num":
                    part.sample({"group": group, "tree": tree, "host": list(host), "text": text})
            if any(v.scaleb(0) >= 10**16 and leaf[2] > 0 for v, leaf in _num_leaves(tree, {}).items()):
                n_known_class += 1
    part.count("cases_with_literal>=1e16_stored_with_exponent", n_known_class)
    out = part.dump()
    out["x_hashes"] = array.array("Q", sorted(hashes)).tobytes()
    out["x_names"] = names
    out["x_glyphs"] = glyphs
    out["x_ref_texts"] = max((len(v) for v in ref_hosts.values()), default=0)
    return out


def main():
    args = parse_args()
    if args.replay:
        def rp(case, payload):
            fails, rec = eval_case(case)
            lines = [f"stored tree: {case['tree']!r}", f"host {case['host']}, decorated={case.get('deco', False)}",
                     f"Cell.formula after save+reopen: {rec['text']}", f"live: {rec['live']}"]
            lines += [f"  {i} :: {d}" for i, d in fails] or ["  the text denotes the stored expression"]
            return bool(fails), "\n".join(lines)
        return run_replay(args, rp)

    run = Run(PID, "exploration", args)
    tier, seed = args.tier, args.seed
    groups = [g for g in RF.ALL_GROUPS if RF.subgroups(g, tier, seed)]
    expected = {}
    step = RF.DOC_CASES * TASK_DOCS
    tasks = []
    for g in groups:
        subs = RF.subgroups(g, tier, seed)
        expected[g] = sum(c for _k, c in subs)
        for sub, cnt in subs:
            for lo in range(0, cnt, step):
                tasks.append((g, sub, lo, min(cnt, lo + step), tier, seed))
    tasks.sort(key=lambda t: -(t[3] - t[2]))
    hashes, names, glyphs, ref_texts = set(), set(), set(), 0
    for res in pmap(work, tasks, args.jobs, ordered=True):
        hashes.update(array.array("Q", res.get("x_hashes", b"")))
        names |= res.get("x_names", set())
        glyphs |= res.get("x_glyphs", set())
        ref_texts = max(ref_texts, res.get("x_ref_texts", 0))
        run.merge(res)

    n = run.counters["evaluations"]
    b = RF.BOUNDS[tier]
    for g in groups:
        run.floor(f"group '{g}' executed completely ({expected[g]} cases)", run.counters[f"cases_{g}"] == expected[g])
    run.floor(f"group 'nested' has (24 binary contexts + 3) x 12 inner operators x left kinds x right kinds = {RF.nested_count(tier)} cases",
              expected["nested"] == RF.nested_count(tier))
    ks = RF.kinds(seed)
    want_trees = sum(RF.count_shapes(k, ks) for k in range(1, b["max_internal"] + 1))
    run.floor(f"the generator yields exactly the combinatorial number of trees with <= {b['max_internal']} internal nodes ({want_trees})",
              expected["trees"] == want_trees)
    run.floor("every function name of FUNCTION_MAP (315) appears in a rendered text", set(RF.FUNCTION_MAP.values()) <= names)
    run.floor("every operator glyph, both bracket kinds, ',', ';', '\"', '$' and '%' occur in rendered texts", _GLYPHS <= glyphs)
    run.floor(">= 90% of the rendered texts are pairwise distinct", len(hashes) >= 0.9 * n)
    run.floor("one relative reference was read at >= 3 hosts giving 3 different texts", ref_texts >= 3)
    run.floor(">= 10 cases carry a literal >= 1e16 stored with a decimal exponent (known-defect class is exercised)",
              run.counters["cases_with_literal>=1e16_stored_with_exponent"] >= 10)
    run.floor("FUNCTION_MAP has 315 distinct names", len(set(RF.FUNCTION_MAP.values())) == 315 == len(RF.FUNCTION_MAP))
    run.assume("precedence conventions of Numbers are not tested: the serialiser stores an explicit LIST node wherever "
               "conventional precedence (% > ^ > unary - > x / > + - > & > comparisons, left associative) needs parentheses")
    run.assume("DATE(y,m,d) with three plain numbers and a date literal are identified (the text cannot distinguish them); "
               "date literals are at midnight")
    run.assume("references are same-table cell references (C09 covers reference rendering); NAME() with one empty "
               "argument is excluded (indistinguishable from arity 0)")
    run.assume("number literals are non-negative (Numbers stores the sign as NEGATION_NODE); a node stored with a decimal "
               "exponent whose decimal has 16-17 significant digits denotes its double: the text is right iff float(text) == "
               "stored double (both sides reduced to the double's shortest decimal); 16-17 digit literals >= 1e16 are not "
               "enumerated (they fall into the known magnitude defect with a differing last digit)")
    cov = {
        "bounds": {"internal_nodes_full_alphabet": max(b["max_internal"], b["deep_internal"]), "internal_nodes_reduced_alphabet": b["reduced_internal"],
                   "internal_kinds": len(RF.kinds(seed)), "reduced_kinds": len(RF.REDUCED),
                   "literal_classes": len(RF.leaf_alphabet(seed)), "function_ids": len(RF.FUNCTION_IDS),
                   "function_arity_max": b["fn_arity"], "array_max_dim": b["arr_max"]},
        "cases_per_group": expected,
        "distinct_nontrivial": len(hashes),
        "rule": "number of pairwise distinct formula texts returned by Cell.formula after save+reopen; every one was parsed "
                "back by the independent parser and compared with the generated tree",
        "exhaustive": True,
    }
    return run.finish(cov)


if __name__ == "__main__":
    sys.exit(main())
