"""C05 - IWA archive decoding and encoding are mutually inverse and chunking-independent.

Complete enumeration (depth-1 state space, no sampling) of
  (a) every IWA member of every zip-readable fixture under tests/data (single files and package
      folders) and of the bundled template,
  (b) every IWA member of documents generated through the editing API and written by Document.save,
  (c) re-chunkings of every *distinct* archive stream: all single cut positions (streams up to a
      size bound), all pairs of cut positions (smaller bound), the boundary family
      {1, 2, n/2, 65535, 65536, 65537, n-1} (singles and all pairs) for everything larger, every
      piece both snappy-compressed and stored (all 2^k assignments), plus shifted 64 KiB grids,
  (d) synthetic archives of exact stream sizes around the 64 KiB multiples x segment counts x
      segment shapes (single / two-message / merge-patch) x payload compressibility x unknown fields,
  (e) encoder-side cases in which the message sizes change between decode and encode (objects edited
      through the protobuf API; segments built with create_iwa_segment), which is where the header
      length refresh matters,
  (d2) identifier boundaries: the smallest synthetic stream of every kind x {1, 2} segments x unknown
      fields whose first segment identifier is 0, 1, a varint length step, or a 2^31 / 2^32 / 2^63 /
      2^64 edge (IDENT_BASES);
  (e2) second encodings: every distinct archive stream (fixtures, generated documents, synthetic) is
      decoded and encoded, then the SAME in-memory archive is edited (nothing / a size-preserving
      change of the first or of the last message of every segment / a size-changing change / a
      header-only change of object_references or should_merge) and encoded again; the expected
      stream is built independently (pkg.segments + the same edit + pkg.join) and the second
      encoding must also decode back to the edited in-memory archive.

Oracle (independent code: mc/pkg.py + python-snappy + the generated protobuf classes; nothing of
numbers_parser.iwafile is trusted):
  * unframe(encode(decode(b))) == unframe(b) byte for byte (segments, headers, message bytes,
    unknown fields); the decoder yields exactly one object per message_info and one archive per
    segment,
  * unframe(encode(decode(rechunk(b)))) == unframe(b) and the same archive count,
  * container rules on every encoder output: marker byte 0, 3-byte length inside the file and
    consumed exactly, every chunk holds at most 65536 bytes of data, the segment walk driven by
    message_infos[i].length consumes the stream exactly and every message parses,
  * is_iwa_file agrees with the independent chunk walker on every produced buffer (well-formed
    buffers, their re-chunkings, the encoder outputs, and five damaged framings per distinct stream).

A stored piece that python-snappy accepts is an ambiguous container (the format has no
stored/compressed flag), not a meaning-preserving layout: such assignments are skipped and counted.
"""
from __future__ import annotations

import base64
import datetime
import glob
import hashlib
import itertools
import os
import sys
import time
import uuid

import snappy
from google.protobuf.internal.decoder import _DecodeVarint32
from google.protobuf.internal.encoder import _VarintBytes

from mc import pkg
from mc.evidence import FIXTURES, Part, Run, ident_matches, load_known, parse_args, run_replay
from mc.pool import Scratch, pmap

import numbers_parser
from numbers_parser.generated import TSTArchives_pb2 as TST
from numbers_parser.generated.mapping import ID_NAME_MAP, NAME_ID_MAP
from numbers_parser.generated.TSPArchiveMessages_pb2 import ArchiveInfo
from numbers_parser.iwafile import IWAFile, IWACompressedChunk, create_iwa_segment, is_iwa_file

PID = "C05"
CHUNK = 65536
TEMPLATE = os.path.join(os.path.dirname(numbers_parser.__file__), "data", "empty.numbers")

SIZES = [0, 1, 65535, 65536, 65537, 131071, 131072, 131073, 196609]
NSEGS = [1, 2, 300]
KINDS = ["single", "two", "merge"]
BOUNDS = {
    # tier: (all single cuts up to, all pairs of cuts up to)
    "quick": (512, 32),
    "thorough": (4096, 192),
}
FAIL_CAP_PER_STREAM = 5  # a stream that already failed this often is not re-chunked further (failing runs only)
EDIT_DELTAS = [-1, 1, 127, 128, 16384, 65536]
# second encoding of the SAME in-memory archive after an edit (size-preserving edits must be written too)
REENCODE_EDITS = ["none", "same-size-first", "same-size-last", "resize", "header-refs", "header-merge"]
CREATE_SIZES = [0, 1, 127, 128, 65535, 65536, 70000]
CREATE_COUNTS = [1, 2, 300]
SNIFF_VARIANTS = ["marker-first", "marker-last", "drop-last-byte", "dangling-header", "length-plus-one"]


class HarnessError(Exception):
    pass


# ---------------------------------------------------------------------------------------------
# sources: ["fix", fixture-relative-path | "@template", member] | ["gen", recipe, member]
#          | ["synth", total, nseg, kind, compressible, unknown_fields, seed]

BLOBS = {}  # tuple(src) -> file bytes; filled by the main process before the pool forks
_DERIVED = {}  # tuple(src) -> derived reference data (per process, small LRU)


def fixture_path(rel):
    return TEMPLATE if rel == "@template" else os.path.join(FIXTURES, rel)


def load_fixture(rel):
    """-> list of (member, bytes) of IWA members, first occurrence of a name wins."""
    seen = set()
    out = []
    for name, blob in pkg.read_members(fixture_path(rel)):
        if pkg.is_iwa_name(name) and name not in seen:
            seen.add(name)
            out.append((name, blob))
    return out


def get_blob(src):
    k = tuple(src)
    if k in BLOBS:
        return BLOBS[k]
    kind = src[0]
    if kind == "fix":
        for name, blob in load_fixture(src[1]):
            BLOBS[("fix", src[1], name)] = blob
    elif kind == "gen":
        for name, blob in generate(src[1]):
            BLOBS[("gen", src[1], name)] = blob
    elif kind == "synth":
        BLOBS[k] = pkg.frame(build_synth(*src[1:]))
    if k not in BLOBS:
        raise HarnessError(f"source {src} cannot be resolved")
    return BLOBS[k]


# ---------------------------------------------------------------------------------------------
# (b) documents generated through the editing API

_uuid_counter = itertools.count(1)


def _fake_uuid1():
    """uuid1() is time/host based; a counter makes the generated packages reproducible."""
    return uuid.UUID(int=(0x1234567890ABCDEF << 64) | (0x8000000000000000 + next(_uuid_counter) * 0x10001))


def _r_new(doc_cls, mod):
    return doc_cls()


def _r_sheet_table(doc_cls, mod):
    doc = doc_cls()
    doc.add_sheet("S2", "T2", num_rows=8, num_cols=3)
    t = doc.sheets["S2"].tables[0]
    vals = ["text", 1.5, True, datetime.datetime(2020, 1, 2, 3, 4, 5), datetime.timedelta(hours=5), -7, ""]
    for i, v in enumerate(vals):
        t.write(i, i % 3, v)
    t2 = doc.sheets[0].add_table("Extra", x=10, y=300, num_rows=2, num_cols=2)
    t2.write(0, 0, "x" * 300)
    return doc


def _r_style_merge(doc_cls, mod):
    doc = doc_cls()
    t = doc.sheets[0].tables[0]
    st = doc.add_style(name="Mine", bold=True, font_size=14.0, font_color=mod.RGB(10, 20, 30), bg_color=mod.RGB(1, 2, 3))
    t.write(1, 1, "styled", style=st)
    t.merge_cells("B3:C4")
    t.set_cell_border("B2", "top", mod.Border(2.0, mod.RGB(0, 0, 0), "solid"))
    t.row_height(1, 40)
    t.col_width(1, 120)
    t.write(2, 0, 3.14159)
    t.set_cell_formatting(2, 0, "number", decimal_places=2)
    return doc


def _r_big(doc_cls, mod):
    doc = doc_cls()
    t = doc.sheets[0].tables[0]
    for r in range(600):
        for c in range(12):
            t.write(r, c, (r * 131 + c * 17) % 9973 + 0.5 if c % 2 else f"s{r}-{c}")
    return doc


def _r_resave(doc_cls, mod):
    doc = doc_cls(os.path.join(FIXTURES, "test-1.numbers"))
    doc.sheets[0].tables[0].write(0, 0, "changed")
    return doc


RECIPES = {"new": _r_new, "sheet_table": _r_sheet_table, "style_merge": _r_style_merge, "big": _r_big, "resave": _r_resave}


def generate(recipe):
    """Build one document with the editing API, save it with Document.save, return its IWA members."""
    global _uuid_counter
    import warnings

    import numbers_parser.numbers_uuid as nu

    _uuid_counter = itertools.count(1)
    saved = nu.uuid1
    nu.uuid1 = _fake_uuid1
    path = Scratch.path(f"c05-{recipe}-{os.getpid()}.numbers")
    try:
        with warnings.catch_warnings():
            warnings.simplefilter("ignore")
            doc = RECIPES[recipe](numbers_parser.Document, numbers_parser)
            doc.save(path)
    finally:
        nu.uuid1 = saved
    out = [(n, b) for n, b in pkg.read_members(path) if pkg.is_iwa_name(n)]
    os.remove(path)
    return out


# ---------------------------------------------------------------------------------------------
# (d) synthetic archives, built with the independent framer only

TILE_ID = NAME_ID_MAP["TST.Tile"]
UNKNOWN = _VarintBytes((1999 << 3) | 2) + _VarintBytes(3) + b"unk" + _VarintBytes((2000 << 3) | 0) + _VarintBytes(300)
_KEYSTREAM = {}


def keystream(seed, n):
    ks = _KEYSTREAM.get(seed)
    if ks is None or len(ks) < n:
        blocks = -(-n // 32) + 1
        ks = b"".join(hashlib.sha256(b"C05|%d|%d" % (seed, i)).digest() for i in range(blocks))
        _KEYSTREAM[seed] = ks
    return ks


def fill(n, comp, seed, salt):
    """n payload bytes; VERIF_SEED only rotates which concrete bytes stand for the class
    'compressible' / 'incompressible'."""
    if n <= 0:
        return b""
    if comp:
        pat = bytes(97 + (seed + salt + i) % 26 for i in range(8))
        return (pat * (n // 8 + 1))[:n]
    off = (salt * 7919) % CHUNK
    return keystream(seed, off + n)[off : off + n]


def tile_bytes(row, a, b, comp, unk, seed, salt):
    ri = TST.TileRowInfo(tile_row_index=row, cell_count=0, cell_storage_buffer_pre_bnc=fill(b, True, seed, salt + 1),
                         cell_offsets_pre_bnc=b"", cell_storage_buffer=fill(a, comp, seed, salt), cell_offsets=b"")
    t = TST.Tile(maxColumn=0, maxRow=0, numCells=0, numrows=1, rowInfos=[ri])
    return t.SerializeToString() + (UNKNOWN if unk else b"")


def make_segment(ident, kind, a, b, comp, unk, seed):
    ai = ArchiveInfo(identifier=ident)
    payloads = [tile_bytes(0, a, b, comp, unk, seed, ident)]
    mi = ai.message_infos.add()
    mi.type = TILE_ID
    mi.version.extend([1, 0, 5])
    mi.object_references.append(ident + 1)
    if kind == "two":
        payloads.append(tile_bytes(1, 3, 0, True, unk, seed, ident + 5))
        m2 = ai.message_infos.add()
        m2.type = TILE_ID
        m2.version.extend([1, 0, 5])
    elif kind == "merge":
        ai.should_merge = True
        payloads.append(TST.Tile(numCells=ident % 100).SerializePartialToString() + (UNKNOWN if unk else b""))
        m2 = ai.message_infos.add()
        m2.type = 0
        m2.version.extend([65535, 65535, 4294967295])
        m2.base_message_index = 0
        m2.diff_merge_version.extend([10, 1, 4294967295])
        m2.fields_to_remove.add().path.append(3)
        m2.diff_read_version.extend([2, 0, 25])
    for m, pl in zip(ai.message_infos, payloads):
        m.length = len(pl)
    if unk:
        ai = ArchiveInfo.FromString(ai.SerializeToString() + UNKNOWN)
    return [ai, payloads]


def build_synth(total, nseg, kind, comp, unk, seed, base=1000):
    """Archive stream of exactly `total` bytes (the smallest stream of the shape when `total` is
    below it; the empty stream for 0).  `base` is the identifier of the first segment."""
    if total == 0:
        return b""

    def build(a, b):
        per, rem = divmod(a, nseg)
        return pkg.join([make_segment(base + 2 * i, kind, per + (rem if i == nseg - 1 else 0), b if i == nseg - 1 else 0, comp, unk, seed)
                         for i in range(nseg)])

    s = build(0, 0)
    if total <= len(s):
        return s
    a, b = total - len(s), 0
    for _ in range(64):
        s = build(a, b)
        d = total - len(s)
        if d == 0:
            return s
        if d > 0:
            if b + d <= 100:
                b += d
            else:
                a += d
        elif a + d >= 0:
            a += d
        else:
            b = max(0, b + d)
    raise HarnessError(f"cannot build a synthetic stream of exactly {total} bytes for {nseg} {kind} segments")


# identifier boundaries of the first segment (ArchiveInfo.identifier is a uint64 varint): zero, the
# varint length steps, the 32/63/64-bit edges.  A decoder that tests the header or its identifier for
# truthiness, or narrows the id, fails on exactly these.
IDENT_BASES = [0, 1, 127, 128, 16383, 16384, 2**31 - 1, 2**31, 2**32 - 1, 2**32, 2**63 - 1, 2**63, 2**64 - 8]


def synth_sources(seed):
    return [["synth", total, nseg, kind, comp, unk, seed]
            for total in SIZES for nseg in NSEGS for kind in KINDS for comp in (1, 0) for unk in (0, 1)] + [
        ["synth", 1, nseg, kind, 1, unk, seed, base]
            for base in IDENT_BASES for nseg in (1, 2) for kind in KINDS for unk in (0, 1)]


# ---------------------------------------------------------------------------------------------
# independent container walkers


def framing_problem(buf):
    """None when `buf` obeys the chunk rules (marker 0, 3-byte length inside the file and consumed
    exactly, <= 64 KiB of data per chunk), else a short class name."""
    pos, n = 0, len(buf)
    while pos < n:
        if n - pos < 4:
            return "truncated-chunk-header"
        if buf[pos] != 0:
            return "marker-byte"
        ln = buf[pos + 1] | (buf[pos + 2] << 8) | (buf[pos + 3] << 16)
        if pos + 4 + ln > n:
            return "chunk-length-exceeds-file"
        payload = buf[pos + 4 : pos + 4 + ln]
        try:
            dec = snappy.uncompress(payload)
        except Exception:  # noqa: BLE001 - stored chunk
            dec = payload
        if len(dec) > CHUNK:
            return "chunk-holds-more-than-64KiB"
        pos += 4 + ln
    return None


def walk(stream):
    """Independent segment walk driven by message_infos[i].length.
    -> (problem or None, stats). stats: segments, messages, multi (segments with > 1 message),
    merge (patch messages), unknown (messages carrying unknown fields), untyped (type ids the
    bundled mapping does not know)."""
    st = {"segments": 0, "messages": 0, "multi": 0, "merge": 0, "unknown": 0, "untyped": 0}
    pos, n = 0, len(stream)
    while pos < n:
        try:
            ln, p = _DecodeVarint32(stream, pos)
        except Exception:  # noqa: BLE001
            return "bad-header-varint", st
        if ln == 0 or p + ln > n:
            return "header-length-outside-stream", st
        try:
            ai = ArchiveInfo.FromString(stream[p : p + ln])
        except Exception:  # noqa: BLE001
            return "header-does-not-parse", st
        pos = p + ln
        st["segments"] += 1
        if len(ai.message_infos) > 1:
            st["multi"] += 1
        for i, mi in enumerate(ai.message_infos):
            if pos + mi.length > n:
                return "message-length-outside-stream", st
            pl = stream[pos : pos + mi.length]
            pos += mi.length
            st["messages"] += 1
            tid = mi.type
            if tid == 0 and ai.should_merge and i > 0:
                st["merge"] += 1
                if mi.base_message_index >= len(ai.message_infos):
                    return "patch-base-outside-segment", st
                tid = ai.message_infos[mi.base_message_index].type
            cls = ID_NAME_MAP.get(tid)
            if cls is None:
                st["untyped"] += 1
                continue
            try:
                m = cls.FromString(pl)
            except Exception:  # noqa: BLE001
                return "message-does-not-parse", st
            size = len(m.SerializePartialToString())
            m.DiscardUnknownFields()
            if len(m.SerializePartialToString()) != size:
                st["unknown"] += 1
    return None, st


def sniff(buf):
    try:
        return is_iwa_file(buf)
    except Exception as e:  # noqa: BLE001
        return f"exc:{type(e).__name__}"


def framing_ok(buf):
    try:
        pkg.chunks(buf)
        return True
    except pkg.PkgError:
        return False


def classify_stream_diff(ref, got):
    if len(got) < len(ref) and ref.startswith(got):
        return "stream-truncated", f"output stream is a {len(got)}-byte prefix of the {len(ref)}-byte input stream"
    if len(got) > len(ref) and got.startswith(ref):
        return "stream-extended", f"output stream has {len(got) - len(ref)} extra bytes"
    try:
        a, b = pkg.raw_segments(ref), pkg.raw_segments(got)
    except Exception as e:  # noqa: BLE001
        return "output-stream-unparseable", f"{type(e).__name__}: {e}"
    if len(a) != len(b):
        return "segment-count", f"{len(a)} segments in, {len(b)} out"
    def no_lengths(h):
        ai = ArchiveInfo.FromString(h)
        for mi in ai.message_infos:
            mi.length = 0
        return ai.SerializePartialToString()

    for i, ((ha, pa), (hb, pb)) in enumerate(zip(a, b)):
        if ha != hb and (pa == pb or no_lengths(ha) != no_lengths(hb)):
            return "header-bytes", f"segment {i}: header {ha[:48].hex()} -> {hb[:48].hex()} (lengths {len(ha)} -> {len(hb)})"
        for j, (x, y) in enumerate(zip(pa, pb)):
            if x != y:
                t = ArchiveInfo.FromString(ha).message_infos[j].type
                cls = ID_NAME_MAP.get(t)
                return "message-bytes", (f"segment {i} message {j} (type {t} {cls.DESCRIPTOR.full_name if cls else '?'}): "
                                         f"{len(x)} bytes in, {len(y)} bytes out")
    return "stream-bytes", "streams differ although all segments compare equal"


def first_diff(a, b):
    for i, (x, y) in enumerate(zip(a, b)):
        if x != y:
            return i
    return min(len(a), len(b))


# ---------------------------------------------------------------------------------------------
# the library under test


def lib_decode(buf):
    return IWAFile.from_buffer(buf, "Index/x.iwa")


def lib_archives(f):
    return [a for c in f.chunks for a in c.archives]


def exc_class(e):
    c = e.__cause__ if isinstance(e, ValueError) and e.__cause__ is not None else e
    return type(c).__name__


def check_output(out, src_kind, mech):
    """Container rules + sniffer on one encoder output -> list of (ident, detail)."""
    res = []
    prob = framing_problem(out)
    if prob:
        res.append(({"mechanism": mech, "class": "container:" + prob, "source": src_kind}, f"encoder output of {len(out)} bytes breaks the chunk rules: {prob}"))
    s = sniff(out)
    if (s is True) != (prob is None or prob == "chunk-holds-more-than-64KiB"):
        res.append(({"mechanism": "is_iwa_file", "class": "disagrees-on-encoder-output", "source": src_kind},
                    f"is_iwa_file -> {s} on an encoder output whose independent framing verdict is {prob or 'well-formed'}"))
    return res


def reference(src):
    """Independent reading of a source: dict(blob, stream, nseg, stats, malformed)."""
    k = tuple(src)
    r = _DERIVED.get(k)
    if r is not None:
        return r
    blob = get_blob(src)
    r = {"blob": blob, "malformed": None, "stream": None, "nseg": 0, "stats": None, "amb": {}}
    try:
        ch = pkg.chunks(blob)
        r["stream"] = b"".join(c[2] for c in ch)
        r["in_chunks"] = len(ch)
        r["in_stored"] = sum(1 for c in ch if not c[1])
    except pkg.PkgError as e:
        r["malformed"] = f"framing: {e}"
    if r["malformed"] is None:
        prob, st = walk(r["stream"])
        if prob:
            r["malformed"] = "segments: " + prob
        r["stats"] = st
        r["nseg"] = st["segments"]
    if len(_DERIVED) > 4:
        _DERIVED.clear()
    _DERIVED[k] = r
    return r


def eval_roundtrip(src):
    ref = reference(src)
    kind = src[0]
    info = {"malformed": ref["malformed"]}
    res = []
    blob = ref["blob"]
    s = sniff(blob)
    if (s is True) != framing_ok(blob):
        res.append(({"mechanism": "is_iwa_file", "class": "disagrees-on-input", "source": kind},
                    f"is_iwa_file -> {s}, independent chunk walker says {'well-formed' if framing_ok(blob) else 'malformed'} ({len(blob)} bytes)"))
    if ref["malformed"]:
        if kind == "gen":  # written by Document.save, i.e. an encoder output: it must obey the container rules
            res.append(({"mechanism": "document-save", "class": "container:" + ref["malformed"].split(":")[0], "source": kind},
                        f"IWA member written by Document.save is not well-formed: {ref['malformed']}"))
        elif kind == "synth":
            raise HarnessError(f"synthetic archive {src} is not well-formed: {ref['malformed']}")
        return res, info
    stream = ref["stream"]
    info.update(ref["stats"])
    info.update(stream_len=len(stream), in_chunks=ref["in_chunks"], in_stored=ref["in_stored"],
                sha=hashlib.sha1(stream).hexdigest())
    if ref["stats"]["untyped"]:
        info["skipped"] = "message type outside the bundled mapping"
        return res, info
    try:
        f = lib_decode(blob)
    except Exception as e:  # noqa: BLE001
        res.append(({"mechanism": "decode", "class": "exception:" + exc_class(e), "source": kind}, f"IWAFile.from_buffer raised {type(e).__name__}: {e} / {e.__cause__!r}"))
        return res, info
    arch = lib_archives(f)
    if len(arch) != ref["nseg"]:
        res.append(({"mechanism": "decode", "class": "archive-count", "source": kind}, f"decoder produced {len(arch)} archives, the stream holds {ref['nseg']} segments"))
    elif any(len(a.objects) != len(a.header.message_infos) for a in arch):
        res.append(({"mechanism": "decode", "class": "object-count", "source": kind}, "an archive has a different number of objects than message_infos"))
    try:
        out = f.to_buffer()
    except Exception as e:  # noqa: BLE001
        res.append(({"mechanism": "encode", "class": "exception:" + exc_class(e), "source": kind}, f"IWAFile.to_buffer raised {type(e).__name__}: {e}"))
        return res, info
    res.extend(check_output(out, kind, "encode"))
    try:
        och = pkg.chunks(out)
    except pkg.PkgError as e:
        res.append(({"mechanism": "encode", "class": "output-unframeable", "source": kind}, f"independent unframer rejects the output: {e}"))
        return res, info
    ostream = b"".join(c[2] for c in och)
    info["out_chunks"] = len(och)
    if ostream != stream:
        cls, txt = classify_stream_diff(stream, ostream)
        res.append(({"mechanism": "decode-encode", "class": cls, "source": kind},
                    f"unframe(encode(decode(b))) != unframe(b): {txt}; first differing offset {first_diff(stream, ostream)} of {len(stream)}"))
        prob, _ = walk(ostream)
        if prob:
            res.append(({"mechanism": "encode", "class": "header-lengths:" + prob, "source": kind}, f"segment walk over the encoder output fails: {prob}"))
    return res, info


def layout_name(stored):
    return "compressed" if not any(stored) else "stored" if all(stored) else "mixed"


def eval_rechunk(src, cuts, stored):
    """-> (list of (ident, detail), skipped: bool)"""
    ref = reference(src)
    if ref["malformed"]:
        raise HarnessError(f"re-chunking a malformed source {src}: {ref['malformed']}")
    stream = ref["stream"]
    n = len(stream)
    kind = src[0]
    bounds = [0, *cuts, n]
    if any(not 0 <= bounds[i] < bounds[i + 1] for i in range(len(bounds) - 1)) or len(stored) != len(cuts) + 1:
        raise HarnessError(f"bad re-chunking {cuts} / {stored} for a stream of {n} bytes")
    amb = ref["amb"]
    for i, st in enumerate(stored):
        if st:
            key = (bounds[i], bounds[i + 1])
            a = amb.get(key)
            if a is None:
                a = amb[key] = pkg.stored_piece_ambiguous(stream[key[0] : key[1]])
            if a:
                return [], True
    b2 = pkg.frame(stream, list(cuts), list(stored))
    lay = layout_name(stored)
    res = []
    try:
        f = lib_decode(b2)
        out = f.to_buffer()
    except Exception as e:  # noqa: BLE001
        return [({"mechanism": "rechunk", "class": "exception:" + exc_class(e), "layout": lay, "source": kind},
                 f"stream of {n} bytes cut at {list(cuts)} stored={list(stored)}: {type(e).__name__}: {e} / {e.__cause__!r}")], False
    narch = sum(len(c.archives) for c in f.chunks)
    if narch != ref["nseg"]:
        res.append(({"mechanism": "rechunk", "class": "archive-count", "layout": lay, "source": kind},
                    f"stream of {n} bytes cut at {list(cuts)} stored={list(stored)}: {narch} archives decoded, {ref['nseg']} segments in the stream"))
    try:
        s2 = pkg.unframe(out)
    except pkg.PkgError as e:
        res.append(({"mechanism": "rechunk", "class": "output-unframeable", "layout": lay, "source": kind}, f"cut at {list(cuts)} stored={list(stored)}: {e}"))
        return res, False
    if s2 != stream:
        cls, txt = classify_stream_diff(stream, s2)
        res.append(({"mechanism": "rechunk", "class": cls, "layout": lay, "source": kind},
                    f"decode(rechunk(b)) != decode(b) for a stream of {n} bytes cut at {list(cuts)} stored={list(stored)}: {txt}"))
    s = sniff(b2)
    if s is not True:
        res.append(({"mechanism": "is_iwa_file", "class": "rejects-well-formed", "layout": lay, "source": kind},
                    f"is_iwa_file -> {s} for a well-formed re-chunking (cuts {list(cuts)} stored={list(stored)}) of a {n}-byte stream"))
    return res, False


def damaged(blob, variant):
    """One damaged framing of a well-formed file (None when not applicable)."""
    ch = pkg.chunks(blob)
    if not ch:
        return b"\x00\x01\x00\x00" if variant == "dangling-header" else None
    last = len(blob) - 4 - len(ch[-1][0])
    b = bytearray(blob)
    if variant == "marker-first":
        b[0] = 0x01
    elif variant == "marker-last":
        if len(ch) < 2:
            return None
        b[last] = 0x80
    elif variant == "drop-last-byte":
        del b[-1]
    elif variant == "dangling-header":
        b += b"\x00\x01\x00\x00"
    elif variant == "length-plus-one":
        ln = len(ch[-1][0]) + 1
        b[last + 1 : last + 4] = bytes((ln & 255, (ln >> 8) & 255, (ln >> 16) & 255))
    return bytes(b)


def eval_sniff(src, variant):
    ref = reference(src)
    d = damaged(ref["blob"], variant)
    if d is None:
        return [], True
    want = framing_ok(d)
    got = sniff(d)
    if (got is True) != want:
        return [({"mechanism": "is_iwa_file", "class": "accepts-malformed" if got is True else "rejects-well-formed", "variant": variant},
                 f"is_iwa_file -> {got} on variant {variant} of a {len(ref['blob'])}-byte file; the independent chunk walker says {'well-formed' if want else 'malformed'}")], False
    return [], False


def _resize(buf, delta, seed):
    n = len(buf) + delta
    if n < 0:
        return None
    return fill(n, True, seed, 3)


def eval_edit(src, delta):
    """Decode, change the size of the first message of every segment through the protobuf API,
    encode: the header lengths must follow (independent expectation built with pkg.join)."""
    ref = reference(src)
    seed = src[6]
    segs = pkg.segments(ref["stream"])
    for ai, pls in segs:
        m = TST.Tile.FromString(pls[0])
        new = _resize(m.rowInfos[0].cell_storage_buffer, delta, seed)
        if new is None:
            return [], True
        m.rowInfos[0].cell_storage_buffer = new
        pls[0] = m.SerializeToString()
    want = pkg.join(segs)
    ident = {"mechanism": "edit-encode", "source": "synth"}
    try:
        f = lib_decode(ref["blob"])
        for a in lib_archives(f):
            o = a.objects[0]
            o.rowInfos[0].cell_storage_buffer = _resize(o.rowInfos[0].cell_storage_buffer, delta, seed)
        out = f.to_buffer()
    except Exception as e:  # noqa: BLE001
        return [({**ident, "class": "exception:" + exc_class(e)}, f"{src} delta {delta}: {type(e).__name__}: {e}")], False
    res = check_output(out, "synth", "edit-encode")
    try:
        got = pkg.unframe(out)
    except pkg.PkgError as e:
        return res + [({**ident, "class": "output-unframeable"}, f"{src} delta {delta}: {e}")], False
    prob, _ = walk(got)
    if prob:
        res.append(({**ident, "class": "header-lengths:" + prob}, f"{src} delta {delta}: header lengths do not describe the messages: {prob}"))
    elif got != want:
        cls, txt = classify_stream_diff(want, got)
        res.append(({**ident, "class": cls}, f"{src} delta {delta}: encoded stream differs from the independently built one: {txt}"))
    return res, False


# -- (e2) a second encoding of the same in-memory archive ------------------------------------


def _leaves(msg):
    """Scalar leaves of a message in field order, depth first: (get, set, field descriptor)."""
    for fd, val in msg.ListFields():
        if fd.is_extension:
            continue
        rep_ = getattr(fd, "is_repeated", None)
        if rep_ is None:
            rep_ = fd.label == fd.LABEL_REPEATED
        if fd.type in (fd.TYPE_MESSAGE, fd.TYPE_GROUP):
            if fd.message_type.GetOptions().map_entry:
                continue
            for sub in (val if rep_ else [val]):
                yield from _leaves(sub)
        elif rep_:
            yield (lambda c=val: c[0]), (lambda v, c=val: c.__setitem__(0, v)), fd
        else:
            yield (lambda m=msg, n=fd.name: getattr(m, n)), (lambda v, m=msg, n=fd.name: setattr(m, n, v)), fd


def _same_size_value(fd, v):
    t = fd.type
    if t in (fd.TYPE_DOUBLE, fd.TYPE_FLOAT):
        return -v if v != 0 else 1.0
    if t == fd.TYPE_BOOL:
        return not v
    if t in (fd.TYPE_FIXED32, fd.TYPE_FIXED64, fd.TYPE_SFIXED32, fd.TYPE_SFIXED64, fd.TYPE_INT32, fd.TYPE_INT64,
             fd.TYPE_UINT32, fd.TYPE_UINT64, fd.TYPE_SINT32, fd.TYPE_SINT64):
        return v ^ 1
    if t == fd.TYPE_STRING and v and ord(v[0]) < 128:
        return ("A" if v[0] != "A" else "B") + v[1:]
    if t == fd.TYPE_BYTES and v:
        return bytes([v[0] ^ 1]) + v[1:]
    return None


def _other_size_value(fd, v):
    t = fd.type
    if t == fd.TYPE_STRING:
        return v + "x"
    if t == fd.TYPE_BYTES:
        return v + b"x"
    if t in (fd.TYPE_INT32, fd.TYPE_INT64, fd.TYPE_UINT32, fd.TYPE_UINT64):
        return 300 if 0 <= v < 128 else 1
    return None


def edit_message(msg, same_size):
    """Change the first scalar leaf of `msg` so that its serialised size stays equal (same_size) or
    changes. Deterministic in the message content. -> True when the message was changed."""
    before = msg.SerializePartialToString()
    for get, put, fd in _leaves(msg):
        old = get()
        new = (_same_size_value if same_size else _other_size_value)(fd, old)
        if new is None:
            continue
        try:
            put(new)
        except Exception:  # noqa: BLE001 - value not accepted by this field
            continue
        after = msg.SerializePartialToString()
        if after != before and (len(after) == len(before)) == same_size:
            return True
        put(old)
    return False


def apply_edit(segs, edit):
    """Apply one edit to an archive given as [(ArchiveInfo, [message objects])]; the same function is
    applied to the library's in-memory objects and to the independently parsed ones.
    -> number of segments changed."""
    changed = 0
    for ai, objs in segs:
        if edit == "none" or not objs:
            continue
        if edit in ("same-size-first", "same-size-last", "resize"):
            if edit == "same-size-last" and len(objs) < 2:
                continue
            o = objs[-1] if edit == "same-size-last" else objs[0]
            changed += bool(o is not None and edit_message(o, edit != "resize"))
        elif edit == "header-refs":
            mi = ai.message_infos[0]
            if len(mi.object_references):
                mi.object_references[0] ^= 1
            else:
                mi.object_references.append(1)
            changed += 1
        elif edit == "header-merge":
            if len(ai.message_infos) == 1:  # no effect on how the segment is decoded
                ai.should_merge = not ai.should_merge
                changed += 1
    return changed


def indep_objects(stream):
    """Independent decode: [(ArchiveInfo, [message objects or None for unmapped types])]."""
    out = []
    for ai, pls in pkg.segments(stream):
        objs = []
        for i, (mi, pl) in enumerate(zip(ai.message_infos, pls)):
            tid = mi.type
            if tid == 0 and ai.should_merge and i > 0:
                tid = ai.message_infos[mi.base_message_index].type
            cls = ID_NAME_MAP.get(tid)
            objs.append(cls.FromString(pl) if cls is not None else None)
        out.append((ai, objs))
    return out


def lib_view(f):
    return [(a.header, [getattr(o, "data", o) for o in a.objects]) for a in lib_archives(f)]


def describe(segs):
    return [(ai.SerializePartialToString(), [o.SerializePartialToString() for o in objs]) for ai, objs in segs]


def eval_reencode(src, edit):
    """decode, encode, edit the in-memory archive, encode the SAME object again: the second
    encoding must be the edited archive (expected stream built independently with pkg.join), and
    decoding it must give back the edited archive."""
    ref = reference(src)
    if ref["malformed"] or ref["stats"]["untyped"]:
        return [], True
    kind = src[0]
    ident = {"mechanism": "re-encode", "edit": edit, "source": kind}
    want_segs = indep_objects(ref["stream"])
    if apply_edit(want_segs, edit) == 0 and edit != "none":
        return [], True
    want = pkg.join([[ai, [o.SerializePartialToString() for o in objs]] for ai, objs in want_segs])
    try:
        f = lib_decode(ref["blob"])
        first = f.to_buffer()
        apply_edit(lib_view(f), edit)
        second = f.to_buffer()
    except Exception as e:  # noqa: BLE001
        return [({**ident, "class": "exception:" + exc_class(e)}, f"{type(e).__name__}: {e}")], False
    res = check_output(second, kind, "re-encode")
    try:
        s1, s2 = pkg.unframe(first), pkg.unframe(second)
    except pkg.PkgError as e:
        return res + [({**ident, "class": "output-unframeable"}, str(e))], False
    if s1 != ref["stream"]:
        res.append(({**ident, "class": "first-encoding-differs"}, "first encoding of the decoded archive is not the input stream"))
    if s2 != want:
        stale = s2 == s1 and edit != "none"
        cls, txt = classify_stream_diff(want, s2)
        res.append(({**ident, "class": "stale-bytes" if stale else cls},
                    f"second encoding after edit '{edit}' is not the edited archive"
                    + (" (it repeats the first encoding byte for byte)" if stale else "") + f": {txt}"))
    else:
        try:
            back = describe(lib_view(lib_decode(second)))
        except Exception as e:  # noqa: BLE001
            back = f"{type(e).__name__}: {e}"
        if back != describe(lib_view(f)):
            res.append(({**ident, "class": "decode-of-encoding-differs"},
                        f"decoding the second encoding (edit '{edit}') does not give back the in-memory archive that was encoded"))
    return res, False


def eval_create(count, size, seed):
    """Segments built with create_iwa_segment (header length 0 until to_buffer) and encoded."""
    ident = {"mechanism": "create-encode", "source": "api"}
    segs = []
    archives = []
    try:
        for i in range(count):
            buf = fill(size, i % 2 == 0, seed, i)
            row = {"tile_row_index": 0, "cell_count": 0, "cell_storage_buffer_pre_bnc": "", "cell_offsets_pre_bnc": "",
                   "cell_storage_buffer": base64.b64encode(buf).decode(), "cell_offsets": ""}
            archives.append(create_iwa_segment(2000 + i, TST.Tile, {"maxColumn": 0, "maxRow": 0, "numCells": 0, "numrows": 1, "rowInfos": [row]}))
            body = TST.Tile(maxColumn=0, maxRow=0, numCells=0, numrows=1, rowInfos=[TST.TileRowInfo(
                tile_row_index=0, cell_count=0, cell_storage_buffer_pre_bnc=b"", cell_offsets_pre_bnc=b"", cell_storage_buffer=buf,
                cell_offsets=b"")]).SerializeToString()
            ai = ArchiveInfo(identifier=2000 + i)
            mi = ai.message_infos.add()
            mi.type = TILE_ID
            mi.version.extend([1, 0, 5])
            segs.append([ai, [body]])
        out = IWAFile([IWACompressedChunk(archives)], "Index/x.iwa").to_buffer()
    except Exception as e:  # noqa: BLE001
        return [({**ident, "class": "exception:" + exc_class(e)}, f"create count={count} size={size}: {type(e).__name__}: {e}")], False
    want = pkg.join(segs)
    res = check_output(out, "api", "create-encode")
    try:
        got = pkg.unframe(out)
    except pkg.PkgError as e:
        return res + [({**ident, "class": "output-unframeable"}, f"create count={count} size={size}: {e}")], False
    prob, _ = walk(got)
    if prob:
        res.append(({**ident, "class": "header-lengths:" + prob}, f"create count={count} size={size}: header lengths do not describe the messages: {prob}"))
    elif got != want:
        cls, txt = classify_stream_diff(want, got)
        res.append(({**ident, "class": cls}, f"create count={count} size={size}: encoded stream differs from the independently built one: {txt}"))
    else:
        try:
            back = pkg.unframe(lib_decode(out).to_buffer())
        except Exception as e:  # noqa: BLE001
            back = f"{type(e).__name__}: {e}"
        if back != want:
            res.append(({**ident, "class": "encode-decode-encode"}, f"create count={count} size={size}: decoding the encoder output and encoding again changes the stream"))
    return res, False


def eval_case(case):
    """Evaluate one case. -> (list of (ident, detail), skipped, info). Used by the enumeration and
    by --replay."""
    kind = case[0]
    if kind == "roundtrip":
        res, info = eval_roundtrip(case[1])
        return res, False, info
    if kind == "rechunk":
        res, sk = eval_rechunk(case[1], case[2], case[3])
        return res, sk, None
    if kind == "sniff":
        res, sk = eval_sniff(case[1], case[2])
        return res, sk, None
    if kind == "edit":
        res, sk = eval_edit(case[1], case[2])
        return res, sk, None
    if kind == "create":
        res, sk = eval_create(case[1], case[2], case[3])
        return res, sk, None
    if kind == "reencode":
        res, sk = eval_reencode(case[1], case[2])
        return res, sk, None
    if kind == "generate":
        try:
            generate(case[1])
        except Exception as e:  # noqa: BLE001
            return [({"mechanism": "generate", "class": "exception:" + type(e).__name__, "recipe": case[1]},
                     f"recipe {case[1]}: editing API or Document.save raised {type(e).__name__}: {e}")], False, None
        return [], False, None
    raise HarnessError(f"unknown case kind {kind}")


# ---------------------------------------------------------------------------------------------
# enumeration


def family(n):
    return sorted({c for c in (1, 2, n // 2, 65535, 65536, 65537, n - 1) if 0 < c < n})


def variants(n, tier):
    """Every (cuts, stored) re-chunking of a stream of n bytes enumerated at this tier."""
    single_max, pair_max = BOUNDS[tier]
    fam = family(n)
    singles = range(1, n) if n <= single_max else fam
    pairs = itertools.combinations(range(1, n), 2) if n <= pair_max else itertools.combinations(fam, 2)
    for c in singles:
        for st in itertools.product((False, True), repeat=2):
            yield (c,), st
    if n > CHUNK and tier == "quick":  # quick: 4 of the 8 assignments for pairs of cuts on streams over 64 KiB
        pair_layouts = [(False, False, False), (True, True, True), (True, False, True), (False, True, False)]
    else:
        pair_layouts = list(itertools.product((False, True), repeat=3))
    for p in pairs:
        for st in pair_layouts:
            yield p, st
    if n > CHUNK:
        seen = set()
        for off in [0, *fam]:
            cuts = tuple(x for x in range(off % CHUNK, n, CHUNK) if 0 < x < n)
            if len(cuts) < 2 or cuts in seen:
                continue
            seen.add(cuts)
            k = len(cuts) + 1
            for st in ((False,) * k, (True,) * k, tuple(i % 2 == 0 for i in range(k)), tuple(i % 2 == 1 for i in range(k))):
                yield cuts, st


def n_variants(n, tier):
    single_max, pair_max = BOUNDS[tier]
    f = len(family(n))
    s = (n - 1 if n <= single_max else f) if n > 1 else 0
    p = ((n - 1) * (n - 2) // 2 if n <= pair_max else f * (f - 1) // 2) if n > 2 else 0
    return 4 * s + (4 if n > CHUNK and tier == "quick" else 8) * p + (40 if n > CHUNK else 0)


_MAIN_PID = os.getpid()


def _in_worker():
    """Forked pool workers must die on SIGTERM (Pool.terminate relies on the default action); the
    main process' SIGTERM->sys.exit handler installed by mc.pool.Scratch is not inherited."""
    if os.getpid() != _MAIN_PID:
        import signal

        signal.signal(signal.SIGTERM, signal.SIG_DFL)


def work_roundtrip(task):
    _in_worker()
    srcs = task
    part = Part()
    infos = []
    for src in srcs:
        case = ["roundtrip", src]
        res, _sk, info = eval_case(case)
        part.count("evaluations")
        part.count(f"roundtrip_{src[0]}")
        for ident, detail in res:
            part.fail(ident, f"{src}: {detail}", case)
        infos.append([src, info])
    out = part.dump()
    out["infos"] = infos
    return out


def work_rechunk(task):
    _in_worker()
    tier, items = task
    part = Part()
    for src, k, nparts in items:  # variant i of a stream belongs to slice i % nparts
        n = len(reference(src)["stream"])
        done = skipped = failed = 0
        for idx, (cuts, stored) in enumerate(variants(n, tier)):
            if idx % nparts != k:
                continue
            if failed >= FAIL_CAP_PER_STREAM:
                part.count("rechunk_not_evaluated_after_repeated_failures")
                continue
            case = ["rechunk", src, list(cuts), [int(s) for s in stored]]
            res, sk, _ = eval_case(case)
            if sk:
                skipped += 1
                continue
            done += 1
            part.count("rechunk_" + layout_name(stored))
            if len(cuts) == 1:
                part.count("rechunk_single_cut")
            elif len(cuts) == 2:
                part.count("rechunk_cut_pair")
            else:
                part.count("rechunk_grid")
            for ident, detail in res:
                part.fail(ident, f"{src}: {detail}", case)
            failed += bool(res)
        part.count("evaluations", done)
        part.count("rechunk_evaluations", done)
        part.count("rechunk_skipped_ambiguous_stored_piece", skipped)
        if k:
            continue
        part.count("rechunk_streams")
        if n > CHUNK:
            part.count("rechunk_streams_over_64KiB")
        if n <= BOUNDS[tier][0]:
            part.count("rechunk_streams_all_single_cuts")
        if n <= BOUNDS[tier][1]:
            part.count("rechunk_streams_all_cut_pairs")
    return part.dump()


def work_encoder(task):
    _in_worker()
    part = Part()
    for case in task:
        res, sk, _ = eval_case(case)
        if sk:
            part.count(f"{case[0]}_not_applicable")
            continue
        part.count("evaluations")
        part.count("sniff_damaged_variants" if case[0] == "sniff" else f"{case[0]}_cases")
        if case[0] == "reencode":
            part.count(f"reencode_{case[2]}_{case[1][0]}")
        for ident, detail in res:
            part.fail(ident, detail if case[0] not in ("sniff", "reencode") else f"{case[1]}: {detail}", case)
    return part.dump()


def balanced(items, costs, nbins):
    """Longest-processing-time bin packing, deterministic."""
    order = sorted(range(len(items)), key=lambda i: (-costs[i], i))
    bins = [[0.0, []] for _ in range(max(1, nbins))]
    for i in order:
        b = min(bins, key=lambda x: x[0])
        b[0] += costs[i]
        b[1].append(items[i])
    bins.sort(key=lambda x: -x[0])
    return [b[1] for b in bins if b[1]]


def corpus_sources(run):
    """Every IWA member of everything under tests/data that the independent zip reader can open
    (documents, package folders, anything else) plus the bundled template."""
    srcs = []
    paths = sorted(glob.glob(os.path.join(FIXTURES, "*")))
    rels = [os.path.relpath(p, FIXTURES) for p in paths] + ["@template"]
    for rel in rels:
        try:
            members = load_fixture(rel)
        except Exception as e:  # noqa: BLE001 - not a zip / not a package: no IWA members to enumerate
            run.count("fixtures_not_zip_readable")
            run.outcome(f"fixture unreadable: {type(e).__name__}")
            continue
        if not members:
            run.count("fixtures_without_iwa_members")
            continue
        run.count("fixtures_enumerated")
        if os.path.isdir(fixture_path(rel)):
            run.count("fixtures_package_folders")
        for name, blob in members:
            BLOBS[("fix", rel, name)] = blob
            srcs.append(["fix", rel, name])
    return srcs


def main():
    args = parse_args()
    if args.replay:
        def rp(case, payload):
            res, sk, _ = eval_case(case)
            if sk:
                return False, f"case {case}: not applicable (ambiguous stored piece)"
            return bool(res), f"case {case}: " + ("; ".join(d for _, d in res) or "agrees with the oracle")
        return run_replay(args, rp)

    run = Run(PID, "exploration", args)
    phases = run.extra.setdefault("phase_wall_s", {})
    t_phase = time.time()
    tier, seed = args.tier, args.seed
    nshards = max(1, args.jobs) * 6

    # -- sources ---------------------------------------------------------------------------
    srcs = corpus_sources(run)
    n_fix = len(srcs)
    for recipe in RECIPES:
        res, _sk, _ = eval_case(["generate", recipe])
        run.count("evaluations")
        if res:
            run.fail(res[0][0], res[0][1], ["generate", recipe])
            continue
        members = generate(recipe)
        run.count("generated_documents")
        for name, blob in members:
            BLOBS[("gen", recipe, name)] = blob
            srcs.append(["gen", recipe, name])
    n_gen = len(srcs) - n_fix
    synth = synth_sources(seed)
    for s in synth:
        BLOBS[tuple(s)] = pkg.frame(build_synth(*s[1:]))
    srcs.extend(synth)

    phases["load_generate_build"] = round(time.time() - t_phase, 1)
    t_phase = time.time()
    # -- (a) (b) (d): decode -> encode on every member ---------------------------------------
    costs = [40 + len(BLOBS[tuple(s)]) / 20 for s in srcs]
    infos = {}
    for res in pmap(work_roundtrip, balanced(srcs, costs, nshards), args.jobs):
        for src, info in res.pop("infos", []):
            infos[tuple(src)] = info
        run.merge(res)

    distinct = {}
    by_kind_distinct = {"fix": set(), "gen": set(), "synth": set()}
    synth_sizes = set()
    for src in srcs:
        info = infos.get(tuple(src))
        if info is None:
            continue
        if info.get("malformed"):
            run.count("members_not_well_formed_excluded")
            run.outcome("excluded, not well-formed: " + info["malformed"].split(":")[0])
            continue
        if info.get("skipped"):
            run.count("members_with_unmapped_message_type_excluded")
            continue
        run.count("well_formed_archives")
        run.outcome(f"round trip evaluated: {src[0]}, {'multi' if info['in_chunks'] > 1 else 'single'}-chunk input")
        for k in ("segments", "messages", "multi", "merge", "unknown"):
            run.count({"segments": "segments_total", "messages": "messages_total", "multi": "multi_message_segments",
                       "merge": "merge_patch_messages", "unknown": "messages_with_unknown_fields"}[k], info[k])
        if info["in_chunks"] > 1:
            run.count("multi_chunk_inputs")
        if info.get("out_chunks", 0) > 1:
            run.count("multi_chunk_encoder_outputs")
        run.count("stored_chunks_in_inputs", info["in_stored"])
        run.extra["largest_stream_bytes"] = max(run.extra.get("largest_stream_bytes", 0), info["stream_len"])
        by_kind_distinct[src[0]].add(info["sha"])
        if src[0] == "synth":
            synth_sizes.add(info["stream_len"])
        if info["sha"] not in distinct:
            distinct[info["sha"]] = (src, info["stream_len"], info["messages"])
    run.count("distinct_streams", len(distinct))
    if not distinct:
        run.floor("at least one well-formed archive was decoded", False)
        return run.finish({"exhaustive": False})

    phases["decode_encode"] = round(time.time() - t_phase, 1)
    t_phase = time.time()
    dsrcs = [v[0] for v in distinct.values() if v[1] > 0]
    # -- (e): encoder-side size changes; damaged framings for the sniffer ----------------------
    enc, ecost = [], []
    for total in (1, 65536):
        for nseg in (1, 2, 300):
            for kind in KINDS:
                for unk in (0, 1):
                    for d in EDIT_DELTAS:
                        enc.append(["edit", ["synth", total, nseg, kind, 1, unk, seed], d])
                        ecost.append(float(nseg))
    for count in CREATE_COUNTS:
        for size in CREATE_SIZES:
            enc.append(["create", count, size, seed])
            ecost.append(float(count))
    for src, n, nmsg in distinct.values():  # every distinct stream (fixtures, generated documents, synthetic)
        if n > 0:
            for ed in REENCODE_EDITS:
                enc.append(["reencode", src, ed])
                ecost.append(0.1 + nmsg * 0.05 + n / 2e4)
    for src, n, _nmsg in distinct.values():
        if n > 0:
            for v in SNIFF_VARIANTS:
                enc.append(["sniff", src, v])
                ecost.append(0.05 + n / 1e5)
    for res in pmap(work_encoder, balanced(enc, ecost, nshards), args.jobs):
        run.merge(res)
    phases["encoder_side_and_sniffer"] = round(time.time() - t_phase, 1)
    t_phase = time.time()

    # -- (c): re-chunkings of every distinct stream ------------------------------------------
    known = load_known(PID)
    unlisted = [r for r in run.failures.values() if not any(ident_matches(k["match"], r["ident"]) for k in known)]
    if unlisted:
        # the verdict is already VIOLATION; do not spend minutes re-chunking with a codec that fails the plain round trip
        run.cap(f"the decode->encode / encoder-side / sniffer phases already failed with {len(unlisted)} unlisted identities: re-chunking phase not run")
        return run.finish({"exhaustive": False, "fixture_members": n_fix, "generated_members": n_gen, "synthetic_archives": len(synth)})
    items, dcost = [], []
    for src, n, nmsg in distinct.values():
        if n > 0:
            cost = n_variants(n, tier) * (30 + 18 * nmsg + 0.003 * n) * 1e-6 + 1e-4  # seconds, measured single-core
            nparts = max(1, min(64, int(cost / 1.5) + 1))
            for k in range(nparts):
                items.append((src, k, nparts))
                dcost.append(cost / nparts)
    run.extra["estimated_rechunk_cpu_s"] = round(sum(dcost), 1)
    for res in pmap(work_rechunk, [(tier, b) for b in balanced(items, dcost, nshards * 2)], args.jobs):
        run.merge(res)
    phases["rechunk"] = round(time.time() - t_phase, 1)
    # -- samples, floors, evidence ---------------------------------------------------------
    c = run.counters
    for s in (srcs[0], srcs[n_fix] if n_gen else None, synth[len(synth) // 2]):
        if s is not None:
            info = infos.get(tuple(s)) or {}
            run.sample({"case": ["roundtrip", s], "stream_bytes": info.get("stream_len"), "segments": info.get("segments")})
    big = max(distinct.values(), key=lambda v: v[1])
    run.sample({"case": ["rechunk", big[0], family(big[1])[:2], [0, 1, 0]], "stream_bytes": big[1]})
    run.sample({"case": enc[0]})
    run.sample({"case": enc[-1]})
    for lay in ("compressed", "stored", "mixed"):
        run.outcome(f"re-chunking evaluated: {lay} pieces", c["rechunk_" + lay])
    run.outcome("re-chunking skipped: ambiguous stored piece", c["rechunk_skipped_ambiguous_stored_piece"])
    run.outcome("damaged framing judged by sniffer", c["sniff_damaged_variants"])
    run.outcome("encoder-side edit/create evaluated", c["edit_cases"] + c["create_cases"])
    run.outcome("second encoding after edit evaluated", c["reencode_cases"])
    run.outcome("second encoding: edit not applicable to this archive", c["reencode_not_applicable"])
    if run.n_failures:
        run.outcome("failed", run.n_failures)

    want_synth = {s for s in SIZES if s > 1}
    run.floor(">= 5000 fixture IWA members enumerated and >= 60 fixtures (incl. a package folder and the template)",
              c["roundtrip_fix"] >= 5000 and c["fixtures_enumerated"] >= 60 and c["fixtures_package_folders"] >= 1 and ("fix", "@template", "Index/Document.iwa") in infos)
    run.floor(">= 4 generated documents with >= 100 IWA members, one encoder output over 64 KiB", c["generated_documents"] >= 4 and n_gen >= 100 and c["multi_chunk_encoder_outputs"] >= 1)
    run.floor("every synthetic size from 65535 upwards was built exactly, size 0 is the empty stream", want_synth <= synth_sizes and 0 in synth_sizes)
    run.floor("all synthetic shapes evaluated", c["roundtrip_synth"] == len(SIZES) * len(NSEGS) * len(KINDS) * 4 + len(IDENT_BASES) * 2 * len(KINDS) * 2)
    run.floor(">= 50 multi-chunk inputs, >= 100 multi-message segments, >= 50 merge-patch messages, >= 100 messages with unknown fields",
              c["multi_chunk_inputs"] >= 50 and c["multi_message_segments"] >= 100 and c["merge_patch_messages"] >= 50 and c["messages_with_unknown_fields"] >= 100)
    if c["rechunk_not_evaluated_after_repeated_failures"]:
        run.cap(f"{c['rechunk_not_evaluated_after_repeated_failures']} re-chunkings of already failing streams not evaluated")
    run.floor("re-chunkings: >= 100 000 evaluated, all three layouts, single cuts, pairs and grids, >= 50 streams over 64 KiB, some ambiguous pieces skipped",
              c["rechunk_evaluations"] >= 100_000 and min(c["rechunk_compressed"], c["rechunk_stored"], c["rechunk_mixed"]) >= 10_000
              and min(c["rechunk_single_cut"], c["rechunk_cut_pair"], c["rechunk_grid"]) >= 100 and c["rechunk_streams_over_64KiB"] >= 50
              and c["rechunk_skipped_ambiguous_stored_piece"] >= 1)
    run.floor("every distinct non-empty stream was re-chunked", c["rechunk_streams"] == len(dsrcs))
    run.floor("encoder-side cases: >= 150 edits and all create cases", c["edit_cases"] >= 150 and c["create_cases"] == len(CREATE_COUNTS) * len(CREATE_SIZES))
    run.floor("second encodings: every edit kind evaluated on >= 100 fixture, >= 50 generated-only and >= 90 synthetic distinct archives "
              "(edit of the last of several messages: >= 20 / 1 / 20)",
              all(c[f"reencode_{ed}_{k}"] >= (last if ed == "same-size-last" else m)
                  for ed in REENCODE_EDITS for k, m, last in (("fix", 100, 20), ("gen", 50, 1), ("synth", 90, 20))))
    run.floor("damaged-framing variants evaluated for the sniffer", c["sniff_damaged_variants"] >= 4 * len(dsrcs))
    run.assume("python-snappy, zipfile, google.protobuf and the generated message classes are trusted (schema and third-party codecs)")
    run.assume("well-formed = the independent walker accepts the chunk framing, the segment walk consumes the stream exactly and every message "
               "parses with its mapped class; members failing this (damaged/encrypted fixtures) are excluded from the codec oracle and counted")
    run.assume("a stored piece that snappy accepts is an ambiguous container and is skipped (counted as rechunk_skipped_ambiguous_stored_piece)")
    single_max, pair_max = BOUNDS[tier]
    cov = {
        "distinct_nontrivial": len(distinct) + c["rechunk_evaluations"] + c["sniff_damaged_variants"] + c["edit_cases"] + c["create_cases"] + c["reencode_cases"],
        "rule": "distinct archive streams (SHA-1 of the independently unframed stream; identical members of different fixtures count once) "
                "+ executed (distinct stream, cut set, stored/compressed assignment) re-chunkings, skipped ambiguous assignments not counted "
                "+ damaged-framing variants per distinct stream + encoder-side edit/create cases + (distinct stream, edit kind) second encodings; each runs the real decoder and/or encoder "
                "and is compared with the independent framer/unframer",
        "bounds": {"all_single_cuts_up_to_bytes": single_max, "all_cut_pairs_up_to_bytes": pair_max, "boundary_family": "1,2,n/2,65535,65536,65537,n-1",
                   "synthetic_sizes": SIZES, "synthetic_segments": NSEGS, "synthetic_kinds": KINDS},
        "fixture_members": n_fix, "generated_members": n_gen, "synthetic_archives": len(synth),
        "exhaustive": True,
    }
    return run.finish(cov)


if __name__ == "__main__":
    try:
        sys.exit(main())
    except Exception as e:  # noqa: BLE001 - a crash of the harness is never a verdict
        import traceback

        traceback.print_exc()
        print(f"HARNESS-ERROR property={PID} {type(e).__name__}: {e}")
        sys.exit(2)
