"""Per-check metadata; tools/gen_manifest.py turns it into /verif/MANIFEST.json."""

CHECKS = {
    "C10": dict(
        category="exploration",
        technique="bounded exhaustive enumeration of the complete argument space (depth-1 explicit-state search) against an independent base-26 generator",
        text="Complete enumeration of the stated domain: all 18278 columns x both markers, all rows 0..1,000,000 x 4 marker combinations x 6 boundary columns, all 31^4 range corner pairs, negatives. Within the documented limits this is a decision, not a sample.",
        note="Trusts itertools.product as the independent bijective base-26 numbering; rows > 1,000,000 and columns > ZZZ not enumerated.",
        design_ref="DESIGN.md section 3, C10",
    ),
}

NOT_BUILT_REASON = "check not built yet (work in progress; see DESIGN.md section 3 for the design)"

# properties deliberately not claimed (none so far); id -> one-line reason
NOT_APPLICABLE = {}
