"""C02 - re-saving an unmodified document preserves everything the library reads.

State space: (document d, touch set T of read-only accessors invoked before saving, cycle k).
d ranges over every readable fixture, the template and the API-generated family (mc.gen_docs);
T over subsets of {formula, formatted_value, style, border, geometry}; k = 1..3 open/save cycles.
Oracle: snapshot(d_k) == snapshot(d_0) and snapshot(d_{k+1}) == snapshot(d_k), modulo the two
documented exceptions (ErrorCell cells, pivot tables), each of which must be announced by a warning.
"""
from __future__ import annotations

import itertools
import os
import sys

from mc import gen_docs
from mc.evidence import Part, Run, parse_args, run_replay
from mc.pool import Scratch, pmap
from mc.snapshot import doc_snap, open_doc, readable_fixtures, save_doc

PID = "C02"
ACCESSORS = ["formula", "formatted_value", "style", "border", "geometry"]


def touch(doc, tset, part=None):
    raised = 0
    for s in doc.sheets:
        for t in s.tables:
            if "geometry" in tset:
                for r in range(t.num_rows):
                    try:
                        t.row_height(r)
                    except Exception:  # noqa: BLE001
                        raised += 1
                for c in range(t.num_cols):
                    try:
                        t.col_width(c)
                    except Exception:  # noqa: BLE001
                        raised += 1
            cell_acc = [a for a in ("formula", "formatted_value", "style", "border") if a in tset]
            if not cell_acc:
                continue
            for row in t.rows():
                for cell in row:
                    for a in cell_acc:
                        try:
                            getattr(cell, a)
                        except Exception:  # noqa: BLE001
                            raised += 1
    return raised


def _source_path(src):
    kind, name = src
    if kind == "fixture":
        return name
    p = Scratch.path(f"c02-gen-{os.getpid()}-{name}.numbers")
    d = gen_docs.build(name)
    d.save(p)
    return p


def _structured_diff(a, b):
    """-> list of (class, description, sheet, table, r, c) ; a = before, b = after"""
    out = []
    na = [(x["sheet"], x["table"]) for x in a]
    nb = [(x["sheet"], x["table"]) for x in b]
    if na != nb:
        out.append(("names-or-order", f"sheets/tables {na} -> {nb}", None, None, None, None))
        if len(a) != len(b):
            return out
    for ta, tb in zip(a, b):
        if (ta["nr"], ta["nc"]) != (tb["nr"], tb["nc"]):
            out.append(("dims", f"{ta['sheet']}/{ta['table']} dims {(ta['nr'], ta['nc'])} -> {(tb['nr'], tb['nc'])}", ta["sheet"], ta["table"], None, None))
            continue
        if ta["mr"] != tb["mr"]:
            out.append(("merge-ranges", f"{ta['sheet']}/{ta['table']} merge_ranges {ta['mr']} -> {tb['mr']}", ta["sheet"], ta["table"], None, None))
        for r, (ra, rb) in enumerate(zip(ta["rows"], tb["rows"])):
            for c, (ca, cb) in enumerate(zip(ra, rb)):
                if ca != cb:
                    for k in sorted(set(ca) | set(cb)):
                        if ca.get(k) != cb.get(k):
                            out.append((f"cell-{k}", f"{ta['sheet']}/{ta['table']}[{r},{c}] {k}: {ca.get(k)!r} -> {cb.get(k)!r} (cell was {ca.get('t')})", ta["sheet"], ta["table"], r, c))
    return out


KEYNAMES = {"cell-t": "type", "cell-v": "value", "cell-f": "formula", "cell-fv": "formatted", "cell-b": "bullets", "cell-h": "hyperlinks", "cell-m": "merge-state"}


def eval_case(case):
    """case = [src_kind, src_name, touch list, cycles] -> (failures, stats)"""
    kind, name, tset, cycles = case
    fails = []
    stats = {"accessor_raised": 0, "errorcell_exceptions": 0, "pivot_exceptions": 0, "cells": 0}
    tmp = []
    try:
        p0 = _source_path((kind, name))
        if kind == "gen":
            tmp.append(p0)
        obs0, _w = open_doc(p0)
        s0 = doc_snap(obs0)
        stats["cells"] = sum(t["nr"] * t["nc"] for t in s0)
        error_cells = {(t["sheet"], t["table"], r, c) for t in s0 for r, row in enumerate(t["rows"]) for c, cell in enumerate(row) if cell["t"] == "ErrorCell"}
        prev_snap, prev_path = s0, p0
        for k in range(1, cycles + 1):
            worker, _ = open_doc(prev_path)
            stats["accessor_raised"] += touch(worker, tset)
            pk = Scratch.path(f"c02-{os.getpid()}-{abs(hash((kind, name, tuple(tset))))}-{k}.numbers")
            tmp.append(pk)
            try:
                warns = save_doc(worker, pk)
            except Exception as e:  # noqa: BLE001
                fails.append(({"mechanism": "save", "class": f"raised-{type(e).__name__}", "touch": "some" if tset else "none"},
                              f"{name} touch={tset} cycle {k}: save raised {type(e).__name__}: {e}"))
                break
            pivot_tables = {w.split("'")[1] for w in warns if w.startswith("Not modifying pivot table")}
            errwarn = any("ErrorCell" in w for w in warns)
            try:
                obs, _ = open_doc(pk)
                sk = doc_snap(obs)
            except Exception as e:  # noqa: BLE001
                fails.append(({"mechanism": "reopen", "class": f"raised-{type(e).__name__}", "touch": "some" if tset else "none"},
                              f"{name} touch={tset} cycle {k}: reopening the saved copy raised {type(e).__name__}: {e}"))
                break
            # the same open object saved a second time must produce the same document again
            pk2 = pk.replace(".numbers", "-again.numbers")
            tmp.append(pk2)
            try:
                save_doc(worker, pk2)
                obs2, _ = open_doc(pk2)
                for cls, desc, sh, tb, r, c in _structured_diff(sk, doc_snap(obs2)):
                    if tb in pivot_tables:
                        continue
                    fails.append(({"mechanism": "second-save-of-same-object", "class": KEYNAMES.get(cls, cls), "touch": "some" if tset else "none"},
                                  f"{name} touch={tset} cycle {k}: second save of the same open document differs from its first save: {desc}"))
                    if len(fails) > 40:
                        break
            except Exception as e:  # noqa: BLE001
                fails.append(({"mechanism": "second-save-of-same-object", "class": f"raised-{type(e).__name__}", "touch": "some" if tset else "none"},
                              f"{name} touch={tset} cycle {k}: second save of the same open document raised {type(e).__name__}: {e}"))
            for base, base_snap in (("previous", prev_snap), ("original", s0)):
                if base == "original" and k == 1:
                    continue
                for cls, desc, sh, tb, r, c in _structured_diff(base_snap, sk):
                    if (sh, tb, r, c) in error_cells:
                        # documented exception: must have been announced (on the cycle that dropped the cell)
                        if k == 1 and not errwarn:
                            fails.append(({"mechanism": "resave", "class": "errorcell-changed-without-warning"}, f"{name}: {desc} but no ErrorCell warning was emitted"))
                        stats["errorcell_exceptions"] += 1
                        continue
                    if tb in pivot_tables:
                        stats["pivot_exceptions"] += 1
                        continue
                    fails.append(({"mechanism": "resave", "class": KEYNAMES.get(cls, cls), "against": base, "cycle": "first" if k == 1 else "later",
                                   "touch": "some" if tset else "none"},
                                  f"{name} touch={tset} cycle {k} vs {base}: {desc}"))
                    if len(fails) > 40:
                        break
            prev_snap, prev_path = sk, pk
    finally:
        for p in tmp:
            if os.path.exists(p):
                os.unlink(p)
    return fails, stats


def work(case):
    part = Part()
    fails, stats = eval_case(case)
    part.count("evaluations")
    part.count("cycles", case[3])
    part.count("cells_compared", stats["cells"] * case[3])
    part.count("accessor_calls_that_raised", stats["accessor_raised"])
    part.count("errorcell_exceptions", stats["errorcell_exceptions"])
    part.count("pivot_exceptions", stats["pivot_exceptions"])
    part.outcome("clean" if not fails else "diff")
    if stats["cells"] > 0:
        part.count("nontrivial_cases")
    for ident, detail in fails:
        part.fail(ident, detail, case)
    part.sample({"document": os.path.basename(case[1]), "touch": case[2], "cycles": case[3], "cells": stats["cells"]})
    return part.dump()


def cases(tier):
    docs = [("fixture", p, n) for p, n in readable_fixtures()] + [("gen", n, 0) for n in gen_docs.names()]
    out = []
    for kind, name, ncells in docs:
        if tier == "quick":
            tsets = [[], list(ACCESSORS)]
            cycles = 2
            if ncells > 10000:
                tsets = [list(ACCESSORS)]
        else:
            cycles = 3
            if ncells < 2000:
                tsets = [list(c) for n in range(len(ACCESSORS) + 1) for c in itertools.combinations(ACCESSORS, n)]
            else:
                tsets = [[]] + [[a] for a in ACCESSORS] + [list(ACCESSORS)]
        for ts in tsets:
            out.append([kind, name, ts, cycles])
    # big documents first for load balance
    size = {name: n for _, name, n in docs}
    out.sort(key=lambda c: -size.get(c[1], 0))
    return out


def main():
    args = parse_args()
    if args.replay:
        def rp(case, payload):
            fails, _ = eval_case(case)
            return bool(fails), f"case {case}: " + ("; ".join(d for _, d in fails[:4]) or "re-saves unchanged")
        return run_replay(args, rp)
    run = Run(PID, "exploration", args)
    cs = cases(args.tier)
    for res in pmap(work, cs, args.jobs):
        run.merge(res)
    ndocs = len({c[1] for c in cs})
    run.floor(">= 60 readable documents and >= 10 API-generated documents", ndocs >= 70)
    # (no floor on errorcell_exceptions: a library that leaves unmodified tables untouched never drops error cells,
    #  and that is at least as good as the documented exception; the count is reported in the evidence)
    run.assume("content the library does not read (charts, comments, conditional styles) is outside the statement")
    run.assume("accessors that raise on a fixture (style with unknown font, formatted_value of an error cell, formula in a pivot table) are counted, not judged")
    cov = {
        "distinct_nontrivial": run.counters["nontrivial_cases"],
        "documents": ndocs,
        "rule": "one case = (document, touch set, cycles); complete product of the document list with the tier's touch sets; non-trivial = the document has at least one cell",
        "exhaustive": True,
    }
    return run.finish(cov)


if __name__ == "__main__":
    sys.exit(main())
