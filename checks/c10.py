"""C10 - A1-notation conversion functions are mutually inverse bijections.

Complete enumeration (depth-1 state space): every column 0..18277 x col_abs, every row
0..1,000,000 x 4 marker combinations x a column boundary set, every corner pair of a 31x31 grid
for xl_range, negatives on either axis. Oracle: an independent bijective base-26 generator
(itertools.product), round-trip equality, exact '$' placement, IndexError for negatives, and
agreement of the second decoder (tokenizer.parse_numbers_range) with the first.
"""
from __future__ import annotations

import itertools
import string
import sys

from mc.evidence import Part, Run, parse_args, run_replay
from mc.pool import pmap, shards

from numbers_parser.tokenizer import parse_numbers_range
from numbers_parser.xrefs import (
    xl_cell_to_rowcol,
    xl_col_to_name,
    xl_col_to_offset,
    xl_range,
    xl_rowcol_to_cell,
)

PID = "C10"
NCOLS = 26 + 26**2 + 26**3  # 18278 names of up to three letters
COL_SET = [0, 25, 26, 701, 702, 18277]
ROW_SET = [0, 8, 9, 98, 99, 999, 999_999, 1_000_000]


def ref_names():
    """Independent generator of the bijective base-26 numbering, in order."""
    for n in (1, 2, 3):
        for t in itertools.product(string.ascii_uppercase, repeat=n):
            yield "".join(t)


REF = list(ref_names())


class _StubCache:
    def refresh(self):
        pass


class _StubModel:
    """The range parser only needs the name scopes of a model; coordinates do not depend on it."""

    name_ref_cache = _StubCache()

    def table_names(self):
        return []

    def table_id_to_sheet_id(self, _):
        return None


STUB = _StubModel()


def _exc(fn, *a):
    try:
        return ("ok", fn(*a))
    except Exception as e:  # noqa: BLE001
        return ("exc", type(e).__name__)


def eval_case(case):
    """Evaluate one case; return list of (ident, detail). Used by the enumeration and by --replay."""
    kind = case[0]
    out = []
    if kind == "col":
        _, c, ab = case
        want = ("$" if ab else "") + REF[c]
        got = _exc(xl_col_to_name, c, ab)
        if got != ("ok", want):
            out.append(({"mechanism": "xl_col_to_name", "class": "wrong-name"}, f"xl_col_to_name({c},{ab}) -> {got}, expected {want!r}"))
        back = _exc(xl_col_to_offset, want)
        if back != ("ok", c):
            out.append(({"mechanism": "xl_col_to_offset", "class": "wrong-index"}, f"xl_col_to_offset({want!r}) -> {back}, expected {c}"))
        # second decoder: the formula-range parser (cell, full range and column range forms)
        for row in (0, 41):
            txt = want + str(row + 1)
            r = _exc(parse_numbers_range, STUB, txt)
            ok = r[0] == "ok" and (r[1].col_start, r[1].row_start, r[1].col_start_is_abs) == (c, row, bool(ab))
            if not ok:
                got2 = (r[1].col_start, r[1].row_start, r[1].col_start_is_abs) if r[0] == "ok" else r
                out.append(({"mechanism": "parse_numbers_range", "class": "cell"}, f"parse_numbers_range({txt!r}) -> {got2}, expected {(c, row, bool(ab))}"))
        txt = f"{want}:{want}"
        r = _exc(parse_numbers_range, STUB, txt)
        if not (r[0] == "ok" and (r[1].col_start, r[1].col_end) == (c, c)):
            out.append(({"mechanism": "parse_numbers_range", "class": "col-range"}, f"parse_numbers_range({txt!r}) -> {r}"))
    elif kind == "cell":
        _, r, c, ra, ca = case
        want = ("$" if ca else "") + REF[c] + ("$" if ra else "") + str(r + 1)
        got = _exc(xl_rowcol_to_cell, r, c, ra, ca)
        if got != ("ok", want):
            out.append(({"mechanism": "xl_rowcol_to_cell", "class": "wrong-text"}, f"xl_rowcol_to_cell({r},{c},{ra},{ca}) -> {got}, expected {want!r}"))
        back = _exc(xl_cell_to_rowcol, want)
        if back != ("ok", (r, c)):
            out.append(({"mechanism": "xl_cell_to_rowcol", "class": "round-trip"}, f"xl_cell_to_rowcol({want!r}) -> {back}, expected {(r, c)}"))
    elif kind == "range":
        _, r1, c1, r2, c2 = case
        a = REF[c1] + str(r1 + 1)
        b = REF[c2] + str(r2 + 1)
        want = a if (r1, c1) == (r2, c2) else a + ":" + b
        got = _exc(xl_range, r1, c1, r2, c2)
        if got != ("ok", want):
            out.append(({"mechanism": "xl_range", "class": "collapse" if ":" not in str(got[1]) or ":" not in want else "wrong-text"},
                        f"xl_range({r1},{c1},{r2},{c2}) -> {got}, expected {want!r}"))
        if r1 <= 40 and r2 <= 40:
            p = _exc(parse_numbers_range, STUB, want)
            if (r1, c1) != (r2, c2):
                ok = p[0] == "ok" and (p[1].row_start, p[1].col_start, p[1].row_end, p[1].col_end) == (r1, c1, r2, c2)
            else:
                ok = p[0] == "ok" and (p[1].row_start, p[1].col_start) == (r1, c1)
            if not ok:
                out.append(({"mechanism": "parse_numbers_range", "class": "range"}, f"parse_numbers_range({want!r}) disagrees with corners {(r1, c1, r2, c2)}: {p}"))
    elif kind == "neg":
        _, fn, argv = case
        f = {"cell": xl_rowcol_to_cell, "name": xl_col_to_name, "range": xl_range}[fn]
        got = _exc(f, *argv)
        if got != ("exc", "IndexError"):
            out.append(({"mechanism": fn, "class": "negative-not-rejected"}, f"{fn}{tuple(argv)} -> {got}, expected IndexError"))
    return out


def gen_cases(group, lo, hi, tier):
    if group == "col":
        for c in range(lo, hi):
            for ab in (False, True):
                yield ("col", c, ab)
    elif group == "row":
        cols = COL_SET
        for r in range(lo, hi):
            for c in cols:
                for ra in (False, True):
                    for ca in (False, True):
                        yield ("cell", r, c, ra, ca)
    elif group == "colrow":
        for c in range(lo, hi):
            for r in ROW_SET:
                for ra in (False, True):
                    for ca in (False, True):
                        yield ("cell", r, c, ra, ca)
    elif group == "range":
        n = 31
        for i in range(lo, hi):
            r1, c1 = divmod(i, n)
            for r2 in range(n):
                for c2 in range(n):
                    yield ("range", r1, c1, r2, c2)
    elif group == "rangeb":
        pts = [(r, c) for r in ROW_SET for c in COL_SET]
        for i in range(lo, hi):
            for q in pts:
                yield ("range", *pts[i], *q)


def work(task):
    group, lo, hi, tier = task
    part = Part()
    n = 0
    for case in gen_cases(group, lo, hi, tier):
        n += 1
        for ident, detail in eval_case(case):
            part.fail(ident, detail, list(case))
    part.count("evaluations", n)
    part.count(f"cases_{group}", n)
    if n:
        part.sample({"group": group, "first_case_of_shard": list(next(gen_cases(group, lo, hi, tier)))})
    return part.dump()


def main():
    args = parse_args()
    if args.replay:
        def rp(case, payload):
            case = tuple(tuple(x) if isinstance(x, list) else x for x in case)
            res = eval_case(case)
            return bool(res), f"case {case}: " + ("; ".join(d for _, d in res) or "agrees with the oracle")
        return run_replay(args, rp)
    run = Run(PID, "exploration", args)
    max_row = 1_000_000
    tasks = []
    for lo, hi in shards(NCOLS, 8):
        tasks.append(("col", lo, hi, args.tier))
        tasks.append(("colrow", lo, hi, args.tier))
    for lo, hi in shards(max_row + 1, 64):
        tasks.append(("row", lo, hi, args.tier))
    for lo, hi in shards(31 * 31, 32):
        tasks.append(("range", lo, hi, args.tier))
    tasks.append(("rangeb", 0, len(ROW_SET) * len(COL_SET), args.tier))
    for res in pmap(work, tasks, args.jobs):
        run.merge(res)
    # negatives (tiny, in the main process)
    n = 0
    for neg in (-3, -2, -1):
        for other in (0, 1, 25, 26, 702):
            for ra in (False, True):
                for ca in (False, True):
                    for case in (("neg", "cell", [neg, other, ra, ca]), ("neg", "cell", [other, neg, ra, ca]), ("neg", "cell", [neg, neg, ra, ca])):
                        n += 1
                        for ident, detail in eval_case(case):
                            run.fail(ident, detail, list(case))
            for pos in range(4):
                argv = [other, other, other, other]
                argv[pos] = neg
                n += 1
                case = ("neg", "range", argv)
                for ident, detail in eval_case(case):
                    run.fail(ident, detail, list(case))
        for ca in (False, True):
            n += 1
            case = ("neg", "name", [neg, ca])
            for ident, detail in eval_case(case):
                run.fail(ident, detail, list(case))
    run.count("evaluations", n)
    run.count("cases_negative", n)
    run.sample({"group": "neg", "case": ["neg", "cell", [-1, 0, False, False]]})
    # independent-generator sanity: the reference numbering itself is a strictly increasing bijection
    keys = [(len(s), s) for s in REF]
    run.floor("reference numbering has 18278 distinct names in (length, lexicographic) order", len(set(REF)) == NCOLS and keys == sorted(keys))
    run.floor("every column and every row 0..1,000,000 was visited", run.counters["cases_col"] == 2 * NCOLS and run.counters["cases_row"] == (max_row + 1) * 4 * len(COL_SET))
    run.floor("all 31^4 corner pairs visited", run.counters["cases_range"] == 31**4)
    run.assume("rows above 1,000,000 and columns above ZZZ are outside the documented limits and not enumerated")
    cov = {
        "distinct_nontrivial": run.counters["evaluations"],
        "rule": "complete enumeration; every case is a distinct argument tuple (col, abs) / (row, col, row_abs, col_abs) / "
                "(r1, c1, r2, c2) / negative tuple; all are non-trivial (each is compared with the independent base-26 generator)",
        "exhaustive": True,
    }
    return run.finish(cov)


if __name__ == "__main__":
    sys.exit(main())
