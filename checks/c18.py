"""C18 - the formula tokenizer is lossless, total, and accepts every formula the reader emits.

Depth-1 state space, enumerated completely (no sampling):

 (a) every string of length <= L over a 34-symbol alphabet (letters A/E, digits, space, '.', every
     ASCII and typographic operator, brackets, separators, ':', both quotes, '#', '$', '!', '?'),
     L = 4 quick / 5 thorough, plus every longer string up to length 7 (both tiers) over the
     12-symbol sub-alphabet that drives the scanner's state
     (both quotes, four brackets, 'E', a digit, a sign, ',', ':', ' ');
     and every string of length <= 6 over the 8-symbol error-code alphabet  # N / A n a ( )
     (the only family with lower-case letters); after every refused string the scanner is probed
     for leaked state (tokenizing '' must give no tokens);
 (d) for every entry of the tokenizer's ERROR_CODES table (plus the 7 documented codes) every
     upper/lower-case assignment of its letters (2^k variants) in 8 operand contexts (alone,
     after '1+', before '+1', argument, second argument, inside braces, after a space, doubled);
 (b) every distinct formula text `Cell.formula` returns for every cell of every readable fixture;
 (c) every formula text rendered from C08's generated expression families (mc.ref_formula, if
     present), every reference text the reader prints over C09's naming configurations
     (mc.ref_refs, if present) and the formula texts read back from small documents built through
     the public API in which a header label of a referenced table belongs to one of the classes
     {plain, space, operator character, apostrophe, double quote} with / without a table prefix.

Oracle (exactly the statement): only TokenizerError may escape `Tokenizer(text)`; on success
`"".join(t.value for t in items) == text`; every maximal well-formed quoted segment found by an
independent left-to-right scanner lies inside a single token; texts of (b) and (c) are accepted.
"""
from __future__ import annotations

import itertools
import os
import re
import sys

from mc.evidence import Part, Run, parse_args, run_replay
from mc.pool import Scratch, pmap

from numbers_parser.formula import OPERATOR_MAP
from numbers_parser.tokenizer import Tokenizer, TokenizerError

PID = "C18"

# ------------------------------------------------------------------------------ alphabets
LETTERS = "ABCDFGHIJKLMNOPQRSTUVWXYZ"  # never 'E' (that is its own symbol)
DIGITS = "123456789"  # the scientific-notation regex wants a leading [1-9]
PLAIN = "?_@~é"  # characters without any role in the scanner


def alphabets(seed):
    """(34-symbol alphabet, 12-symbol scanner-state sub-alphabet). The seed only rotates which
    letter / non-zero digit / inert character / sign stands for its class; the sub-alphabet is a
    subset of the alphabet for every seed."""
    a = LETTERS[seed % len(LETTERS)]
    d = DIGITS[seed % len(DIGITS)]
    p = PLAIN[seed % len(PLAIN)]
    sign = "+-"[seed % 2]
    alpha = [a, "E", d, "0", " ", ".", "+", "-", "*", "/", "^", "&", "=", "<", ">", "%", "×", "÷", "≥",
             "≤", "≠", "(", ")", "{", "}", ",", ";", ":", '"', "'", "#", "$", "!", p]
    sub = ['"', "'", "(", ")", "{", "}", "E", d, sign, ",", ":", " "]
    assert len(set(alpha)) == 34 and len(set(sub)) == 12 and set(sub) <= set(alpha)
    return alpha, sub


# 8-symbol family: the letters of one complete error code ('#N/A') in both cases plus brackets; it
# is the only family with lower-case letters (error literals are matched against a table)
ERR_ALPHA = ["#", "N", "/", "A", "n", "a", "(", ")"]
ERR_LEN = 6
TASK_SUFFIX = {34: 3, 12: 4, 8: 5}  # free trailing positions per task (34^3 = 39 304, 12^4 = 20 736, 8^5 = 32 768 strings)

# part (d): every case variant of every error code, in every operand context
DOCUMENTED_ERROR_CODES = ("#NULL!", "#DIV/0!", "#VALUE!", "#REF!", "#NAME?", "#NUM!", "#N/A")
ERROR_CONTEXTS = {"alone": "{x}", "after-plus": "1+{x}", "before-plus": "{x}+1", "argument": "SUM({x})", "second-argument": "SUM(1,{x})",
                  "braces": "{{{x}}}", "after-space": " {x}", "doubled": "{x}{x}"}


def error_codes():
    """The tokenizer's own table, plus the documented codes (so that an entry removed from the
    table is still enumerated). Deterministic order."""
    table = tuple(getattr(Tokenizer, "ERROR_CODES", ()))
    return tuple(dict.fromkeys(tuple(c for c in table if isinstance(c, str)) + DOCUMENTED_ERROR_CODES))


def case_variants(code):
    """All 2^k upper/lower assignments of the k letters of `code`."""
    pos = [i for i, ch in enumerate(code) if ch.isalpha()]
    for bits in itertools.product((False, True), repeat=len(pos)):
        chars = list(code)
        for i, low in zip(pos, bits):
            chars[i] = chars[i].lower() if low else chars[i].upper()
        yield "".join(chars)


# ------------------------------------------------------------------------------ oracle
def quoted_segments(s):
    """Independent scanner: [start, end) of every maximal well-formed quoted segment, scanning
    left to right; a doubled delimiter inside a segment is an escaped delimiter. Returns
    (segments, complete): complete is False when an unterminated quote was met (no claim is made
    about the text from that point on)."""
    out = []
    i = 0
    n = len(s)
    while i < n:
        q = s[i]
        if q == '"' or q == "'":
            j = i + 1
            while True:
                k = s.find(q, j)
                if k < 0:
                    return out, False
                if k + 1 < n and s[k + 1] == q:
                    j = k + 2
                    continue
                break
            out.append((i, k + 1))
            i = k + 1
        else:
            i += 1
    return out, True


def _site(e):
    """Name of the innermost function that raised."""
    tb = e.__traceback__
    while tb.tb_next is not None:
        tb = tb.tb_next
    return tb.tb_frame.f_code.co_name


def _loss_class(s, joined):
    if len(joined) < len(s):
        return "dropped"
    if len(joined) > len(s):
        return "added"
    return "reordered" if sorted(joined) == sorted(s) else "substituted"


OPENERS = "(,;+-*/^&=<>%×÷≥≤≠{"
_QNAME = r"'(?:[^']|'')*'"
_Q_AFTER_PREFIX = re.compile("::" + _QNAME)
_Q_AFTER_COLON = re.compile("(?<=[^':]):" + _QNAME)


def _neutralise_dquotes(text):
    """Replace every double quote that follows operand text (i.e. sits inside a bare name) by '_'."""
    out = []
    i = 0
    hit = False
    while i < len(text):
        if text[i] == '"':
            prev = out[-1] if out else "("
            if prev in OPENERS:
                segs, _ = quoted_segments(text[i:])
                if segs and segs[0][0] == 0:
                    out.append(text[i:i + segs[0][1]])
                    i += segs[0][1]
                    continue
            out.append("_")
            hit = True
        else:
            out.append(text[i])
        i += 1
    return "".join(out), hit


def diagnose(text):
    """Why could a reader-produced text be refused? Looks for the reader's known spellings of header
    labels that are not at the start of an operand (quoted name behind a table prefix or behind the
    ':' of a span, apostrophe tripled inside a bare name, double quote inside a bare name), names
    the first one found, and returns the text with all of them neutralised. The caller only
    accepts the diagnosis if the neutralised text is tokenized - otherwise the refusal has another
    cause and the pattern is 'other'. -> (pattern, neutralised text)"""
    reasons = []
    t = text
    if _Q_AFTER_PREFIX.search(t):
        reasons.append("quoted-name-after-table-prefix")
        t = _Q_AFTER_PREFIX.sub("::Q", t)
    if _Q_AFTER_COLON.search(t):
        reasons.append("quoted-name-after-bare-span-start")
        t = _Q_AFTER_COLON.sub(":Q", t)
    if "'''" in t:
        reasons.append("tripled-apostrophe-in-name")
        t = t.replace("'''", "_")
    t2, hit = _neutralise_dquotes(t)
    if hit:
        reasons.append("double-quote-in-name")
        t = t2
    return (reasons[0] if reasons else "other"), t


def _neutralise_one(text, reason):
    if reason == "quoted-name-after-table-prefix":
        return _Q_AFTER_PREFIX.sub("::Q", text)
    if reason == "quoted-name-after-bare-span-start":
        return _Q_AFTER_COLON.sub(":Q", text)
    if reason == "tripled-apostrophe-in-name":
        return text.replace("'''", "_")
    return _neutralise_dquotes(text)[0]


def _reasons(text):
    out = []
    t = text
    if _Q_AFTER_PREFIX.search(t):
        out.append("quoted-name-after-table-prefix")
        t = _Q_AFTER_PREFIX.sub("::Q", t)
    if _Q_AFTER_COLON.search(t):
        out.append("quoted-name-after-bare-span-start")
        t = _Q_AFTER_COLON.sub(":Q", t)
    if "'''" in t:
        out.append("tripled-apostrophe-in-name")
    if _neutralise_dquotes(t)[1]:
        out.append("double-quote-in-name")
    return out


def refusal_pattern(text):
    # a single spelling that explains the refusal on its own wins (a text may contain several of them)
    for reason in _reasons(text):
        try:
            Tokenizer(_neutralise_one(text, reason))
            return reason
        except Exception:  # noqa: BLE001
            continue
    pattern, neutral = diagnose(text)
    if pattern != "other":
        try:
            Tokenizer(neutral)
        except Exception:  # noqa: BLE001 - the known spellings do not explain this refusal
            return "other"
    return pattern


def eval_text(s, must_accept=False, where=None):
    """Evaluate one string against the statement. -> (outcome, [(ident, detail), ...]).
    Used by the enumeration of every part and by --replay."""
    try:
        items = Tokenizer(s).items
    except TokenizerError as e:
        if must_accept:
            ident = {"mechanism": "reader-accept", "pattern": refusal_pattern(s), "outcome": "TokenizerError"}
            ident.update(where or {})
            return "rejected", [(ident, f"reader-produced formula text {s!r} is refused by the tokenizer: {e}")]
        return "rejected:" + _site(e), ()
    except Exception as e:  # noqa: BLE001 - the statement: nothing but TokenizerError may escape
        ident = {"mechanism": "totality", "escaped": type(e).__name__, "site": _site(e)}
        return "escaped", [(ident, f"Tokenizer({s!r}) raised {type(e).__name__}: {e} (only TokenizerError may escape)")]
    vals = [t.value for t in items]
    try:
        joined = "".join(vals)
    except TypeError:
        joined = None
    if joined != s:
        cls = "non-text-token" if joined is None else _loss_class(s, joined)
        return "lossy", [({"mechanism": "lossless", "class": cls},
                          f"Tokenizer({s!r}) succeeded with token texts {vals!r}; concatenation {joined!r} != input")]
    if '"' in s or "'" in s:
        segs, _ = quoted_segments(s)
        if segs:
            spans = []
            pos = 0
            for v in vals:
                spans.append((pos, pos + len(v)))
                pos += len(v)
            for a, b in segs:
                if not any(x <= a and b <= y for x, y in spans):
                    return "split", [({"mechanism": "quoted-unsplit", "quote": s[a]},
                                      f"Tokenizer({s!r}): quoted segment {s[a:b]!r} is split across tokens {vals!r}")]
            return "accepted+quoted", ()
    return "accepted", ()


def _silently(text):
    try:
        Tokenizer(text)
    except Exception:  # noqa: BLE001 - only used to re-create a history
        pass


def probe_leak(rejected):
    """The statement holds for every string whatever was tokenized before. Called right after
    `rejected` was refused: tokenizing the empty string must now give no tokens. (The probe also
    shows that the next string of the enumeration starts from a clean tokenizer.)
    -> [(ident, detail)]"""
    try:
        items = Tokenizer("").items
    except Exception as e:  # noqa: BLE001
        return [({"mechanism": "isolation", "class": "empty-input-raises-after-refusal", "escaped": type(e).__name__},
                 f"after Tokenizer({rejected!r}) was refused, Tokenizer('') raises {type(e).__name__}: {e}")]
    if items:
        return [({"mechanism": "isolation", "class": "state-leaks-after-refusal"},
                 f"after Tokenizer({rejected!r}) was refused, Tokenizer('') yields tokens {[t.value for t in items]!r}: scanner state "
                 "of the refused formula leaks into the next one, whose token texts then do not reproduce its input")]
    return []


def eval_case(case):
    """case = small JSON value. -> (outcome, failures, text)"""
    kind = case["kind"]
    if kind == "string":
        if case.get("after") is not None:  # the string evaluated immediately before, in the same process
            _silently(case["after"])
        out, fails = eval_text(case["text"])
        return out, fails, case["text"]
    if kind == "leak":
        _silently(case["text"])
        fails = probe_leak(case["text"])
        return ("leaked" if fails else "clean"), fails, case["text"]
    if kind == "reader":
        out, fails = eval_text(case["text"], True, {"part": case["part"], "origin": case["origin"]})
        return out, fails, case["text"]
    if kind == "api-doc":
        texts, note = api_doc_texts(case["label"], case["dup"])
        if case["shape"] not in texts:
            return "unbuilt", [({"mechanism": "harness", "class": "api-doc-build"}, f"could not rebuild {case}: {note}")], None
        text = texts[case["shape"]]
        where = {"part": "c", "origin": "api-doc", "label_class": label_class(case["label"]), "prefix": "::" in text}
        out, fails = eval_text(text, True, where)
        return out, fails, text
    raise ValueError(kind)


# ------------------------------------------------------------------------------ part (a)
def work_strings(task):
    """All strings  prefix + w,  w over the alphabet with len(w) == free."""
    alpha, prefix, free = task
    part = Part()
    out_count = {}
    n = 0
    first = None
    prev = None
    lower = 0
    probes = 0
    for tup in itertools.product(alpha, repeat=free):
        s = prefix + "".join(tup)
        n += 1
        out, fails = eval_text(s)
        out_count[out] = out_count.get(out, 0) + 1
        if fails:
            for ident, detail in fails:
                part.fail(ident, detail, {"kind": "string", "text": s, "after": prev})
        elif first is None and out == "accepted+quoted":
            first = s
        if out[0] != "a":  # refused (or escaped): the next formula must start from a clean scanner
            probes += 1
            for ident, detail in probe_leak(s):
                part.fail(ident, detail, {"kind": "leak", "text": s})
        if s != s.upper():
            lower += 1
        prev = s
    part.count("evaluations", n)
    part.count("isolation_probes_after_refusal", probes)
    part.count(f"strings_alphabet{len(alpha)}_with_lower_case", lower)
    part.count(f"strings_alphabet{len(alpha)}_len{len(prefix) + free}", n)
    for k, v in out_count.items():
        part.outcome(k, v)
    if first is not None:
        part.sample({"part": "a", "accepted_with_quoted_segment": first})
    return part.dump()


def work_error_codes(code):
    """Part (d): every case variant of one error code in every operand context."""
    part = Part()
    n = 0
    prev = None
    for variant in case_variants(code):
        for ctx, template in ERROR_CONTEXTS.items():
            s = template.format(x=variant)
            n += 1
            out, fails = eval_text(s)
            part.outcome(f"d:{out.split(':')[0]}")
            for ident, detail in fails:
                part.fail(dict(ident, part="d"), detail + f" [error code {code!r}, context {ctx}]", {"kind": "string", "text": s, "after": prev})
            if out[0] != "a":
                for ident, detail in probe_leak(s):
                    part.fail(ident, detail, {"kind": "leak", "text": s})
            elif variant != code:
                part.count("d_accepted_non_canonical_case")
            else:
                part.count("d_accepted_canonical_case")
            prev = s
    part.count("evaluations", n)
    part.count("d_error_code_strings", n)
    part.count("d_error_codes")
    d = part.dump()
    d["texts"] = {}
    return d


def string_tasks(alpha, lengths):
    tasks = []
    free_max = TASK_SUFFIX[len(alpha)]
    for ln in lengths:
        free = min(ln, free_max)
        for pre in itertools.product(alpha, repeat=ln - free):
            tasks.append((alpha, "".join(pre), free))
    return tasks


# ------------------------------------------------------------------------------ part (b)
def work_fixture(path):
    from mc.snapshot import open_doc

    part = Part()
    texts = {}
    doc, _ = open_doc(path)
    name = os.path.basename(path)
    for sheet in doc.sheets:
        for table in sheet.tables:
            for row in table.rows():
                for cell in row:
                    try:
                        f = cell.formula
                    except Exception as e:  # noqa: BLE001 - a raising accessor produces no text (C02/C08 judge it)
                        part.count("b_formula_accessor_raised")
                        part.outcome(f"accessor-raised:{type(e).__name__}")
                        continue
                    if f is None:
                        continue
                    part.count("b_formula_cells_read")
                    if f not in texts:
                        texts[f] = f"{name}:{sheet.name}/{table.name}[{cell.row},{cell.col}]"
    d = part.dump()
    d["texts"] = texts
    return d


def translated(text):
    """The string the library's own write path hands to the tokenizer for this text."""
    return text.translate(OPERATOR_MAP)


def judge_reader_text(run_or_part, text, part_name, origin, loc=None):
    out, fails = eval_text(text, True, {"part": part_name, "origin": origin})
    for ident, detail in fails:
        run_or_part.fail(ident, detail + (f" [{loc}]" if loc else ""), {"kind": "reader", "text": text, "part": part_name, "origin": origin})
    run_or_part.outcome(f"{part_name}:{out}")
    if out[0] != "a":
        for ident, detail in probe_leak(text):
            run_or_part.fail(ident, detail, {"kind": "leak", "text": text})
    # the translated spelling is only held to the universal part of the statement
    t2 = translated(text)
    if t2 != text:
        out2, fails2 = eval_text(t2)
        run_or_part.count(f"{part_name}_translated_spellings")
        for ident, detail in fails2:
            run_or_part.fail(ident, detail, {"kind": "string", "text": t2})
        if out2[0] != "a":
            for ident, detail in probe_leak(t2):
                run_or_part.fail(ident, detail, {"kind": "leak", "text": t2})
    return out


# ------------------------------------------------------------------------------ part (c)
def work_generated(task):
    tier, seed, i, n = task
    part = Part()
    from mc import ref_formula

    seen = set()
    for text in ref_formula.rendered_formulas(tier=tier, seed=seed, shard=(i, n)):
        part.count("c_generated_texts")
        if text in seen:
            continue
        seen.add(text)
        judge_reader_text(part, text, "c", "ref_formula")
    d = part.dump()
    d["texts"] = dict.fromkeys(seen, "")
    return d


def work_refs(task):
    """All reference texts the reader prints for one C09 naming configuration (mc.ref_refs)."""
    from mc import ref_refs

    part = Part()
    texts = ref_refs._texts_of_config(task)
    for text in texts:
        part.count("c_reference_texts")
        judge_reader_text(part, text, "c", "ref_refs")
    d = part.dump()
    d["texts"] = dict.fromkeys(texts, "")
    return d


LABEL_POOL = {  # class -> representatives (the seed picks one)
    "plain": ["plain", "Total", "x"],
    "space": ["a b", "unit price", "Q 1"],
    "operator": ["a+b", "x-y", "100%", "p*q", "n/a", "r&d", "2^n"],
    "apostrophe": ["it's", "o'clock", "a'b'c"],
    "dquote": ['5"', 'say "hi"', 'a"b'],
}
SHAPES = {"cross-column": "SUM(Table 1::colx)", "cross-span": "SUM(Table 1::colx:coly)", "same-table": "SUM(colx)"}


def label_class(label):
    for cls, reps in LABEL_POOL.items():
        if label in reps:
            return cls
    return "other"


def api_doc_texts(label, dup):
    """Build a two-table document through the public API, point formulas at a header label, rename
    the label to `label` (and, for dup, give Table 2 a column of the same name so that the label
    is no longer unique in the document), save, reopen and read the formula texts back.
    -> ({shape: text}, note)"""
    from numbers_parser import Document

    doc = Document(sheet_name="S", table_name="Table 1", num_rows=4, num_cols=3)
    t1 = doc.sheets[0].tables[0]
    t1.write(0, 1, "colx")
    t1.write(0, 2, "coly")
    t1.write(1, 1, 5)
    t2 = doc.sheets[0].add_table("Table 2", num_rows=4, num_cols=3)
    cells = {"cross-column": (t2, 1, 1), "cross-span": (t2, 2, 1), "same-table": (t1, 3, 1)}
    written = []
    notes = []
    for shape, (t, r, c) in cells.items():
        try:
            t.write(r, c, 0)
            t.cell(r, c).formula = SHAPES[shape]
            written.append(shape)
        except Exception as e:  # noqa: BLE001 - formula writing is not the property under test
            notes.append(f"{shape}: write raised {type(e).__name__}: {e}")
    t1.write(0, 1, label)
    if dup:
        t2.write(0, 2, label)
    path = Scratch.path(f"c18-{os.getpid()}.numbers")
    doc.save(path)
    doc2 = Document(path)
    os.unlink(path)
    out = {}
    for shape in written:
        t, r, c = cells[shape]
        t = doc2.sheets[0].tables[0 if t is t1 else 1]
        try:
            f = t.cell(r, c).formula
        except Exception as e:  # noqa: BLE001
            notes.append(f"{shape}: read raised {type(e).__name__}: {e}")
            continue
        if f is not None:
            out[shape] = f
    return out, "; ".join(notes)


def work_api_doc(task):
    label, dup = task
    part = Part()
    texts, note = api_doc_texts(label, dup)
    part.count("c_api_documents")
    for shape, text in texts.items():
        case = {"kind": "api-doc", "label": label, "dup": dup, "shape": shape}
        where = {"part": "c", "origin": "api-doc", "label_class": label_class(label), "prefix": "::" in text}
        out, fails = eval_text(text, True, where)
        for ident, detail in fails:
            part.fail(ident, detail + f" [label {label!r}, duplicated={dup}, written as {SHAPES[shape]!r}]", case)
        if out[0] != "a":
            for ident, detail in probe_leak(text):
                part.fail(ident, detail, {"kind": "leak", "text": text})
        part.count("c_api_texts")
        part.count("evaluations")
        part.outcome(f"c:{out}")
        if "::" in text:
            part.count("c_api_texts_with_prefix")
        if "'" in text or '"' in text:
            part.count("c_api_texts_with_quote")
        if dup and shape == "cross-column":
            part.sample({"part": "c", "label": label, "duplicated": dup, "written": SHAPES[shape], "read": text, "outcome": out})
    if note:
        part.outcome("api-doc-note:" + note[:80])
    d = part.dump()
    d["texts"] = dict.fromkeys(texts.values(), "")
    return d


# ------------------------------------------------------------------------------ driver
def main():
    args = parse_args()
    if args.replay:
        def rp(case, payload):
            out, fails, text = eval_case(case)
            msg = f"case {case}: text {text!r} -> {out}"
            return bool(fails), msg + ("".join("\n  " + d for _, d in fails) if fails else " (agrees with the statement)")
        return run_replay(args, rp)

    run = Run(PID, "exploration", args)
    run.max_samples = 16
    thorough = args.tier == "thorough"
    alpha, sub = alphabets(args.seed)
    L = 5 if thorough else 4
    LSUB = 7  # both tiers

    # (b)+(c) first: they contain the longest single tasks
    from mc.snapshot import readable_fixtures

    fixtures = [p for p, _ in readable_fixtures()]
    tasks = [(work_fixture, p) for p in fixtures]
    try:
        from mc import ref_formula  # noqa: F401
        have_gen = True
    except ImportError:
        have_gen = False
    n_gen_shards = 16 if thorough else 4
    if have_gen:
        tasks += [(work_generated, (args.tier, args.seed, i, n_gen_shards)) for i in range(n_gen_shards)]
    try:
        from mc import ref_refs

        ref_cfgs = [(n, sch, args.seed) for n, sch in ref_refs.text_configs(args.tier)]
        ref_refs._texts_of_config  # noqa: B018 - presence check
        have_refs = True
    except (ImportError, AttributeError):
        ref_cfgs = []
        have_refs = False
    tasks += [(work_refs, cfg) for cfg in ref_cfgs]
    labels = [reps[args.seed % len(reps)] for reps in LABEL_POOL.values()]
    tasks += [(work_api_doc, (lab, dup)) for lab in labels for dup in (False, True)]
    n_slow = len(tasks)
    tasks += [(work_strings, t) for t in string_tasks(alpha, range(0, L + 1))]
    tasks += [(work_strings, t) for t in string_tasks(sub, range(L + 1, LSUB + 1))]
    tasks += [(work_strings, t) for t in string_tasks(ERR_ALPHA, range(0, ERR_LEN + 1))]
    codes = error_codes()
    tasks += [(work_error_codes, code) for code in codes]

    fixture_texts = {}
    gen_texts = set()
    api_texts = set()
    ref_texts = set()
    pending_samples = []
    pending_failures = []
    for res in pmap(_dispatch, tasks, args.jobs, chunksize=1):
        which = res.pop("_which", None)
        texts = res.pop("texts", None)
        pending_samples.extend(res.pop("samples", []))
        pending_failures.extend(res.pop("failures", []))
        run.merge(res)
        if texts is not None:
            if which == "work_fixture":
                for k, v in texts.items():
                    fixture_texts.setdefault(k, v)
            elif which == "work_generated":
                gen_texts.update(texts)
            elif which == "work_refs":
                ref_texts.update(texts)
            else:
                api_texts.update(texts)

    # failures are merged smallest input first, so that the artefact kept per identity is minimal
    # and the same whatever order the workers finished in
    def _size(f):
        r = f["replay"]
        return (len(r["text"]), r["text"]) if "text" in r else (0, str(sorted(r.items())))
    pending_failures.sort(key=_size)
    run.merge({"failures": pending_failures})

    # (b): every distinct fixture text, judged once (deterministic order)
    for text in sorted(fixture_texts):
        judge_reader_text(run, text, "b", "fixture", fixture_texts[text])
        run.count("evaluations")
    run.count("b_distinct_fixture_formulas", len(fixture_texts))
    run.count("b_fixtures_read", len(fixtures))
    run.count("c_distinct_generated_texts", len(gen_texts))
    run.count("evaluations", len(gen_texts))
    run.count("c_distinct_api_texts", len(api_texts))
    run.count("c_distinct_reference_texts", len(ref_texts))
    run.count("c_reference_configurations", len(ref_cfgs))
    run.count("evaluations", len(ref_texts))
    # samples: chosen after the run in a fixed order (workers finish in any order)
    sa = sorted((x for x in pending_samples if x.get("part") == "a"), key=lambda x: (len(x["accepted_with_quoted_segment"]), x["accepted_with_quoted_segment"]))
    for x in sa[:2] + sa[-2:]:
        run.sample(x)
    for x in sorted((x for x in pending_samples if x.get("part") == "c"), key=lambda x: x["label"]):
        run.sample(x)
    for text in sorted(fixture_texts)[:: max(1, len(fixture_texts) // 3)][:3]:
        run.sample({"part": "b", "text": text, "at": fixture_texts[text]})
    for text in sorted(gen_texts)[:: max(1, len(gen_texts) // 2)][:2]:
        run.sample({"part": "c", "origin": "ref_formula", "text": text})
    for text in sorted(ref_texts)[:: max(1, len(ref_texts) // 2)][:2]:
        run.sample({"part": "c", "origin": "ref_refs", "text": text})

    # ---- coverage floors
    c = run.counters
    n_full = sum(34**k for k in range(L + 1))
    n_sub = sum(12**k for k in range(L + 1, LSUB + 1))
    got_full = sum(v for k, v in c.items() if k.startswith("strings_alphabet34_"))
    got_sub = sum(v for k, v in c.items() if k.startswith("strings_alphabet12_"))
    run.floor(f"all {n_full} strings of length <= {L} over the 34-symbol alphabet were evaluated", got_full == n_full)
    run.floor(f"all {n_sub} strings of length {L + 1}..{LSUB} over the 12-symbol sub-alphabet were evaluated", got_sub == n_sub)
    o = run.outcomes
    n_err = sum(8**k for k in range(ERR_LEN + 1))
    got_err = sum(v for k, v in c.items() if k.startswith("strings_alphabet8_len"))
    run.floor(f"all {n_err} strings of length <= {ERR_LEN} over the 8-symbol error-code alphabet {''.join(ERR_ALPHA)} were evaluated", got_err == n_err)
    n_d = sum(2 ** sum(ch.isalpha() for ch in code) for code in codes) * len(ERROR_CONTEXTS)
    run.floor(f"part (d): all {n_d} strings (case variants of {len(codes)} error codes x {len(ERROR_CONTEXTS)} contexts) were evaluated, "
              "the canonical spellings were accepted in >= 6 contexts each", c["d_error_code_strings"] == n_d and len(codes) >= 7
              and c["d_accepted_canonical_case"] >= len(codes) * 6)
    run.floor("the scanner was probed for leaked state after every refused string of parts (a) and (d)",
              c["isolation_probes_after_refusal"] >= sum(v for k, v in o.items() if k.startswith("rejected:")))
    run.floor("part (a) produced accepted, rejected and quoted-accepted strings", o["accepted"] > 0 and o["accepted+quoted"] > 0 and any(k.startswith("rejected:") for k in o))
    run.floor(">= 3 distinct rejection sites of the tokenizer (of the four reachable: operand text before a quote/#/{, bracket "
              "mismatch, bad error code, unterminated string) were reached in part (a)", len([k for k in o if k.startswith("rejected:")]) >= 3)
    run.floor(">= 60 fixtures and >= 4000 distinct fixture formulas were read", len(fixtures) >= 60 and len(fixture_texts) >= 4000)
    run.floor("fixture formulas include quoted strings, doubled quotes and table prefixes",
              any('""' in t for t in fixture_texts) and any("::" in t for t in fixture_texts) and any("#REF!" in t for t in fixture_texts))
    run.floor("API-built documents produced texts with and without a table prefix and with quoted labels",
              c["c_api_texts"] >= 2 * len(labels) * 2 and c["c_api_texts_with_prefix"] >= len(labels) and c["c_api_texts_with_quote"] >= 4)
    if have_gen:
        run.floor(">= 1000 distinct generated formula texts (mc.ref_formula) were evaluated", len(gen_texts) >= 1000)
    else:
        run.cap("mc.ref_formula not importable: 0 generated expression texts in part (c)")
    if have_refs:
        run.floor(">= 1000 distinct reference texts of C09's configurations (mc.ref_refs) were evaluated", len(ref_texts) >= 1000)
    else:
        run.cap("mc.ref_refs not importable: C09's configurations are represented only by the API-built documents in part (c)")
    run.assume("strings longer than the bounds, and characters outside the 34-symbol alphabet (each class of scanner-relevant "
               "character is represented; letters, digits and inert characters by one representative rotated by the seed), are not enumerated")
    run.assume("part (c) takes C08's rendered formulas from mc.ref_formula.rendered_formulas and C09's rendered references from "
               "mc.ref_refs (one text per reference, not embedded in a larger expression); the API-built two-table documents add "
               "the label classes x prefix present/absent through the public write path")
    accepted = o["accepted"] + o["accepted+quoted"]
    cov = {
        "distinct_nontrivial": got_full + got_sub + c["strings_alphabet8_with_lower_case"] + c["d_error_code_strings"] + len(fixture_texts) + len(gen_texts) + len(ref_texts) + len(api_texts),
        "rule": "distinct input strings: the 34- and 12-symbol families are disjoint by length, of the 8-symbol error-code family only "
                "strings with a lower-case letter are counted (the others may repeat strings of the first family), part (d) strings "
                "and fixture/generated/API texts are de-duplicated before counting; every one is run through the real Tokenizer "
                "and the full oracle",
        "strings_accepted_in_part_a": accepted,
        "strings_with_quoted_segment_accepted_in_part_a": o["accepted+quoted"],
        "strings_rejected_in_part_a": sum(v for k, v in o.items() if k.startswith("rejected:")),
        "bounds": {"alphabet34_max_len": L, "alphabet12_max_len": LSUB, "alphabet8_max_len": ERR_LEN, "alphabet8": "".join(ERR_ALPHA),
                   "error_codes": list(codes), "error_code_contexts": list(ERROR_CONTEXTS.values()), "alphabet34": "".join(alpha), "alphabet12": "".join(sub)},
        "generated_source_present": have_gen,
        "reference_source_present": have_refs,
        "slow_tasks": n_slow,
        "exhaustive": not run.caps,
    }
    return run.finish(cov)


def _dispatch(packed):
    fn, arg = packed
    res = fn(arg)
    res["_which"] = fn.__name__
    return res


if __name__ == "__main__":
    sys.exit(main())
