"""C17 - damaged or foreign files fail only with the library's own error types.

Fault enumeration: every element of explicitly bounded fault families is applied to real containers
held in memory, and the real entry point `Document(path)` is called on each result.

Bases      tmpl  = the template re-saved by the library (stored members)
           i18/i17 = the two smallest fixtures written by Numbers (deflated members, extra fields)
           pkg76 = package-folder fixture test-issue-76.numbers (faults land in its Index.zip)
           gen   = a generated document (cells of every kind), re-zipped deflated by mc.pkg
Families   path      missing / wrong suffix / folders without index / empty and foreign files
           trunc     every truncation length of the container (of Index.zip for pkg76)
           struct    every byte of every structural zip region x (8 bit flips + 0x00 + 0xFF)
           data      member data bytes x one bit (every byte: thorough, every 64th: quick)
           pairs     (thorough) all pairs of byte faults inside one header
           member    per archive member, through a rewritten container: empty, 1-3 bytes, truncations,
                     chunk marker / length / snappy payload faults, and faults on the uncompressed
                     stream re-compressed afterwards (unknown type, no message_infos, lengths beyond
                     the buffer, stream cut inside a segment); plist byte faults
           seam      the same member faults + every truncation length + header/message bit flips
                     called directly at IWork._store_blob with a stub handler; one representative
                     of every distinct seam behaviour per (member, kind) is re-run through a
                     rewritten container
           multi     the same fault on every archive member at once; a member deleted; `.iwph` added
           cli       cat-numbers main() in-process on a slice of all of the above
Oracle     the call returns a Document or raises FileError / FileFormatError / UnsupportedError.
           Any other exception whose traceback contains a container-loading frame (by qualified
           name) is a failure. Exceptions raised later, while model.py/document.py interpret a
           container that did load, are counted and not judged.
"""
from __future__ import annotations

import bisect
import collections
import contextlib
import datetime
import hashlib
import io
import os
import shutil
import signal
import sys
import time
import traceback
import warnings
import zipfile
from pathlib import Path

from mc import faults, pkg
from mc.evidence import FIXTURES, Part, Run, parse_args, run_replay
from mc.pool import Scratch, pmap

from numbers_parser import Document, FileError, FileFormatError, UnsupportedError
from numbers_parser.iwork import IWork

PID = "C17"
LIB_ERRORS = (FileError, FileFormatError, UnsupportedError)
# The statement is end to end ("no other kind of exception escapes from loading the container"): a foreign
# exception inside _store_blob that IWork.open translates is NOT a violation. Seam results are therefore only
# used to pick representatives that are re-run through Document(path) on a rewritten container (escalation);
# SEAM_STRICT=True would judge the seam call itself, which demands more than the statement.
SEAM_STRICT = False
CASE_TIMEOUT_S = 60

# ---------------------------------------------------------------------------------------------
# classification of traceback frames by qualified name

_OBJECTSTORE_LOAD = ("ObjectStore.__init__", "ObjectStore.store_object", "ObjectStore.store_file",
                     "ObjectStore.allowed_format", "ObjectStore.allowed_version")


def is_container_frame(module: str, qualname: str) -> bool:
    """Container loading = everything in iwork.py (IWork.*, _is_iwa_blob) and iwafile.py (IWAFile.*,
    IWACompressedChunk.*, IWAArchiveSegment.*, ProtobufPatch.*, is_iwa_file,
    get_archive_info_and_remainder) plus ObjectStore.__init__ and the handler callbacks it serves.
    ItemsList.* and the other ObjectStore methods (same file) are model interpretation."""
    if module in ("numbers_parser.iwork", "numbers_parser.iwafile"):
        return True
    if module == "numbers_parser.containers":
        return any(qualname == q or qualname.startswith(q + ".") for q in _OBJECTSTORE_LOAD)
    return False


def _type_name(e):
    t = type(e)
    if t.__module__ in ("builtins", "numbers_parser.exceptions"):
        return t.__name__
    return f"{t.__module__}.{t.__name__}"


def classify(exc: BaseException):
    """-> (kind, exc_type, cause_type, frame) with kind in lib | escape | later."""
    et = _type_name(exc)
    cause = exc.__cause__
    ct = _type_name(cause) if cause is not None else ""
    inner = ""
    last = ""
    for fr, lineno in traceback.walk_tb(exc.__traceback__):
        mod = fr.f_globals.get("__name__", "")
        qual = fr.f_code.co_qualname
        if mod.startswith("numbers_parser"):
            last = f"{mod.rsplit('.', 1)[-1]}:{qual}"
        if is_container_frame(mod, qual):
            inner = qual
    if isinstance(exc, LIB_ERRORS):
        return "lib", et, ct, inner or last
    if inner:
        return "escape", et, ct, inner
    return "later", et, ct, last


class _Timeout(BaseException):
    pass


def _alarm(_sig, _frm):
    raise _Timeout()


@contextlib.contextmanager
def time_limit(seconds=CASE_TIMEOUT_S):
    old = signal.signal(signal.SIGALRM, _alarm)
    signal.setitimer(signal.ITIMER_REAL, seconds)
    try:
        yield
    finally:
        signal.setitimer(signal.ITIMER_REAL, 0)
        signal.signal(signal.SIGALRM, old)


# ---------------------------------------------------------------------------------------------
# the three calls


def call_open(path):
    """Document(path) -> result dict."""
    warnings.simplefilter("ignore")
    try:
        with time_limit():
            doc = Document(path)
    except _Timeout:
        return {"outcome": "timeout", "sig": "timeout"}
    except KeyboardInterrupt:
        raise
    except BaseException as e:  # noqa: BLE001 - the oracle inspects every exception
        kind, et, ct, frame = classify(e)
        msg = str(e)[:160]
        del e
        return {"outcome": kind, "exc": et, "cause": ct, "frame": frame, "msg": msg, "sig": f"{kind}:{et}<{ct}@{frame}"}
    store = doc._model.objects
    res = {"outcome": "doc", "nobj": len(store._objects), "nfiles": len(store._file_store)}
    res["sig"] = f"doc:{res['nobj']}/{res['nfiles']}"
    del doc, store
    return res


class _StubHandler:
    def __init__(self):
        self.objects = 0
        self.files = []

    def store_object(self, filename, identifier, archive):
        self.objects += 1

    def store_file(self, filename, blob):
        self.files.append(type(blob).__name__)

    def allowed_format(self, extension):
        return True

    def allowed_version(self, version):
        return True


def call_seam(member_name, blob):
    """IWork(handler=stub)._store_blob(name, blob) -> result dict."""
    warnings.simplefilter("ignore")
    h = _StubHandler()
    iw = IWork(handler=h)
    try:
        with time_limit():
            iw._store_blob(member_name, blob)
    except _Timeout:
        return {"outcome": "timeout", "sig": "timeout"}
    except KeyboardInterrupt:
        raise
    except BaseException as e:  # noqa: BLE001
        kind, et, ct, frame = classify(e)
        if kind == "later":  # nothing but container loading runs at the seam
            kind = "escape"
        msg = str(e)[:160]
        del e
        return {"outcome": kind, "exc": et, "cause": ct, "frame": frame or "IWork._store_blob", "msg": msg,
                "sig": f"{kind}:{et}<{ct}@{frame}"}
    return {"outcome": "stored", "sig": f"stored:{h.objects}:{','.join(h.files)}", "nobj": h.objects}


def call_cli(path):
    """cat-numbers main() in-process -> result dict."""
    import logging

    from numbers_parser import _cat_numbers

    warnings.simplefilter("ignore")
    lg = logging.getLogger("numbers_parser")
    before = list(lg.handlers)
    argv = sys.argv
    sys.argv = ["cat-numbers", "--brief", str(path)]
    out, err = io.StringIO(), io.StringIO()
    res = None
    try:
        with time_limit(), contextlib.redirect_stdout(out), contextlib.redirect_stderr(err):
            _cat_numbers.main()
        res = {"outcome": "printed", "sig": "printed"}
    except SystemExit as e:
        # a message, not a traceback. (A damaged member name may itself contain \r or \n, so the
        # message is not required to be a single line; the number of lines is only recorded.)
        text = err.getvalue()
        lines = [ln for ln in text.split("\n") if ln.strip()]
        ok = e.code not in (0, None) and bool(lines) and "Traceback" not in text
        res = {"outcome": "exit" if ok else "bad-exit", "code": e.code, "stderr": text[:300],
               "sig": f"exit:{e.code}:{min(len(lines), 2)}"}
    except _Timeout:
        res = {"outcome": "timeout", "sig": "timeout"}
    except KeyboardInterrupt:
        raise
    except BaseException as e:  # noqa: BLE001
        kind, et, ct, frame = classify(e)
        msg = str(e)[:160]
        del e
        res = {"outcome": kind, "exc": et, "cause": ct, "frame": frame, "msg": msg, "sig": f"{kind}:{et}<{ct}@{frame}"}
    finally:
        sys.argv = argv
        for hd in list(lg.handlers):
            if hd not in before:
                lg.removeHandler(hd)
    return res


# ---------------------------------------------------------------------------------------------
# bases


class Base:
    def __init__(self, name, form, container, extra=None):
        self.name = name
        self.form = form  # "file" | "pkgzip"
        self.container = container  # bytes of the zip (the file itself, or Index.zip)
        self.extra = extra or {}  # package form: relpath -> bytes of the files outside Index.zip
        self.layout = faults.zip_layout(container)
        self.starts = [r[2] for r in self.layout]
        with zipfile.ZipFile(io.BytesIO(container)) as z:
            infos = [zi for zi in z.infolist() if not zi.is_dir()]
            self.members = [(zi.filename, z.read(zi.filename)) for zi in infos]
            self.ctypes = {zi.filename: zi.compress_type for zi in infos}
        self.member_map = dict(self.members)
        self.sha = hashlib.sha1(container).hexdigest()[:12]

    def region_kind(self, off):
        return self.layout[bisect.bisect_right(self.starts, off) - 1][0]

    def all_member_names(self):
        return [n for n, _ in self.members] + sorted(self.extra)

    def member_bytes(self, name):
        return self.member_map[name] if name in self.member_map else self.extra[name]

    def rewritten(self, replace=None, delete=(), add=()):
        """The container rewritten member by member (own compression method kept), with some
        members replaced / deleted / added. add = [(position 'first'|'last', name, bytes)]."""
        replace = replace or {}
        mem = [(n, replace.get(n, b)) for n, b in self.members if n not in delete]
        for pos, n, b in add:
            mem = [(n, b)] + mem if pos == "first" else mem + [(n, b)]
        return faults.zip_bytes(mem, self.ctypes)


_BASES = {}
BASE_NAMES = ["tmpl", "i18", "i17", "pkg76", "gen"]


def _read(path):
    with open(path, "rb") as f:
        return f.read()


def get_base(name) -> Base:
    b = _BASES.get(name)
    if b is not None:
        return b
    if name == "tmpl":
        p = Scratch.path(f"c17-build-{os.getpid()}.numbers")
        Document().save(p)
        b = Base(name, "file", faults.normalise_zip_times(_read(p)))
        os.unlink(p)
    elif name in ("i18", "i17"):
        b = Base(name, "file", _read(os.path.join(FIXTURES, {"i18": "issue-18.numbers", "i17": "issue-17.numbers"}[name])))
    elif name == "pkg76":
        root = os.path.join(FIXTURES, "test-issue-76.numbers")
        extra = {}
        for r, _d, fs in os.walk(root):
            for fn in fs:
                full = os.path.join(r, fn)
                rel = os.path.relpath(full, root)
                if rel != "Index.zip":
                    extra[rel] = _read(full)
        b = Base(name, "pkgzip", _read(os.path.join(root, "Index.zip")), extra)
    elif name == "gen":
        p = Scratch.path(f"c17-build-{os.getpid()}.numbers")
        doc = Document(num_rows=6, num_cols=5)
        t = doc.sheets[0].tables[0]
        t.write(0, 0, "head")
        t.write(1, 1, 12.5)
        t.write(1, 2, "text é")
        t.write(2, 1, True)
        t.write(2, 2, datetime.datetime(2024, 2, 29, 12, 30))
        t.write(3, 1, datetime.timedelta(hours=2, minutes=5))
        t.write(3, 2, -7)
        t.merge_cells("B5:C6")
        doc.save(p)
        mem = pkg.read_members(p)
        os.unlink(p)
        b = Base(name, "file", faults.zip_bytes(mem, None, zipfile.ZIP_DEFLATED))
    else:
        raise KeyError(name)
    _BASES[name] = b
    return b


_PKG_READY = set()


def scratch_dir():
    """Scratch.dir(), re-created if something outside this run removed it (shared /tmp)."""
    d = Scratch.dir()
    if not os.path.isdir(d):
        os.makedirs(d, exist_ok=True)
        _PKG_READY.clear()
    return d


def materialise(base: Base, container=None, extra_override=None):
    """Write the (faulty) container where Document() can open it. -> (path, cleanup or None)"""
    d = scratch_dir()
    if base.form == "file":
        path = os.path.join(d, f"c17-{base.name}.numbers")
        with open(path, "wb") as f:
            f.write(base.container if container is None else container)
        return path, None
    root = os.path.join(d, f"c17-{base.name}.numbers")
    if (os.getpid(), root) not in _PKG_READY or not os.path.isdir(os.path.join(root, "Metadata")):
        shutil.rmtree(root, ignore_errors=True)
        for rel, blob in base.extra.items():
            full = os.path.join(root, rel)
            os.makedirs(os.path.dirname(full), exist_ok=True)
            with open(full, "wb") as f:
                f.write(blob)
        _PKG_READY.add((os.getpid(), root))
    with open(os.path.join(root, "Index.zip"), "wb") as f:
        f.write(base.container if container is None else container)
    cleanup = None
    if extra_override:
        for rel, blob in extra_override.items():
            full = os.path.join(root, rel)
            if blob is None:
                os.unlink(full)
            else:
                with open(full, "wb") as f:
                    f.write(blob)

        def cleanup():
            for rel in extra_override:
                with open(os.path.join(root, rel), "wb") as f:
                    f.write(base.extra[rel])
    return root, cleanup


# ---------------------------------------------------------------------------------------------
# path faults (foreign and missing files)

PATH_KINDS = ["missing", "missing-dir-suffix", "wrong-suffix-file", "wrong-suffix-folder", "empty-file", "one-byte-file",
              "text-file", "jpeg-file", "foreign-zip", "zip-metadata-only", "folder-empty", "folder-metadata-only",
              "folder-empty-index-zip", "folder-index-zip-is-folder", "folder-plist-is-folder", "dangling-symlink",
              "symlink-dev-null", "nul-in-path", "zip-of-zip", "symlink-loop", "not-a-directory-component", "name-too-long", "folder-symlink-cycle", "folder-dangling-symlink-member", "parent-not-searchable", "file-not-readable"]
# evaluated without privileges (a forked child running as 'nobody' when the check runs as root)
UNPRIVILEGED_KINDS = ("parent-not-searchable", "file-not-readable")


def build_path_case(kind):
    """-> path (created under the scratch directory)"""
    d = os.path.join(scratch_dir(), "c17-path")
    if os.path.isdir(os.path.join(d, "private")):
        os.chmod(os.path.join(d, "private"), 0o700)
    shutil.rmtree(d, ignore_errors=True)
    os.makedirs(d)
    tm = get_base("tmpl")
    pk = get_base("pkg76")
    p = os.path.join(d, "x.numbers")
    plists = [(n, b) for n, b in tm.members if n.startswith("Metadata/") and n.endswith(".plist")]
    if kind == "missing":
        return p
    if kind == "missing-dir-suffix":
        return os.path.join(d, "nodir.numbers", "")
    if kind == "wrong-suffix-file":
        p = os.path.join(d, "x.numberz")
        open(p, "wb").write(tm.container)
    elif kind == "wrong-suffix-folder":
        p = os.path.join(d, "x.numberz")
        pkg.write_package_folder(p, tm.members)
    elif kind == "empty-file":
        open(p, "wb").close()
    elif kind == "one-byte-file":
        open(p, "wb").write(b"P")
    elif kind == "text-file":
        open(p, "wb").write(b"a,b,c\n1,2,3\n" * 40)
    elif kind == "jpeg-file":
        open(p, "wb").write(_read(os.path.join(FIXTURES, "cat.jpg")))
    elif kind == "foreign-zip":
        open(p, "wb").write(faults.zip_bytes([("word/document.xml", b"<w:document/>"), ("[Content_Types].xml", b"<Types/>")]))
    elif kind == "zip-metadata-only":
        open(p, "wb").write(faults.zip_bytes(plists))
    elif kind == "zip-of-zip":
        open(p, "wb").write(faults.zip_bytes([("Index.zip", pk.container)] + plists))
    elif kind == "folder-empty":
        os.makedirs(p)
    elif kind == "folder-metadata-only":
        for n, b in plists:
            os.makedirs(os.path.dirname(os.path.join(p, n)), exist_ok=True)
            open(os.path.join(p, n), "wb").write(b)
    elif kind in ("folder-empty-index-zip", "folder-index-zip-is-folder", "folder-plist-is-folder", "folder-symlink-cycle",
                  "folder-dangling-symlink-member"):
        for rel, b in pk.extra.items():
            os.makedirs(os.path.dirname(os.path.join(p, rel)), exist_ok=True)
            open(os.path.join(p, rel), "wb").write(b)
        if kind == "folder-empty-index-zip":
            open(os.path.join(p, "Index.zip"), "wb").close()
        elif kind == "folder-index-zip-is-folder":
            os.makedirs(os.path.join(p, "Index.zip"))
        elif kind == "folder-symlink-cycle":
            open(os.path.join(p, "Index.zip"), "wb").write(pk.container)
            os.symlink("..", os.path.join(p, "Metadata", "up"))
        elif kind == "folder-dangling-symlink-member":
            open(os.path.join(p, "Index.zip"), "wb").write(pk.container)
            os.symlink(os.path.join(d, "nowhere"), os.path.join(p, "preview-extra.jpg"))
        else:
            open(os.path.join(p, "Index.zip"), "wb").write(pk.container)
            os.unlink(os.path.join(p, "Metadata", "Properties.plist"))
            os.makedirs(os.path.join(p, "Metadata", "Properties.plist"))
    elif kind == "dangling-symlink":
        os.symlink(os.path.join(d, "nowhere.numbers"), p)
    elif kind == "symlink-dev-null":
        os.symlink("/dev/null", p)
    elif kind == "nul-in-path":
        return os.path.join(d, "x\0y.numbers")
    elif kind == "symlink-loop":
        os.symlink(p, p)
    elif kind == "not-a-directory-component":
        open(p, "wb").write(tm.container)
        return os.path.join(p, "y.numbers")
    elif kind == "parent-not-searchable":
        os.makedirs(os.path.join(d, "private"))
        p = os.path.join(d, "private", "x.numbers")
        open(p, "wb").write(tm.container)
        os.chmod(os.path.join(d, "private"), 0o000 if os.geteuid() else 0o700)
    elif kind == "file-not-readable":
        open(p, "wb").write(tm.container)
        os.chmod(p, 0o000 if os.geteuid() else 0o600)
    elif kind == "name-too-long":  # one component longer than NAME_MAX
        return os.path.join(d, "x" * 300 + ".numbers")
    else:
        raise KeyError(kind)
    return p


# ---------------------------------------------------------------------------------------------
# one case


def unprivileged(fn):
    """Run fn() -> JSON-able result without root privileges. As root: in a forked child that
    switched to 'nobody', with the scratch directories made searchable for the duration."""
    if os.geteuid() != 0:
        return fn()
    import json

    opened = []
    for q in dict.fromkeys([os.environ.get("VERIF_SCRATCH_RUN"), scratch_dir(), os.path.join(scratch_dir(), "c17-path")]):
        if q and os.path.isdir(q):
            opened.append((q, os.stat(q).st_mode & 0o7777))
            os.chmod(q, opened[-1][1] | 0o011)
    r, w = os.pipe()
    pid = os.fork()
    if pid == 0:
        code = 1
        try:
            os.close(r)
            os.setgroups([])
            os.setgid(65534)
            os.setuid(65534)
            os.write(w, json.dumps(fn()).encode())
            code = 0
        finally:
            os._exit(code)
    os.close(w)
    data = b""
    while True:
        chunk = os.read(r, 65536)
        if not chunk:
            break
        data += chunk
    os.close(r)
    os.waitpid(pid, 0)
    for q, mode in opened:
        os.chmod(q, mode)
    if not data:
        raise RuntimeError("unprivileged child produced no result")
    return json.loads(data)


def fault_class(case):
    k = case[0]
    if k == "path":
        return f"path:{case[1]}"
    if k == "trunc":
        return "truncation"
    if k == "byte":
        kind = get_base(case[1]).region_kind(case[2])
        return "zip-data" if kind == "data" else f"zip-structure:{kind}"
    if k == "pair":
        return "zip-structure-pair"
    if k in ("member", "seam"):
        return f"member:{case[3]}"
    if k == "all":
        return f"all-members:{case[2]}"
    if k == "delete":
        return "member-deleted"
    if k == "iwph":
        return "encrypted-marker"
    raise KeyError(k)


def build_container(case):
    """-> (base, container bytes or None, extra_override or None); None container = not applicable."""
    k = case[0]
    base = get_base(case[1])
    if k == "trunc":
        return base, base.container[: case[2]], None
    if k == "byte":
        b = bytearray(base.container)
        b[case[2]] = case[3]
        return base, bytes(b), None
    if k == "pair":
        b = bytearray(base.container)
        b[case[2]] = case[3]
        b[case[4]] = case[5]
        return base, bytes(b), None
    if k == "member":
        name = case[2]
        new = faults.member_fault(base.member_bytes(name), case[3], *case[4:])
        if new is None:
            return base, None, None
        if name in base.extra:
            return base, base.container, {name: new}
        return base, base.rewritten({name: new}), None
    if k == "all":
        rep = {}
        for n, blob in base.members:
            if pkg.is_iwa_name(n):
                new = faults.member_fault(blob, case[2], *case[3:])
                if new is not None:
                    rep[n] = new
        return base, base.rewritten(rep), None
    if k == "delete":
        name = case[2]
        if name == "*iwa":
            return base, base.rewritten(delete={n for n, _ in base.members if pkg.is_iwa_name(n)}), None
        if name in base.extra:
            return base, base.container, {name: None}
        return base, base.rewritten(delete={name}), None
    if k == "iwph":
        if case[2].startswith("replace:"):
            nm = case[2][len("replace:"):]
            mem = [(".iwph" if n == nm else n, b) for n, b in base.members]
            return base, faults.zip_bytes(mem, base.ctypes), None
        return base, base.rewritten(add=[(case[2], ".iwph", b"\x00" * 16)]), None
    raise KeyError(k)


def eval_case(case, with_cli=False):
    """Evaluate one case (a small JSON list). -> dict(result=..., fails=[(ident, detail)], cli=...)
    Used by the enumeration and by --replay."""
    case = list(case)
    if case[0] == "cli":
        inner = list(case[1])
        out = eval_case(inner, with_cli=True)
        out["fails"] = [f for f in out["fails"] if f[0].get("stage") == "cli"]
        return out
    fails = []
    cls = fault_class(case)
    if case[0] == "seam":
        base = get_base(case[1])
        new = faults.member_fault(base.member_bytes(case[2]), case[3], *case[4:])
        if new is None:
            return {"result": {"outcome": "n/a", "sig": "n/a"}, "fails": []}
        res = call_seam(case[2], new)
        if res["outcome"] == "escape" and SEAM_STRICT:
            fails.append(({"mechanism": res["frame"], "class": cls, "pattern": res["exc"], "stage": "seam"},
                          f"IWork._store_blob({case[2]!r}, <{case[3]} {case[4:]} of base {case[1]}, {len(new)} bytes>) raised "
                          f"{res['exc']}: {res['msg']} (innermost container frame {res['frame']})"))
        return {"result": res, "fails": fails}
    cleanup = None
    if case[0] == "path":
        path = build_path_case(case[1])
    else:
        base, container, override = build_container(case)
        if container is None:
            return {"result": {"outcome": "n/a", "sig": "n/a"}, "fails": []}
        path, cleanup = materialise(base, container, override)
    try:
        if case[0] == "path" and case[1] in UNPRIVILEGED_KINDS:
            both = unprivileged(lambda: [call_open(path), call_cli(path) if with_cli else None])
            res = both[0]
        else:
            both = None
            res = call_open(path)
        if res["outcome"] == "escape":
            fails.append(({"mechanism": res["frame"], "class": cls, "pattern": res["exc"], "stage": "open"},
                          f"Document(<{case}>) raised {res['exc']}: {res['msg']} (innermost container frame {res['frame']})"))
        out = {"result": res, "fails": fails}
        if with_cli:
            c = both[1] if both else call_cli(path)
            out["cli"] = c
            if c["outcome"] == "escape" and res["outcome"] != "escape":  # otherwise the same defect, already recorded
                fails.append(({"mechanism": c["frame"], "class": cls, "pattern": c["exc"], "stage": "cli"},
                              f"cat-numbers <{case}> ended in a traceback: {c['exc']}: {c['msg']} (innermost container frame {c['frame']})"))
            elif c["outcome"] == "bad-exit":
                fails.append(({"mechanism": "cat-numbers", "class": cls, "pattern": f"exit={c['code']}", "stage": "cli"},
                              f"cat-numbers <{case}> exit code {c['code']}, stderr {c['stderr']!r} (expected a non-zero exit status and a message on stderr, not a traceback)"))
    finally:
        if cleanup:
            cleanup()
        if case[0] == "path":
            priv = os.path.join(scratch_dir(), "c17-path", "private")
            if os.path.isdir(priv):
                os.chmod(priv, 0o700)
    return out


# ---------------------------------------------------------------------------------------------
# enumerators: (family, base, member) -> list of cases


def _phase(n, seed):
    return seed % n


def iwa_members(base):
    return [(n, b) for n, b in base.members if pkg.is_iwa_name(n) and faults.is_framed(b)]


def boundary_segments(nseg):
    return sorted({0, 1, nseg // 2, nseg - 1} & set(range(nseg)))


def member_basic_cases(base, name, blob, head):
    """The per-member fault kinds that every member of every base gets (through a rewritten
    container and at the seam). head = 'member' | 'seam'."""
    out = []
    pre = [head, base.name, name]
    n = len(blob)
    out.append(pre + ["empty"])
    for ln in sorted({1, 2, 3, 4, 5, n // 2, n - 1} & set(range(1, n))):
        out.append(pre + ["trunc", ln])
    if not (pkg.is_iwa_name(name) and faults.is_framed(blob)):
        return out
    heads = faults.chunk_headers(blob)
    for ci, (pos, ln) in enumerate(heads):
        for v in (0x01, 0x80, 0xFF):
            out.append(pre + ["marker", ci, v])
        for how in ("plus1", "minus1", "zero", "max"):
            out.append(pre + ["length", ci, how])
        for how in ("ff", "body", "huge"):
            out.append(pre + ["badsnappy", ci, how])
        for cut in sorted({pos, pos + 1, pos + 2, pos + 3, pos + 4, pos + 4 + ln - 1} & set(range(6, n - 1))):
            out.append(pre + ["trunc", cut])
    segs = faults.stream_segments(pkg.unframe(blob))
    for si in boundary_segments(len(segs)):
        out.append(pre + ["unknown-type", si])
        out.append(pre + ["no-infos", si])
        for how in ("rest1", "max24", "max31"):
            out.append(pre + ["len-beyond", si, how])
        out.append(pre + ["varint-beyond", si])
        for where in ("in-varint", "in-header", "after-header", "in-payload"):
            out.append(pre + ["cut-stream", si, where])
    return out


SMALL_STREAM = 16 * 1024
SMALL_MESSAGES = 4 * 1024


def gen_cases(family, bname, member, tier, seed):
    """Every case of one family for one base (and member), de-duplicated, in a fixed order."""
    return [list(t) for t in dict.fromkeys(tuple(c) for c in _gen_cases(family, bname, member, tier, seed))]


def _gen_cases(family, bname, member, tier, seed):
    base = get_base(bname)
    thorough = tier == "thorough"
    n = len(base.container)
    if family == "trunc":
        return [["trunc", bname, ln] for ln in range(n)]
    if family == "struct":
        out = []
        for off, _k in faults.structural_sites(base.layout):
            for v in faults.byte_values(base.container[off]):
                out.append(["byte", bname, off, v])
        return out
    if family == "struct-lite":  # every structural byte x one rotating bit flip; directory and end record also x 0xFF
        out = []
        for off, k in faults.structural_sites(base.layout):
            old = base.container[off]
            vals = {old ^ (1 << ((off + seed) % 8))} | ({0xFF} if k in ("central", "end") else set())
            for v in sorted(vals - {old}):
                out.append(["byte", bname, off, v])
        return out
    if family == "data":
        step = 1 if thorough else 64
        out = []
        for off, _m in faults.data_sites(base.layout):
            if off % step == _phase(step, seed):
                out.append(["byte", bname, off, base.container[off] ^ (1 << ((off + seed) % 8))])
        return out
    if family == "pairs":
        out = []
        first = {}
        for kind, _nm, a, b in base.layout:
            if kind in ("local", "central", "end") and kind not in first:
                first[kind] = (a, b)
        for kind, (a, b) in sorted(first.items()):
            for o1 in range(a, b):
                for o2 in range(o1 + 1, b):
                    v1s = faults.byte_values(base.container[o1]) if kind == "end" else [base.container[o1] ^ 1, 0xFF]
                    v2s = faults.byte_values(base.container[o2]) if kind == "end" else [base.container[o2] ^ 1, 0xFF]
                    for v1 in v1s:
                        for v2 in v2s:
                            if v1 != base.container[o1] and v2 != base.container[o2]:
                                out.append(["pair", bname, o1, v1, o2, v2])
        return out
    if family == "member":  # through a rewritten container
        blob = base.member_bytes(member)
        out = member_basic_cases(base, member, blob, "member")
        if not pkg.is_iwa_name(member):
            ln = len(blob)
            if ln <= 512 or (thorough and ln <= 4096):
                out = [c for c in out if c[3] != "trunc"] + [["member", bname, member, "trunc", k] for k in range(1, ln)]
            if member.endswith(".plist"):
                for off in range(ln):
                    for bit in (range(8) if thorough else [(off + seed) % 8]):
                        out.append(["member", bname, member, "flip", off, bit])
        elif thorough and (bname == "i18" or len(blob) <= 512):
            out = [c for c in out if c[3] != "trunc"] + [["member", bname, member, "trunc", k] for k in range(1, len(blob))]
        elif len(blob) <= 256:
            out = [c for c in out if c[3] != "trunc"] + [["member", bname, member, "trunc", k] for k in range(1, len(blob))]
        return out
    if family == "seam":
        blob = base.member_bytes(member)
        out = member_basic_cases(base, member, blob, "seam")
        out = [c for c in out if c[3] != "trunc"] + [["seam", bname, member, "trunc", k] for k in range(1, len(blob))]
        if faults.is_framed(blob):
            stream = pkg.unframe(blob)
            segs = faults.stream_segments(stream)
            small = len(stream) <= SMALL_STREAM
            if small and (thorough or bname in ("tmpl", "i18")):
                # every byte of the length varint + ArchiveInfo header of every segment x 8 bit flips
                for off in faults.stream_header_sites(segs):
                    for bit in range(8):
                        out.append(["seam", bname, member, "sflip", off, bit])
            else:
                # boundary segments: varint + header (first 48 / last 16 bytes when longer) x 8 bit flips
                done = set()
                for si in boundary_segments(len(segs)):
                    sites = faults.stream_header_sites(segs, [si])
                    if len(sites) > 64:
                        sites = sites[:48] + sites[-16:]
                    for off in sites:
                        done.add(off)
                        for bit in range(8):
                            out.append(["seam", bname, member, "sflip", off, bit])
                if thorough and bname in ("tmpl", "i18"):
                    # large streams: every header byte of every segment x one rotating bit
                    for off in faults.stream_header_sites(segs):
                        if off not in done:
                            out.append(["seam", bname, member, "sflip", off, (off + seed) % 8])
            if len(stream) <= SMALL_MESSAGES:
                sites = faults.stream_message_sites(segs)
            else:
                sites = []
                for si in boundary_segments(len(segs)):
                    s = faults.stream_message_sites(segs, [si])
                    sites += s[:16] + s[-16:] if len(s) > 32 else s
            for off in sorted(set(sites)):
                out.append(["seam", bname, member, "sflip", off, (off + seed) % 8])
        return out
    if family == "multi":
        out = [["all", bname, "trunc", 1], ["all", bname, "trunc", 2], ["all", bname, "trunc", 3], ["all", bname, "trunc", 5],
               ["all", bname, "marker", 0, 0x01], ["all", bname, "length", 0, "plus1"], ["all", bname, "length", 0, "minus1"],
               ["all", bname, "empty"], ["all", bname, "badsnappy", 0, "ff"], ["all", bname, "no-infos", 0],
               ["all", bname, "unknown-type", 0], ["delete", bname, "*iwa"],
               ["iwph", bname, "first"], ["iwph", bname, "last"]]
        out += [["delete", bname, nm] for nm in base.all_member_names()]
        out += [["iwph", bname, "replace:" + nm] for nm, _b in base.members]  # the member itself becomes the marker
        return out
    raise KeyError(family)


# estimated cost per case in ms (deterministic; used for the sizing of shards only)
OPEN_MS = {"tmpl": 14.0, "i18": 8.0, "i17": 9.0, "pkg76": 14.0, "gen": 14.0}


def case_costs(family, bname, member, cases):
    if family == "trunc":
        return [0.7] * len(cases)
    if family == "pairs":
        return [3.0] * len(cases)
    if family in ("struct", "struct-lite", "data"):
        return [OPEN_MS[bname] * 0.9] * len(cases)
    if family in ("member", "multi"):
        return [OPEN_MS[bname] * 1.1 + 2.0] * len(cases)
    blob = get_base(bname).member_bytes(member)
    nseg = len(faults.stream_segments(pkg.unframe(blob))) if faults.is_framed(blob) else 1
    parse = 0.3 + 0.035 * nseg + len(blob) / 40000.0
    return [0.08 if c[3] == "trunc" else parse for c in cases]


CLI_STRIDE = {"trunc": 499, "struct": 149, "struct-lite": 149, "data": 29, "pairs": 997, "member": 29, "multi": 1}
SHARD_MS = 2500.0


def plan(tier):
    thorough = tier == "thorough"
    fams = []
    for b in BASE_NAMES:
        if thorough or b != "gen":  # gen is written by the same zip writer as the member rewrites
            fams.append(("trunc", b, None))
    if thorough:
        for b in BASE_NAMES:
            fams.append(("struct", b, None))
        for b in ("i18", "tmpl", "pkg76"):
            fams.append(("pairs", b, None))
    else:
        fams.append(("struct", "i18", None))
        for b in ("tmpl", "pkg76"):
            fams.append(("struct-lite", b, None))
    for b in BASE_NAMES:
        fams.append(("data", b, None))
        fams.append(("multi", b, None))
        base = get_base(b)
        for nm in base.all_member_names():
            fams.append(("member", b, nm))
        for nm, _blob in iwa_members(base):
            fams.append(("seam", b, nm))
    return fams


_GEN_CACHE = collections.OrderedDict()


def cases_of(family, bname, member, tier, seed):
    key = (family, bname, member, tier, seed)
    if key not in _GEN_CACHE:
        _GEN_CACHE[key] = gen_cases(family, bname, member, tier, seed)
        while len(_GEN_CACHE) > 3:
            _GEN_CACHE.popitem(last=False)
    return _GEN_CACHE[key]


def work(task):
    family, bname, member, lo, hi, tier, seed = task
    part = Part(max_samples=1)
    cases = cases_of(family, bname, member, tier, seed)
    seen = set()
    stride = CLI_STRIDE.get(family)
    rewritten = family in ("member", "multi", "seam")
    baseline = (BASELINES_RW if rewritten else BASELINES).get(bname)
    t_start = time.process_time()
    for j in range(lo, hi):
        i = lo + ((j - lo) + seed) % (hi - lo)  # the seed rotates the order inside a shard only
        case = cases[i]
        with_cli = bool(stride) and (i + seed) % stride == 0
        out = eval_case(case, with_cli)
        res = out["result"]
        if res["outcome"] == "n/a":
            part.count("not_applicable_skipped")
            continue
        part.count("evaluations")
        part.count(f"cases_{family}")
        part.count(f"cases_{family}_{bname}")
        part.outcome(f"{case[0]}|{res['sig']}")
        part.count(f"outcome_{res['outcome']}")
        if res["outcome"] == "timeout":
            part.harness_errors.append(f"case {case} exceeded {CASE_TIMEOUT_S}s")
        if case[0] == "seam":
            nontrivial = res["outcome"] != "stored" or res["sig"] != SEAM_BASELINES.get((bname, member))
        else:
            nontrivial = res["sig"] != baseline
        if nontrivial:
            part.count("distinct_nontrivial")
        for ident, detail in out["fails"]:
            replay = ["cli", case] if ident.get("stage") == "cli" else case
            part.fail(ident, detail, replay)
        if "cli" in out:
            part.count("cli_runs")
            part.count("evaluations")
            part.outcome(f"cli|{out['cli']['sig']}")
            part.count(f"cli_{out['cli']['outcome']}")
        if case[0] == "seam":
            # one representative of every distinct seam behaviour per (member, kind) goes through
            # a rewritten container as well; so does every anomaly
            key = (case[3], res["sig"])
            if key not in seen or res["outcome"] == "escape":
                seen.add(key)
                mcase = ["member"] + case[1:]
                mo = eval_case(mcase)
                if mo["result"]["outcome"] != "n/a":
                    part.count("evaluations")
                    part.count("cases_seam_representative_through_container")
                    part.outcome(f"member|{mo['result']['sig']}")
                    part.count(f"outcome_{mo['result']['outcome']}")
                    if mo["result"]["sig"] != baseline:
                        part.count("distinct_nontrivial")
                    for ident, detail in mo["fails"]:
                        part.fail(ident, detail, mcase)
        if j == lo:
            part.sample({"case": case, "outcome": res["sig"]})
    part.count(f"cpu_ms_{family}", int(1000 * (time.process_time() - t_start)))
    return part.dump()


BASELINES = {}
BASELINES_RW = {}
SEAM_BASELINES = {}


def prepare(run=None):
    """Build every base in the main process (forked workers inherit them) and record the
    fault-free outcomes that make a case 'trivial'."""
    Scratch.dir()
    for b in BASE_NAMES:
        base = get_base(b)
        path, _ = materialise(base)
        r0 = call_open(path)
        BASELINES[b] = r0["sig"]
        path, _ = materialise(base, base.rewritten())
        r1 = call_open(path)
        BASELINES_RW[b] = r1["sig"]
        for nm, blob in iwa_members(base):
            SEAM_BASELINES[(b, nm)] = call_seam(nm, blob)["sig"]
        if run is not None:
            run.floor(f"base {b} loads intact ({r0['sig']}) and loads identically after an unfaulted rewrite ({r1['sig']})",
                      r0["outcome"] == "doc" and r1["outcome"] == "doc" and r1["nobj"] == r0["nobj"])
            run.extra.setdefault("bases", {})[b] = {
                "bytes": len(base.container), "sha1_12": base.sha, "members": len(base.members),
                "iwa_members": len(iwa_members(base)), "files_outside_zip": len(base.extra),
                "structural_bytes": len(faults.structural_sites(base.layout)), "data_bytes": len(faults.data_sites(base.layout)),
                "member_bytes": sum(len(x) for _n, x in base.members), "intact": r0["sig"]}


def main():
    args = parse_args()
    if args.replay:
        def rp(case, payload):
            out = eval_case(case, with_cli=False)
            txt = f"case {case}: Document/seam -> {out['result'].get('sig')}"
            if "cli" in out:
                txt += f"; cat-numbers -> {out['cli']['sig']}"
            if out["fails"]:
                txt += "\n" + "\n".join(d for _i, d in out["fails"])
            return bool(out["fails"]), txt
        return run_replay(args, rp)

    run = Run(PID, "fault_enumeration", args)
    run.max_samples = 40
    prepare(run)
    # path faults: tiny, in the main process
    for kind in PATH_KINDS:
        case = ["path", kind]
        out = eval_case(case, with_cli=True)
        run.count("evaluations", 2)
        run.count("cases_path")
        run.count("cli_runs")
        run.outcome(f"path|{out['result']['sig']}")
        run.outcome(f"cli|{out['cli']['sig']}")
        run.count(f"outcome_{out['result']['outcome']}")
        run.count(f"cli_{out['cli']['outcome']}")
        run.count("distinct_nontrivial")
        for ident, detail in out["fails"]:
            run.fail(ident, detail, ["cli", case] if ident.get("stage") == "cli" else case)
        if kind in ("missing", "jpeg-file"):
            run.sample({"case": case, "outcome": out["result"]["sig"], "cli": out["cli"]["sig"]})
    tasks = []
    fam_sizes = collections.Counter()
    fam_cost = collections.Counter()
    fams = plan(args.tier)
    only = os.environ.get("VERIF_C17_ONLY")  # development aid: restrict to some families (reported as a cap)
    if only:
        fams = [f for f in fams if f[0] in only.split(",")]
        run.cap(f"VERIF_C17_ONLY={only}: only these families were run")
    for family, b, member in fams:
        cases = gen_cases(family, b, member, args.tier, args.seed)
        n = len(cases)
        fam_sizes[family] += n
        if not n:
            continue
        costs = case_costs(family, b, member, cases)
        lo, acc = 0, 0.0
        for i, cst in enumerate(costs):
            acc += cst
            if acc >= SHARD_MS or i == n - 1:
                tasks.append((acc, (family, b, member, lo, i + 1, args.tier, args.seed)))
                fam_cost[family] += acc
                lo, acc = i + 1, 0.0
    # heavy shards first, for balance
    tasks = [t for _c, t in sorted(tasks, key=lambda ct: -ct[0])]
    run.extra["estimated_cpu_s_per_family"] = {k: round(v / 1000.0, 1) for k, v in fam_cost.items()}
    by_kind = collections.defaultdict(list)
    for res in pmap(work, tasks, args.jobs):
        for smp in res.pop("samples", []):
            k = (smp["case"][0], smp["case"][3] if smp["case"][0] in ("member", "seam") else "")
            if len(by_kind[k]) < 1:
                by_kind[k].append(smp)
        run.merge(res)
    for k in sorted(by_kind):
        for smp in by_kind[k]:
            run.sample(smp)
    c = run.counters
    run.extra["generated_cases_per_family"] = dict(fam_sizes)
    run.extra["shards"] = len(tasks)
    run.floor("every generated case was executed or skipped as not applicable",
              sum(fam_sizes.values()) == sum(c[f"cases_{f}"] for f in fam_sizes) + c["not_applicable_skipped"])
    run.floor("every truncation length of every planned base container executed",
              c["cases_trunc"] == sum(len(get_base(b).container) for f, b, _m in fams if f == "trunc"))
    run.floor(">= 1000 single-byte faults on structural zip bytes and >= 1000 on member data executed",
              c["cases_struct"] + c["cases_struct-lite"] >= 1000 and c["cases_data"] >= 1000)
    run.floor(">= 1000 per-member faults through a rewritten container and >= 10000 at the seam executed",
              c["cases_member"] >= 1000 and c["cases_seam"] >= 10000)
    run.floor("all three library error types and a loaded document were observed",
              all(any(k.split("|", 1)[1].startswith(p) for k in run.outcomes)
                  for p in ("lib:FileError", "lib:FileFormatError", "lib:UnsupportedError", "doc:")))
    run.floor("faults reached archive decoding (FileFormatError raised from IWork._store_blob seen through Document())",
              any(k.startswith("member|lib:FileFormatError") and "_store_blob" in k for k in run.outcomes))
    run.floor("the empty-store rejection was reached (a container that loads without any object)",
              any("no objects" in k or "ObjectStore.__init__" in k for k in run.outcomes))
    run.floor(">= 500 cat-numbers runs, with both message exits and printed tables", c["cli_runs"] >= 500 and c["cli_exit"] >= 100 and c["cli_printed"] >= 10)
    run.floor("no case timed out", c["outcome_timeout"] == 0 and c["cli_timeout"] == 0)
    run.assume("zipfile, zlib, plistlib, python-snappy and protobuf are trusted to raise (not crash the interpreter) on damaged input")
    run.assume("exceptions raised after container loading, while model.py/document.py interpret a container that did load, "
               "are outside the statement: counted (outcome_later / cli_later), not judged")
    run.assume("multi-fault corruptions are limited to: the same fault on every archive member, and (thorough) all pairs "
               "inside the end record / first central header / first local header")
    if args.tier == "quick":
        run.assume("quick: all 8 bit flips + 0x00/0xFF on every structural zip byte only for base i18; bases tmpl and pkg76 get one "
                   "rotating bit flip per structural byte (+ 0xFF in the central directory and end record); member data every 64th "
                   "byte; ArchiveInfo header flips on every segment only for streams <= 16 KiB of bases tmpl and i18 (first, second, "
                   "middle and last segment otherwise); every member truncation length at the seam, through a rewritten container "
                   "only for members <= 256 bytes plus a boundary family")
    else:
        run.assume("thorough: streams > 16 KiB get the 8 bit flips on boundary segments and one rotating bit on every other header "
                   "byte (bases tmpl, i18); message bytes one bit per byte only for streams <= 4 KiB")
    later = {k: v for k, v in run.outcomes.items() if "|later:" in k}
    run.extra["not_judged_later_exceptions"] = dict(sorted(later.items(), key=lambda kv: -kv[1])[:25])
    cov = {
        "evaluations": c["evaluations"],
        "distinct_nontrivial": c["distinct_nontrivial"],
        "rule": "every case is a distinct (base, fault site, fault value) by construction (faults that leave the bytes unchanged are "
                "skipped, values at one site are de-duplicated); a case counts as non-trivial when the loader reacted to the fault, "
                "i.e. the outcome signature (exception type/cause/innermost frame, or number of objects and files loaded) differs "
                "from the intact base's; cat-numbers runs are counted in evaluations but not in distinct_nontrivial",
        "exhaustive": True,
    }
    return run.finish(cov)


if __name__ == "__main__":
    sys.exit(main())
