"""C09 - references in formulas name exactly the stored target cells and table.

Bounded exhaustive exploration of the reference printer (model.node_to_ref -> xrefs.CellRange ->
Cell.formula) on real multi-sheet / multi-table documents built through the public API:

* part `coords`   every reference kind (cell, rectangle as COLON_TRACT node and as two cell
                  references joined by a COLON_NODE, whole row, row span, whole column, column span)
                  x every absolute/relative bit combination x every target coordinate pair (both
                  end-point orders, both range_end encodings) x every host cell of a 3x3 body
                  x {same table, same sheet, other sheet with duplicated / unique table name};
* part `qual`     every table-name assignment up to renaming for the sheet x table shapes of the
                  tier x 11 header-label schemes x every ordered (host table, target table) pair x
                  rows / columns / spans / cells / rectangles;
* part `ren`      for every small naming configuration x every rename of one table to any name of
                  the configuration's pool (creating / removing duplicates of any table's name) and
                  every sheet rename x every ordered (host, target) pair x coordinate and label
                  references: read -> rename -> read -> rename back -> read, where each judged read
                  is the FIRST access after the edit; judged by the resolver on the names as they
                  are then and differentially against the same edits without any earlier read;
* part `struct`   for every naming configuration up to 2x2 x Document.add_sheet with a table named by
                  any pool name (duplicating every existing table's name) and Sheet.add_table on
                  every sheet: read -> event -> read on fresh documents, for every host table
                  (thorough: every host/target pair) of the original tables, coordinate and label
                  references, judged absolutely on the post-event names and differentially;
* part `hist`     histories read -> write a header label -> read (-> write -> read), every label
                  write of a menu that makes labels duplicate / unique, compared differentially
                  with the same writes applied without the earlier reads; plus rename / header-count
                  events.

Oracle: mc/ref_refs.judge - an independent resolver that reads the printed text with nothing but
the document's names and must arrive at exactly the stored table, rows, columns and '$' marks.
"""
from __future__ import annotations

import itertools
import sys

from mc import ref_refs as R
from mc.evidence import Part, Run, parse_args, run_replay
from mc.pool import pmap

PID = "C09"
HIST_NAMES = [[0, 2], [0]]  # 3 tables: a name duplicated across sheets and a unique one
COORD_NAMES = [[0, 2], [0, 4]]
KINDS = ("cell", "rect", "colon", "row", "rowspan", "col", "colspan")


# --------------------------------------------------------------------------------------------
# one reference
# --------------------------------------------------------------------------------------------
def text_form(text):
    p = R.parse_printed(text)
    if p is None:
        return "unparsed"
    quals, halves = p
    kinds = "+".join(h[0] for h in halves)
    quoted = "/quoted" if "'" in text.split("::")[-1] else ""
    return f"{len(quals)}q/{kinds}{quoted}"


def eval_ref(built, host, rc, target, spec, when="static"):
    """Render one stored reference through Cell.formula and judge the text.
    -> (text or None, [(ident, detail)])"""
    base = {"kind": R.spec_kind(spec), "relation": R.relation(built.model, host, target),
            "labels": built.model.scheme, "when": when}
    base.update(R.input_class(built.model, target, spec))
    try:
        text = built.render(host, rc, target, spec)
    except Exception as e:  # noqa: BLE001 - the accessor must deliver a text
        ident = dict(base, mechanism="exception", **{"class": type(e).__name__})
        return None, [(ident, f"Cell.formula raised {type(e).__name__}: {str(e)[:120]} for stored {spec} "
                              f"(host {tuple(host)}{tuple(rc)} -> table {tuple(target)})")]
    out = []
    for mech, cls, detail in R.judge(built.model, host, rc, target, spec, text):
        ident = dict(base, mechanism=mech, **{"class": cls})
        out.append((ident, f"{detail} | stored {spec} in host table {tuple(host)} cell {tuple(rc)} -> table {tuple(target)}"))
    return text, out


# --------------------------------------------------------------------------------------------
# histories
# --------------------------------------------------------------------------------------------
def hist_probe_refs():
    B = (1, 2, 3)
    refs = [["row", i, False] for i in B] + [["col", i, False] for i in B]
    refs += [["row", 1, True], ["col", 3, True]]
    refs += [["tract", 1, 3, None, None, False, False, False, False, 0], ["tract", None, None, 3, 1, False, False, False, True, 0]]
    refs += [["tract", 2, 2, None, None, False, False, False, False, 0], ["tract", None, None, 2, 3, False, False, False, False, 0]]
    refs += [["cell", 1, 3, False, True]]
    return refs


HIST_RC = (3, 2)


def apply_event(built, ev):
    """Apply one history event through the public API and mirror it in the reader's model."""
    k = ev[0]
    if k == "label":
        _, si, ti, axis, idx, text = ev
        t = built.tables[(si, ti)]
        info = built.model.by_uid[(si, ti)]
        rc = (idx, info.hdr_cols - 1) if axis == "row" else (info.hdr_rows - 1, idx)
        t.write(rc[0], rc[1], text)
        built.model.set_cell((si, ti), rc, text)
    elif k == "rename":
        _, si, ti, nidx = ev
        name = R.table_name(nidx, built.model.seed)
        built.tables[(si, ti)].name = name
        built.model.rename((si, ti), name)
    elif k == "hdr":
        _, si, ti, axis, n = ev
        if axis == "row":
            built.tables[(si, ti)].num_header_rows = n
        else:
            built.tables[(si, ti)].num_header_cols = n
        built.model.set_headers((si, ti), axis, n)
    elif k == "add_sheet":
        _, nidx = ev
        si = len(built.doc.sheets)
        sname = R.sheet_name(si, built.model.seed)
        built.doc.add_sheet(sname, table_name=R.table_name(nidx, built.model.seed), num_rows=R.N_ROWS, num_cols=R.N_COLS)
        t = built.doc.sheets[si].tables[0]
        built.model.add_table(si, sname, t.name, t.num_header_rows, t.num_header_cols)
    elif k == "add_table":
        _, si, nidx = ev
        t = built.doc.sheets[si].add_table(R.table_name(nidx, built.model.seed), num_rows=R.N_ROWS, num_cols=R.N_COLS)
        built.model.add_table(si, built.doc.sheets[si].name, t.name, t.num_header_rows, t.num_header_cols)
    elif k == "sheet":
        _, si, j = ev
        name = R.sheet_name(j, built.model.seed)
        built.doc.sheets[si].name = name
        built.model.rename_sheet(si, name)
    else:
        raise ValueError(ev)


def probe(built, when="static"):
    res = {}
    for host in built.tables:
        for target in built.tables:
            for spec in hist_probe_refs():
                text, fails = eval_ref(built, host, HIST_RC, target, spec, when)
                res[(host, target, tuple(spec))] = (text, fails)
    return res


def eval_history(case):
    """Run the events twice on fresh documents: (B) without any read before the final one, (A)
    reading every probe reference before the first and after every event. The final texts of A
    must equal those of B (a read must not change what a later read prints), and B's texts are
    judged by the resolver. -> (n_probes, [(ident, detail)], texts_changed_by_events)"""
    events = case["events"]
    pattern = ">".join(["read"] + [e[0] for e in events])
    b = R.Built(case["names"], case["scheme"], case["seed"])
    for ev in events:
        apply_event(b, ev)
    final_b = probe(b)
    a = R.Built(case["names"], case["scheme"], case["seed"])
    first = probe(a)
    n = len(first)
    for ev in events:
        apply_event(a, ev)
        last = probe(a)
        n += len(last)
    out = []
    changed = sum(1 for k in first if first[k][0] != last[k][0])
    for k, (tb, fb) in final_b.items():
        ta = last[k][0]
        out.extend(fb)
        if ta != tb:
            host, target, spec = k
            ident = {"mechanism": "history", "class": "text-depends-on-earlier-read", "kind": R.spec_kind(list(spec)),
                     "relation": R.relation(a.model, host, target), "labels": case["scheme"], "when": pattern,
                     "pattern": "-", "blank": False, "both_axes": False, "repeated_elsewhere": False}
            out.append((ident, f"after {events}: {ta!r} when the formula had been read before the edit, {tb!r} when not "
                               f"(stored {list(spec)}, host table {host} cell {HIST_RC} -> table {target}); "
                               f"resolver on the former: {[f[1] for f in last[k][1]] or 'ok'}"))
    return n + len(final_b), out, changed


def label_menu(names, scheme, seed):
    """Every header-label write of the menu: each table x axis x body index x
    {text of the next label on the same axis (duplicate inside the table), text the same slot has in
    the next table (duplicate elsewhere), a fresh text, a text with an operator character}."""
    m = R.DocModel(names, scheme, seed)
    evs = []
    uids = [t.uid for t in m.tables]
    for n, uid in enumerate(uids):
        t = m.by_uid[uid]
        nxt = m.by_uid[uids[(n + 1) % len(uids)]]
        for axis in ("row", "col"):
            labs = t.row_labels if axis == "row" else t.col_labels
            other = nxt.row_labels if axis == "row" else nxt.col_labels
            for idx in (1, 2, 3):
                texts = [labs[idx % 3 + 1], other[idx], f"z{axis[0]}{idx}", "p+q"]
                for txt in dict.fromkeys(texts):
                    if txt != labs[idx]:
                        evs.append(["label", uid[0], uid[1], axis, idx, txt])
    return evs


def other_menu(names, scheme, seed):
    evs = []
    for si, sh in enumerate(names):
        for ti, cur in enumerate(sh):
            for nidx in (0, 2, 4, 6):
                if nidx != cur and nidx not in sh:
                    evs.append(["rename", si, ti, nidx])
            for axis in ("row", "col"):
                for n in (0, 2):
                    evs.append(["hdr", si, ti, axis, n])
    return evs


def history_cases(tier, seed):
    cases = []
    schemes = ("same", "uniq") if tier == "quick" else ("same", "uniq", "sheet")
    for scheme in schemes:
        menu = label_menu(HIST_NAMES, scheme, seed)
        for ev in menu:
            cases.append({"part": "hist", "names": HIST_NAMES, "scheme": scheme, "seed": seed, "events": [ev]})
        for ev in other_menu(HIST_NAMES, scheme, seed):
            cases.append({"part": "hist", "names": HIST_NAMES, "scheme": scheme, "seed": seed, "events": [ev]})
        if tier == "thorough":
            # depth 2: every first write x every second write to the same (axis, index) slot of any table
            for e1 in menu:
                if (e1[1], e1[2]) == (0, 1):
                    continue  # first writes go to the two tables that share a name; second writes anywhere
                for e2 in menu:
                    if (e2[3], e2[4]) == (e1[3], e1[4]) and e2 != e1:
                        cases.append({"part": "hist", "names": HIST_NAMES, "scheme": scheme, "seed": seed, "events": [e1, e2]})
    return cases


# --------------------------------------------------------------------------------------------
# rename histories: the FIRST text read after a table / sheet rename
# --------------------------------------------------------------------------------------------
FRESH_SHEET = 7


def ren_refs(body):
    lo, hi = body[0], body[-1]
    return [["cell", lo, hi, False, True],
            ["tract", lo, hi, lo, hi, False, False, False, False, 0],
            ["colon", lo, lo, False, False, hi, hi, False, False],
            ["row", lo, False], ["col", hi, True],
            ["tract", lo, hi, None, None, False, False, False, False, 0]]


def rename_events(names):
    """Every rename of one table to any other name of the configuration's pool (all names in
    use plus one unused name; names that would repeat inside the table's own sheet excepted), and
    every sheet to an unused sheet name."""
    used = sorted({n for sh in names for n in sh})
    pool = used + [max(used) + 1]
    evs = []
    for si, sh in enumerate(names):
        for ti, cur in enumerate(sh):
            for n in pool:
                if n != cur and n not in sh:
                    evs.append(["rename", si, ti, n])
        evs.append(["sheet", si, FRESH_SHEET])
    return evs


def inverse_event(names, ev):
    if ev[0] == "rename":
        return ["rename", ev[1], ev[2], names[ev[1]][ev[2]]]
    return ["sheet", ev[1], ev[1]]


def _when(ev, inverse=False):
    return "read>" + ("sheet-rename" if ev[0] == "sheet" else "rename") + (">read>rename-back" if inverse else "")


def _diff_ident(built, host, target, spec, scheme, when):
    return {"mechanism": "history", "class": "text-depends-on-earlier-read", "kind": R.spec_kind(spec),
            "relation": R.relation(built.model, host, target), "labels": scheme, "when": when,
            "pattern": "-", "blank": False, "both_axes": False, "repeated_elsewhere": False}


def eval_rename_case(case):
    """Minimal history on fresh documents. A: read the reference, rename, [read, rename back,] and
    judge the FIRST text read after the last edit by the resolver on the names as they are then.
    B: the same edits with no read at all before the judged one; A's text must equal B's."""
    ev, host, rc, target, spec = case["event"], tuple(case["host"]), tuple(case["rc"]), tuple(case["target"]), case["spec"]
    inverse = case.get("phase") == "inverse"
    when = _when(ev, inverse)
    inv = inverse_event(case["names"], ev)
    a = R.Built(case["names"], case["scheme"], case["seed"])
    eval_ref(a, host, rc, target, spec)
    apply_event(a, ev)
    if inverse:
        eval_ref(a, host, rc, target, spec)
        apply_event(a, inv)
    ta, out = eval_ref(a, host, rc, target, spec, when)
    b = R.Built(case["names"], case["scheme"], case["seed"])
    apply_event(b, ev)
    if inverse:
        apply_event(b, inv)
    tb, fb = eval_ref(b, host, rc, target, spec, when)
    out = list(out) + [f for f in fb if f not in out]
    if ta != tb:
        out.append((_diff_ident(a, host, target, spec, case["scheme"], when),
                    f"after {ev}{' and back' if inverse else ''}: first text read is {ta!r} when the formula had been read before the edit, "
                    f"{tb!r} when not (stored {spec}, host table {host} cell {rc} -> table {target})"))
    return out


def work_rename(task):
    """One naming configuration x label scheme, a list of rename events. Per event two fresh
    documents: on B the event is applied before anything is read, then every (host, target,
    reference) is read (rotating which one comes first); on A, for every (host, target, reference):
    read it, apply the event, judge the FIRST read after it, apply the inverse event, judge the first
    read after that. Nothing touches the document between an edit and the judged read."""
    names, scheme, seed, events = task
    part = Part()
    body = R.body_of(scheme)
    rc = (body[-1], body[0])
    refs = ren_refs(body)
    for n_ev, ev in enumerate(events):
        a = R.Built(names, scheme, seed)
        b = R.Built(names, scheme, seed)
        uids = list(a.tables)
        items = [(h, t, spec) for h in uids for t in uids for spec in refs]
        base = {"part": "ren", "names": names, "scheme": scheme, "seed": seed, "event": ev}
        inv = inverse_event(names, ev)
        when, when_inv = _when(ev), _when(ev, True)
        n = 0

        def record(fails, h, t, spec, phase):
            for ident, detail in fails:
                part.fail(ident, detail, dict(base, host=list(h), rc=list(rc), target=list(t), spec=spec, phase=phase))

        apply_event(b, ev)
        k0 = (n_ev * 7) % len(items)
        texts_b = {}
        for h, t, spec in items[k0:] + items[:k0]:
            text, fails = eval_ref(b, h, rc, t, spec, when)
            texts_b[(h, t, tuple(spec))] = text
            record(fails, h, t, spec, "edit")
            n += 1
        changed = 0
        for h, t, spec in items:
            pre, _ = eval_ref(a, h, rc, t, spec)
            apply_event(a, ev)
            text, fails = eval_ref(a, h, rc, t, spec, when)
            record(fails, h, t, spec, "edit")
            if text != texts_b[(h, t, tuple(spec))]:
                part.fail(_diff_ident(a, h, t, spec, scheme, when),
                          f"after {ev}: first text read is {text!r} when the formula had been read before the edit, "
                          f"{texts_b[(h, t, tuple(spec))]!r} when not (stored {spec}, host table {h} cell {rc} -> table {t})",
                          dict(base, host=list(h), rc=list(rc), target=list(t), spec=spec, phase="edit"))
            changed += text != pre
            apply_event(a, inv)
            text2, fails2 = eval_ref(a, h, rc, t, spec, when_inv)
            record(fails2, h, t, spec, "inverse")
            if text2 != pre:
                part.fail(_diff_ident(a, h, t, spec, scheme, when_inv),
                          f"after {ev} and back: first text read is {text2!r}, before the two edits it was {pre!r} "
                          f"(stored {spec}, host table {h} cell {rc} -> table {t})",
                          dict(base, host=list(h), rc=list(rc), target=list(t), spec=spec, phase="inverse"))
            n += 3
            part.count("rename_first_reads_judged", 2)
        part.count("evaluations", n)
        part.count("distinct_nontrivial", n)
        part.count("cases_rename", n)
        part.count("rename_histories")
        part.count("documents_built", 2)
        part.count("rename_event_" + ev[0])
        if changed:
            part.count("rename_histories_where_the_edit_changed_a_printed_text")
        part.outcome(f"ren/{ev[0]}/changed={bool(changed)}")
    if events:
        part.sample({"part": "ren", "names": names, "labels": scheme, "first_event_of_shard": events[0]})
    return part.dump()


# --------------------------------------------------------------------------------------------
# structural histories: the texts read after Document.add_sheet / Sheet.add_table
# --------------------------------------------------------------------------------------------
def struct_events(names):
    """Document.add_sheet with a table named by every name of the configuration's pool (every name
    in use - duplicating each existing table's name - plus one unused name), and Sheet.add_table on
    every sheet with every pool name the sheet does not hold yet (nor its other-case twin: the
    library refuses names that differ only in case inside a sheet)."""
    used = sorted({n for sh in names for n in sh})
    pool = used + [max(used) + 1]
    evs = [["add_sheet", n] for n in pool]
    for si, sh in enumerate(names):
        for n in pool:
            if n not in sh and (n ^ 1) not in sh:
                evs.append(["add_table", si, n])
    return evs


def _rot(items, k):
    k %= max(1, len(items))
    return items[k:] + items[:k]


def eval_struct_case(case):
    """Minimal history on fresh documents. A: read the reference, apply the structural event, read
    again (judged by the resolver on the names as they are then). B: apply the event on a document
    on which nothing was read, then read; A's text must equal B's."""
    ev, host, rc, target, spec = case["event"], tuple(case["host"]), tuple(case["rc"]), tuple(case["target"]), case["spec"]
    when = "read>" + ev[0]
    a = R.Built(case["names"], case["scheme"], case["seed"])
    eval_ref(a, host, rc, target, spec)
    apply_event(a, ev)
    ta, out = eval_ref(a, host, rc, target, spec, when)
    b = R.Built(case["names"], case["scheme"], case["seed"])
    apply_event(b, ev)
    tb, fb = eval_ref(b, host, rc, target, spec, when)
    out = list(out) + [f for f in fb if f not in out]
    if ta != tb:
        out.append((_diff_ident(a, host, target, spec, case["scheme"], when),
                    f"after {ev}: first text read is {ta!r} when the formula had been read before the event, "
                    f"{tb!r} when not (stored {spec}, host table {host} cell {rc} -> table {target})"))
    return out


def work_struct(task):
    """One naming configuration x label scheme, a list of structural events. Per event: document B
    gets the event before anything is read, then every (host, target, reference) over the original
    tables is read. For every group (quick: host table; thorough: (host, target) pair) a fresh
    document A: read the group's references, apply the event, read them again - nothing touches the
    document between the event and the first judged read, and which reference comes first rotates
    with the event. Every post-event text is judged by the resolver on the post-event names and must
    equal B's."""
    names, scheme, seed, events, per_pair = task
    part = Part()
    body = R.body_of(scheme)
    rc = (body[-1], body[0])
    refs = ren_refs(body)
    for n_ev, ev in enumerate(events):
        when = "read>" + ev[0]
        base = {"part": "struct", "names": names, "scheme": scheme, "seed": seed, "event": ev}
        b = R.Built(names, scheme, seed)
        uids = list(b.tables)
        apply_event(b, ev)
        docs = 1
        n = 0
        texts_b = {}

        def record(fails, h, t, spec):
            for ident, detail in fails:
                part.fail(ident, detail, dict(base, host=list(h), rc=list(rc), target=list(t), spec=spec))

        for h, t, spec in _rot([(h, t, spec) for h in uids for t in uids for spec in refs], n_ev * 5):
            text, fails = eval_ref(b, h, rc, t, spec, when)
            texts_b[(h, t, tuple(spec))] = text
            record(fails, h, t, spec)
            n += 1
        groups = [[(h, t)] for h in uids for t in uids] if per_pair else [[(h, t) for t in uids] for h in uids]
        changed = 0
        for g_no, group in enumerate(groups):
            a = R.Built(names, scheme, seed)
            docs += 1
            items = _rot([(h, t, spec) for h, t in group for spec in refs], n_ev * 5 + g_no)
            pre = {}
            for h, t, spec in items:
                pre[(h, t, tuple(spec))] = eval_ref(a, h, rc, t, spec)[0]
            apply_event(a, ev)
            for h, t, spec in items:
                text, fails = eval_ref(a, h, rc, t, spec, when)
                record(fails, h, t, spec)
                key = (h, t, tuple(spec))
                if text != texts_b[key]:
                    part.fail(_diff_ident(a, h, t, spec, scheme, when),
                              f"after {ev}: text read is {text!r} when the formula had been read before the event, "
                              f"{texts_b[key]!r} when not (stored {spec}, host table {h} cell {rc} -> table {t})",
                              dict(base, host=list(h), rc=list(rc), target=list(t), spec=spec))
                changed += text != pre[key]
                n += 2
            part.count("struct_first_reads_judged")
        part.count("evaluations", n)
        part.count("distinct_nontrivial", n)
        part.count("cases_struct", n)
        part.count("struct_histories")
        part.count("documents_built", docs)
        part.count("struct_event_" + ev[0])
        if changed:
            part.count("struct_histories_where_the_event_changed_a_printed_text")
        part.outcome(f"struct/{ev[0]}/changed={bool(changed)}")
    if events:
        part.sample({"part": "struct", "names": names, "labels": scheme, "first_event_of_shard": events[0]})
    return part.dump()


def struct_tasks(tier, seed):
    if tier == "quick":
        plan = [((1, 1), ("same",)), ((1, 2), ("same",)), ((2, 1), ("same",)), ((2, 2), ("same",))]
    else:
        plan = [((1, 1), R.SCHEMES[:4]), ((1, 2), R.SCHEMES[:4]), ((2, 1), R.SCHEMES[:4]), ((2, 2), R.SCHEMES[:4]),
                ((3, 1), ("same",))]
    tasks = []
    for (s, t), schemes in plan:
        for names in R.canonical_name_configs(s, t, ordered=True):
            evs = struct_events(names)
            for scheme in schemes:
                for i in range(0, len(evs), 2):
                    tasks.append((names, scheme, seed, evs[i:i + 2], tier == "thorough"))
    return tasks


def rename_tasks(tier, seed):
    if tier == "quick":
        plan = [((1, 2), True, ("none", "same")), ((2, 1), True, ("none", "same")), ((2, 2), True, ("none", "same"))]
    else:
        plan = [((1, 2), True, R.SCHEMES[:4]), ((2, 1), True, R.SCHEMES[:4]), ((2, 2), True, R.SCHEMES[:4]),
                ((3, 1), True, ("none", "same")), ((2, 3), False, ("none", "same")), ((3, 2), False, ("same",))]
    tasks = []
    for (s, t), ordered, schemes in plan:
        for names in R.canonical_name_configs(s, t, ordered=ordered):
            evs = rename_events(names)
            per = 4 if s * t <= 4 else 2
            for scheme in schemes:
                for i in range(0, len(evs), per):
                    tasks.append((names, scheme, seed, evs[i:i + per]))
    return tasks


# --------------------------------------------------------------------------------------------
# single case (enumeration and --replay)
# --------------------------------------------------------------------------------------------
def eval_case(case, built=None):
    """Evaluate one case -> list of (ident, detail)."""
    if case["part"] == "hist":
        return eval_history(case)[1]
    if case["part"] == "ren":
        return eval_rename_case(case)
    if case["part"] == "struct":
        return eval_struct_case(case)
    if built is None:
        built = R.Built(case["names"], case["scheme"], case["seed"])
    res = eval_ref(built, case["host"], case["rc"], case["target"], case["spec"])[1]
    if res or "sweep" not in case:
        return res
    # not reproducible on a fresh document by itself: re-execute the enumeration of that document
    # up to the case (the failure then depends on what was rendered before it)
    sw = case["sweep"]
    built = R.Built(case["names"], case["scheme"], case["seed"])
    order = _sweep_order(sw["hosts"], sw["rcs"], sw["targets"], _refs_of(sw["refset"], case["scheme"]))
    for n, (host, rc, target, spec) in enumerate(order, start=1):
        text, fails = eval_ref(built, host, rc, target, spec)
        if n == case["index"]:
            return [(i, d + f" | only after the {n - 1} preceding references of the enumeration were read on the same document") for i, d in fails]
    return []


# --------------------------------------------------------------------------------------------
# workers
# --------------------------------------------------------------------------------------------
def _refs_of(refset, scheme):
    body = R.body_of(scheme)
    if refset[0] == "full":
        return R.refs_full(tuple(refset[1]), tuple(refset[2]))
    if refset[0] == "qual-small":
        return R.refs_qualification_small(body)
    return R.refs_qualification(body)


def _sweep_order(hosts, rcs, targets, refs):
    for host in hosts:
        for rc in rcs:
            for target in targets:
                for spec in refs:
                    yield tuple(host), tuple(rc), tuple(target), spec


def _sweep(part, built, base_case, hosts, rcs, targets, refs):
    seen = set()
    n = 0
    first = None
    for host, rc, target, spec in _sweep_order(hosts, rcs, targets, refs):
        rel = R.relation(built.model, host, target)
        n += 1
        text, fails = eval_ref(built, host, rc, target, spec)
        part.count("kind_" + R.spec_kind(spec))
        part.count("relation_" + rel)
        if text is not None:
            if first is None and host != target:
                first = (host, rc, target, spec, text)
            seen.add((host, tuple(rc), target, text))
            part.outcome(text_form(text))
        for ident, detail in fails:
            part.fail(ident, detail, dict(base_case, host=list(host), rc=list(rc), target=list(target), spec=spec, index=n))
    part.count("evaluations", n)
    part.count("distinct_nontrivial", len(seen))
    return n, first


def work_doc(task):
    """One freshly built document; sweep hosts x cells x targets x references on it."""
    kind, names, scheme, seed, hosts, rcs, targets, refset = task
    part = Part()
    built = R.Built(names, scheme, seed)
    bad = built.header_sanity()
    if bad:
        part.harness_errors.append(f"document for {names}/{scheme} does not show the names the reader model assumes: {bad[:3]}")
        return part.dump()
    uids = list(built.tables)
    hosts = uids if hosts is None else [tuple(h) for h in hosts]
    targets = uids if targets is None else [tuple(t) for t in targets]
    body = R.body_of(scheme)
    refs = _refs_of(refset, scheme)
    if rcs is None:
        rcs = [(body[-1], body[0])]
    base = {"part": "ref", "names": names, "scheme": scheme, "seed": seed,
            "sweep": {"hosts": [list(h) for h in hosts], "rcs": [list(r) for r in rcs], "targets": [list(t) for t in targets], "refset": list(refset)}}
    n, first = _sweep(part, built, base, hosts, rcs, targets, refs)
    part.count(f"cases_{kind}", n)
    part.count("documents_built")
    part.count(f"docs_{len(names)}x{len(names[0])}")
    if kind == "qual":
        part.count("name_configs_x_schemes")
    if first is not None:
        part.sample({"part": kind, "names": names, "labels": scheme, "host_table": list(first[0]), "host_cell": list(first[1]),
                     "target_table": list(first[2]), "stored": first[3], "printed": first[4]})
    return part.dump()


def work_hist(cases):
    part = Part()
    for case in cases:
        n, fails, changed = eval_history(case)
        part.count("evaluations", n)
        part.count("distinct_nontrivial", n)
        part.count("cases_hist", n)
        part.count("histories")
        part.count("documents_built", 2)
        part.count(f"histories_depth{len(case['events'])}")
        part.count("history_event_" + case["events"][0][0])
        if changed:
            part.count("histories_where_an_event_changed_a_printed_text")
        part.outcome(f"hist/{'>'.join(e[0] for e in case['events'])}/changed={bool(changed)}")
        for ident, detail in fails:
            part.fail(ident, detail, case)
    if cases:
        part.sample({"part": "hist", "first_history_of_shard": cases[0]["events"], "labels": cases[0]["scheme"]})
    return part.dump()


def work_any(job):
    kind, task = job
    return {"doc": work_doc, "hist": work_hist, "ren": work_rename, "struct": work_struct}[kind](task)


# --------------------------------------------------------------------------------------------
# task lists
# --------------------------------------------------------------------------------------------
def name_configs(tier):
    """[(names, label schemes, family, reference set)] for part `qual`."""
    out = []
    if tier == "quick":
        for s, t in ((1, 1), (1, 2), (2, 1), (2, 2)):
            for names in R.canonical_name_configs(s, t, ordered=True):
                out.append((names, R.SCHEMES, "complete", "qual"))
        for names in R.canonical_name_configs(3, 2, ordered=False):
            out.append((names, ("same", "uniq"), "unordered", "qual"))
        return out
    basic = ("none", "same", "uniq", "sheet")
    for s, t in ((1, 1), (1, 2), (1, 3), (1, 4), (2, 1), (2, 2), (2, 3), (3, 1), (4, 1)):
        for names in R.canonical_name_configs(s, t, ordered=True):
            out.append((names, R.SCHEMES, "complete", "qual"))
    for names in R.canonical_name_configs(3, 2, ordered=True):
        out.append((names, basic, "complete", "qual"))
    for names in R.canonical_name_configs(3, 2, ordered=False):
        out.append((names, tuple(x for x in R.SCHEMES if x not in basic), "unordered", "qual"))
    for s, t, schemes in ((2, 4, basic), (3, 3, ("same", "uniq", "sheet")), (4, 2, ("same",))):
        for names in R.canonical_name_configs(s, t, ordered=False):
            out.append((names, schemes, "unordered", "qual-small"))
    for s, t in ((4, 2), (4, 4)):
        for names in R.window_name_configs(s, t):
            out.append((names, ("same", "uniq"), "window", "qual-small"))
    return out


def build_tasks(tier, seed):
    tasks = []
    body = (1, 2, 3)
    # coords
    if tier == "quick":
        coords, encs, schemes, hosts = (1, 2, 3), (0,), ("none", "uniq"), [(0, 0)]
    else:
        coords, encs, schemes, hosts = (0, 1, 2, 3), (0, 1), ("none", "uniq", "same"), [(0, 0), (1, 1)]
    for scheme in schemes:
        for host in hosts if scheme != "same" else hosts[:1]:
            for rc in itertools.product(body, body):
                tasks.append(("coords", COORD_NAMES, scheme, seed, [host], [rc], None, ("full", coords, encs)))
    # qual
    for names, schemes_, _family, refset in name_configs(tier):
        for scheme in schemes_:
            tasks.append(("qual", names, scheme, seed, None, None, None, (refset,)))
    return tasks


def main():
    args = parse_args()
    if args.replay:
        def rp(case, payload):
            res = eval_case(case)
            want = payload.get("ident")
            hit = [d for i, d in res if want is None or i == want] or [d for _, d in res]
            return bool(res), f"case {case}:\n  " + ("\n  ".join(hit[:5]) or "printed reference identifies exactly the stored target")
        return run_replay(args, rp)

    run = Run(PID, "exploration", args)
    tasks = build_tasks(args.tier, args.seed)
    hcases = history_cases(args.tier, args.seed)
    per = 4 if args.tier == "quick" else 12
    chunks = [hcases[i:i + per] for i in range(0, len(hcases), per)]
    rtasks = rename_tasks(args.tier, args.seed)
    n_ren = sum(len(t[3]) for t in rtasks)
    stasks = struct_tasks(args.tier, args.seed)
    n_struct = sum(len(t[3]) for t in stasks)
    # one pool for all parts; the long tasks (full coordinate sweeps, then history shards) first
    tasks.sort(key=lambda t: -len(t[1]) * len(t[1][0]) * (20 if t[0] == "coords" else 1))
    n_coords = sum(1 for t in tasks if t[0] == "coords")
    jobs = [("doc", t) for t in tasks[:n_coords]] + [("struct", t) for t in stasks] + [("ren", t) for t in rtasks]
    jobs += [("hist", ch) for ch in chunks] + [("doc", t) for t in tasks[n_coords:]]
    for res in pmap(work_any, jobs, args.jobs):
        run.merge(res)

    c = run.counters
    families = {}
    for _n, _s, fam, _r in name_configs(args.tier):
        families[fam] = families.get(fam, 0) + 1
    run.extra["name_assignments_by_family"] = families
    run.extra["label_schemes"] = list(R.SCHEMES)
    for k in KINDS:
        run.floor(f">= 1000 references of kind {k} rendered and resolved", c["kind_" + k] >= 1000)
    for rel in ("self", "same-sheet", "other-sheet/unique-name", "other-sheet/name-duplicated", "other-sheet/name-in-host-sheet"):
        run.floor(f">= 1000 references with host/target relation {rel}", c["relation_" + rel] >= 1000)
    forms = set(run.outcomes)
    for q in ("0q/", "1q/", "2q/"):
        run.floor(f"printed texts with {q[0]} qualifier(s) observed for coordinates and for labels",
                  any(f.startswith(q) and "label" in f for f in forms) and any(f.startswith(q) and "cell" in f for f in forms))
    run.floor("quoted label observed", any("quoted" in f for f in forms))
    run.floor(">= 8 distinct printed forms", len([f for f in forms if not f.startswith("hist/")]) >= 8)
    run.floor("histories executed, and in >= 10 of them the label write changed a printed text",
              c["histories"] == len(hcases) and c["histories_where_an_event_changed_a_printed_text"] >= 10)
    run.floor("rename histories executed (table and sheet renames), and in >= 20 of them the rename changed a printed text",
              c["rename_histories"] == n_ren and c["rename_event_rename"] > 0 and c["rename_event_sheet"] > 0
              and c["rename_histories_where_the_edit_changed_a_printed_text"] >= 20)
    run.floor("structural histories executed (add_sheet and add_table), and in >= 10 of them the event changed a printed text",
              c["struct_histories"] == n_struct and c["struct_event_add_sheet"] > 0 and c["struct_event_add_table"] > 0
              and c["struct_histories_where_the_event_changed_a_printed_text"] >= 10)
    run.floor("every task produced its document", c["documents_built"] >= len(tasks) + 2 * len(hcases) + 2 * n_ren + 2 * n_struct)
    run.assume("sheet names, table names and header labels contain neither '::' nor ':'; labels that look like A1 coordinates, "
               "column letters or row numbers are not enumerated (the notation itself cannot tell them apart)")
    run.assume("reader model: no qualifier = host table; one qualifier = that table name in the host's sheet, else anywhere; "
               "two = sheet + table; an unqualified label is looked up in the host table, then the host sheet, then the document; "
               "names match exactly (case-sensitive), as in the library's own lookups")
    run.assume("minimality demanded only as: no qualifier on a reference into the host table, and no sheet qualifier when the table "
               "name alone already denotes exactly the stored table; a table qualifier in front of a label is never called superfluous")
    cov = {
        "rule": "distinct_nontrivial = number of distinct (document configuration, host table, host cell, target table, printed text) "
                "tuples, each printed text resolved by the independent reader model and compared with the stored target; "
                "history probes count one per (history, probe point, host, target, reference)",
        "exhaustive": True,
        "bounds": {"tier": args.tier, "tables_are": "4x4", "tasks": len(tasks), "histories": len(hcases), "rename_histories": n_ren, "structural_histories": n_struct},
    }
    return run.finish(cov)


if __name__ == "__main__":
    sys.exit(main())
