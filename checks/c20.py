"""C20 - CSV import followed by CSV export reproduces the cell grid.

Depth-1 state space, enumerated completely: every cell of a classed alphabet A in every role
(header / data cell x first / middle / last column, alone in a 2x2 grid, as a 1x1 grid, in
single-row and single-column grids), every ordered pair of A x A as horizontal and as vertical
neighbours (packed into grids of up to 40 x 12), literal 1x2 / 2x1 grids for every ordered pair of
a core sub-alphabet, uniform grids of every shape of a shape set, duplicate-header grids, and a
small family of ill-formed inputs -- each x all 2^3 subsets of {--no-header, --whitespace,
--reverse} (x 5 physical CSV spellings where stated).

Both entry points run in-process (`_csv2numbers.main`, `_cat_numbers.main -b`) with patched
sys.argv / stdout / stderr and SystemExit caught. Oracle: the CSV bytes are produced by an
independent serialiser (below) and read back with Python's csv module (excel dialect, strict), which
is also the reader of the exported text; the expected grid applies the documented transformations
(--reverse on the data rows, --whitespace normalisation of data cells); a cell is a *number* iff
float(cell.replace(",", "")) succeeds and is finite, then the exported cell must parse to the same
float; every other cell must come back character for character.
"""
from __future__ import annotations

import csv
import hashlib
import io
import itertools
import json
import logging
import math
import os
import sys
from decimal import Decimal, InvalidOperation

from mc.evidence import Part, Run, parse_args, run_replay
from mc.pool import Scratch, pmap

import numbers_parser._cat_numbers as cat_mod
import numbers_parser._csv2numbers as c2n_mod

PID = "C20"
FLAGS = ["--no-header", "--whitespace", "--reverse"]
FLAG_SETS = [[f for f, bit in zip(FLAGS, bits) if bit] for bits in itertools.product((0, 1), repeat=3)]
FORMS = ["excel", "quote-all", "lf", "cr", "no-final-eol"]
MAX_ROWS, MAX_COLS = 40, 12


# ------------------------------------------------------------------------------------------------
# alphabet: (text, class). Classes follow the branches visible in the code: csv quoting / line
# handling, str.strip + \s+ collapsing, float() acceptance, isfinite, the "," removal.
# ------------------------------------------------------------------------------------------------
def _rot(options, seed):
    return options[seed % len(options)]


def _alphabet(seed):
    plain = _rot(["plain", "Word", "abc", "Zq", "text"], seed)
    int15 = _rot(["123456789012345", "999999999999999", "100000000000001", "314159265358979", "271828182845904"], seed)
    dec15 = _rot(["0.123456789012345", "99999999999999.9", "1234567.89012345", "0.000314159265358979", "-8.76543210987654"], seed)
    price = _rot(["1.50", "19.99", "0.07", "250.10", "3.25"], seed)
    thousands = _rot(["1,234.5", "12,345", "-7,654,321.25", "1,000", "999,999.99"], seed)
    latin = _rot(["é", "üß", "łódź", "ñ", "Ångström"], seed)
    astral = _rot(["\U0001F600", "\U0001D11E", "\U00020000", "a\U0001F680b", "\U0001F1E9\U0001F1EA"], seed)
    over17 = _rot(["0.30000000000000004", "1.2345678901234567", "2.718281828459045235", "0.1000000000000000055", "33.333333333333336"], seed)
    a = [
        ("", "empty"),
        (plain, "plain"), ("x", "plain"), ("Hello World", "plain"),
        # csv delimiters and quotes
        ("a,b", "delim"), (",", "delim"), ('say "hi"', "delim"), ('"', "delim"), ('""', "delim"),
        ('"quoted"', "delim"), ('a,"b",c', "delim"), ("it's", "delim"), ("a;b", "delim"), (',"', "delim"), ('",', "delim"),
        # line breaks inside a cell
        ("l1\nl2", "linebreak"), ("l1\rl2", "linebreak"), ("l1\r\nl2", "linebreak"), ("\n", "linebreak"), ("\r", "linebreak"),
        ("\r\n", "linebreak"), ("trail\n", "linebreak"), ("\r\nlead", "linebreak"), ("a\n\nb", "linebreak"), ("q\"\r\n,z", "linebreak"),
        # blanks (what --whitespace touches)
        ("a\tb", "blank"), ("  pad  ", "blank"), (" ", "blank"), ("in  ner", "blank"), ("\tlead", "blank"), ("trail ", "blank"),
        ("x y ", "blank"), ("x y", "blank"), ("x\x0by", "blank"), ("x\x0cy", "blank"), ("　wide　", "blank"),
        ("x\x1fy", "blank"), (" , ", "blank"),
        # non-ASCII text
        (latin, "unicode"), ("é", "unicode"), (astral, "unicode"), ("Ω≈ç", "unicode"), ("﻿x", "unicode"),
        ("שלום", "unicode"), ("日本語", "unicode"), ("x\x00y", "unicode"), ("​", "unicode"),
        # plain numeric spellings
        ("0", "number"), ("-0", "number"), ("12", "number"), ("+3", "number"), (price, "number"), (".5", "number"), ("5.", "number"),
        ("0.1", "number"), ("-17.25", "number"), (int15, "number"), (dec15, "number"), ("007", "number"),
        # numbers with commas
        (thousands, "number-comma"), ("1,2,3", "number-comma"), ("1,", "number-comma"), (",1", "number-comma"), ("1,000,000", "number-comma"),
        # exotic spellings float() accepts
        ("1e3", "number-exotic"), ("1E-3", "number-exotic"), ("1_000", "number-exotic"), ("١٢", "number-exotic"),
        ("１２", "number-exotic"), ("1e22", "number-exotic"), ("-1.5e-7", "number-exotic"), ("1e300", "number-exotic"),
        ("4.9e-324", "number-exotic"), (" 12 ", "number-exotic"), ("\t7", "number-exotic"), ("1e-400", "number-exotic"),
        ("1e15", "number-exotic"), ("1e16", "number-exotic"), (" 42 ", "number-exotic"),
        # more than 15 significant digits (documented limit of number cells: 15 significant figures)
        (over17, "number-over15"), ("12345678901234567", "number-over15"), ("9007199254740993", "number-over15"),
        ("123456789012345678901234567890", "number-over15"),
        # special-float look-alikes: must stay text
        ("nan", "nonfinite"), ("NaN", "nonfinite"), ("inf", "nonfinite"), ("-inf", "nonfinite"), ("Infinity", "nonfinite"),
        ("1e400", "nonfinite"), ("-1e400", "nonfinite"), ("infinity", "nonfinite"), ("+inf", "nonfinite"), ("-nan", "nonfinite"),
        (" nan ", "nonfinite"), ("iNf", "nonfinite"), ("in,f", "nonfinite"), ("n,an", "nonfinite"), ("1e4,00", "nonfinite"),
        # near-numbers: must stay text
        ("0x10", "near-number"), ("1e", "near-number"), ("--1", "near-number"), ("TRUE", "near-number"), ("1 000", "near-number"),
        ("١٢٣٫٤", "near-number"), ("1/2", "near-number"), ("50%", "near-number"), ("$5", "near-number"),
        ("(5)", "near-number"), ("1d", "near-number"), ("nan(1)", "near-number"), ("1.2.3", "near-number"), ("1__0", "near-number"),
        ("_1", "near-number"), ("1e+", "near-number"), ("- 1", "near-number"), ("0b1", "near-number"), ("None", "near-number"),
        # date / formula look-alikes: no --date given, so text
        ("2020-01-02", "datelike"), ("01/02/2020", "datelike"), ("12:30", "datelike"), ("Jan 5", "datelike"), ("3 March 2021 10:00", "datelike"),
        ("=A1", "formula-like"), ("=SUM(A1:B2)", "formula-like"), ("@x", "formula-like"), ("+a", "formula-like"), ("-a", "formula-like"),
        # long
        (("long " + plain + ", \"q\" ") * 25, "long"),
    ]
    texts = [t for t, _ in a]
    assert len(set(texts)) == len(texts), "alphabet entries must be distinct"
    reps = {"plain*": plain, "latin*": latin, "astral*": astral, "price*": price, "thousands*": thousands, "int15*": int15}
    return a, reps


CORE = ["", "plain*", "a,b", '"', 'say "hi"', "l1\nl2", "l1\rl2", "l1\r\nl2", "\r", "  pad  ", " ", "a\tb", "x\u00a0y\u00a0",
        "latin*", "astral*", "0", "-0", "12", "price*", "thousands*", "1,2,3", "1e3", "\u0661\u0662", ".5", "int15*",
        "nan", "inf", "1e400", "in,f", "0x10", "2020-01-02", "=A1"]
HOSTILE = ["", "a,b", '"', "l1\rl2", "l1\r\nl2", "  pad  ", "thousands*", "nan"]


def alphabet(seed):
    return _alphabet(seed)[0]


def all_classes():
    """text -> class over the alphabets of every seed (replay artefacts carry no seed)."""
    out = {}
    for sd in range(5):
        out.update(dict(alphabet(sd)))
    return out


def resolve(names, seed):
    """Texts of a named sub-alphabet; 'x*' names are the seed-rotated representatives."""
    a, reps = _alphabet(seed)
    texts = {t for t, _ in a}
    out = [reps.get(n, n) for n in names]
    assert all(t in texts for t in out)
    return out


# ------------------------------------------------------------------------------------------------
# reference model
# ------------------------------------------------------------------------------------------------
def ws_norm(s):
    """--whitespace as documented: strip both ends, collapse inner runs to one space (str.split based)."""
    return " ".join(s.split())


def as_number(s):
    """The float a cell denotes, or None when it is not a finite number (then it is text)."""
    try:
        v = float(s.replace(",", ""))
    except ValueError:
        return None
    return v if math.isfinite(v) else None


def sig_digits(s):
    """(number of significant decimal digits, adjusted exponent) of a numeric spelling."""
    t = s.replace(",", "")
    try:
        d = Decimal(t.strip())
    except InvalidOperation:
        d = Decimal(repr(float(t)))
    if d == 0:
        return 1, 0
    digits = d.as_tuple().digits
    n = len(digits)
    while n > 1 and digits[n - 1] == 0:
        n -= 1
    return n, d.adjusted()


def number_agrees(inp, out):
    """Exported text `out` denotes the same number as input spelling `inp`.
    Up to 15 significant digits: the same float. Above (documented limit of number cells, 15
    significant figures): within one unit of the 15th significant digit."""
    want = as_number(inp)
    try:
        got = float(out.replace(",", ""))
    except ValueError:
        return False
    n, adj = sig_digits(inp)
    if n <= 15:
        return got == want
    if not math.isfinite(got):
        return False
    try:
        exact = Decimal(inp.replace(",", "").strip())
    except InvalidOperation:
        exact = Decimal(want)
    return abs(Decimal(got) - exact) <= Decimal(1).scaleb(adj - 14)


def serialise(grid, form):
    """Independent CSV writer (RFC 4180 rules): quote a field iff it contains , \" CR or LF (or always),
    double embedded quotes; a sole empty field is written as \"\" so the line is not blank."""
    eol = {"excel": "\r\n", "quote-all": "\r\n", "lf": "\n", "cr": "\r", "no-final-eol": "\r\n"}[form]
    lines = []
    for row in grid:
        fields = []
        for c in row:
            if form == "quote-all" or any(ch in c for ch in ',"\r\n') or (c == "" and len(row) == 1):
                fields.append('"' + c.replace('"', '""') + '"')
            else:
                fields.append(c)
        lines.append(",".join(fields))
    text = eol.join(lines)
    if form != "no-final-eol":
        text += eol
    return text


def read_csv_text(text):
    return [list(r) for r in csv.reader(io.StringIO(text, newline=""), dialect="excel", strict=True)]


def expected_grid(grid, flags):
    """Rows of (original text, role) after the documented transformations."""
    header = "--no-header" not in flags
    rows = [[(c, "header" if header and i == 0 else "data") for c in r] for i, r in enumerate(grid)]
    head, data = (rows[:1], rows[1:]) if header else ([], rows)
    if "--reverse" in flags:
        data = data[::-1]
    return head + data


def collapsed_model(grid, flags):
    """What the dict-keyed row representation does to columns whose header texts are equal (the
    known defect): a later duplicate overwrites the value of the first, the row gets shorter."""
    head = grid[0]
    rows = []
    for r in grid[1:]:
        d = {}
        for k, v in zip(head, r):
            d[k] = v
        vals = list(d.values())
        rows.append([(v, "data") for v in vals] + [None] * (len(head) - len(vals)))
    if "--reverse" in flags:
        rows = rows[::-1]
    return [[(c, "header") for c in head]] + rows


def cell_verdict(exp, out, ws):
    """None when the exported cell agrees with the expectation, else a short pattern name."""
    if exp is None:  # only in the collapsed model: an empty surplus cell
        return None if out == "" else "surplus-not-empty"
    inp, role = exp
    if role == "header":
        # header cells are never coerced; under --whitespace the help text does not say whether
        # headers are normalised, so both spellings are accepted
        if out == inp or (ws and out == ws_norm(inp)):
            return None
        if as_number(inp) is not None and number_agrees(inp, out):
            return None
        return "header-text-differs"
    if as_number(inp) is not None:
        return None if number_agrees(inp, out) else "number-differs"
    want = ws_norm(inp) if ws else inp
    if out == want:
        return None
    if ws and out == inp:
        return "whitespace-not-normalised"
    if not ws and out == ws_norm(inp):
        return "whitespace-normalised-without-flag"
    if out.replace("\r\n", "\n").replace("\r", "\n") == want.replace("\r\n", "\n").replace("\r", "\n"):
        return "line-break-changed"
    if as_number(out) is not None or out.lower() in ("nan", "inf", "-inf"):
        return "text-became-number"
    return "text-differs"


def grid_diffs(exp, got, ws, classes):
    """List of (row, col, pattern, class) for an exported grid of the same shape as `exp`."""
    out = []
    for i, (er, gr) in enumerate(zip(exp, got)):
        for j, (e, g) in enumerate(zip(er, gr)):
            v = cell_verdict(e, g, ws)
            if v is not None:
                cls = classes.get(e[0], "background") if e is not None else "surplus"
                out.append((i, j, v, cls, e, g))
    return out


# ------------------------------------------------------------------------------------------------
# running the entry points in-process
# ------------------------------------------------------------------------------------------------
def run_entry(mod, argv):
    """(exit status, escaped exception name or None, stdout, stderr) of mod.main() under argv."""
    out, err = io.StringIO(newline=""), io.StringIO()
    saved = (sys.argv, sys.stdout, sys.stderr)
    mod_err = getattr(mod, "stderr", None)  # `from sys import stderr` binds the stream at import time
    lg = logging.getLogger("numbers_parser")
    handlers = list(lg.handlers)
    sys.argv, sys.stdout, sys.stderr = argv, out, err
    if mod_err is not None:
        mod.stderr = err
    status, exc = 0, None
    try:
        mod.main()
    except SystemExit as e:
        status = e.code if e.code is not None else 0
    except BaseException as e:  # noqa: BLE001 - an escaping exception is an observation
        exc = f"{type(e).__name__}: {str(e)[:120]}"
    finally:
        sys.argv, sys.stdout, sys.stderr = saved
        if mod_err is not None:
            mod.stderr = mod_err
        lg.handlers[:] = handlers
    return status, exc, out.getvalue(), err.getvalue()


def one_line(err_text):
    lines = [ln for ln in err_text.splitlines() if ln.strip()]
    return len(lines) == 1 and "Traceback" not in err_text


def _paths():
    d = Scratch.dir()
    os.makedirs(d, exist_ok=True)  # another run's clean-up may have removed it
    return os.path.join(d, "in.csv"), os.path.join(d, "out.numbers")


def _exc_name(exc):
    return exc.split(":", 1)[0]


# ------------------------------------------------------------------------------------------------
# the single-case evaluator (enumeration and --replay)
# ------------------------------------------------------------------------------------------------
def eval_case(case, classes=None):
    """Return (failures, info): failures = [(ident, detail)], info = dict of observations."""
    fails, info = _eval_case(case, classes)
    if case["k"] == "grid" and any(i["mechanism"] in ("csv2numbers", "cat-numbers") for i, _ in fails) and not os.path.exists(_paths()[0]):
        # the scratch files vanished under us (another run's clean-up of the shared temp directory): once more
        fails, info = _eval_case(case, classes)
    return fails, info


def _eval_case(case, classes=None):
    classes = classes if classes is not None else {}
    flags = list(case.get("flags", []))
    csv_path, out_path = _paths()
    for p in (csv_path, out_path):
        if os.path.exists(p):
            os.remove(p)
    info = {"outcome": None, "cells": {}}
    fails = []

    if case["k"] == "raw":
        # ill-formed input: the statement only demands "succeeds, or one line on stderr + non-zero exit"
        if not case.get("missing"):
            with open(csv_path, "wb") as f:
                f.write(bytes.fromhex(case["hex"]))
        st, exc, _, err = run_entry(c2n_mod, ["csv2numbers", *flags, csv_path, "-o", out_path])
        label = case["label"]
        if exc is not None:
            info["outcome"] = f"ill-formed:crash:{_exc_name(exc)}"
            fails.append(({"mechanism": "error reporting", "class": label, "pattern": "crash:" + _exc_name(exc)},
                          f"csv2numbers {' '.join(flags)} on {label} ({case.get('hex', '')[:60]}): {exc} escaped main()"))
        elif st not in (0, None):
            if one_line(err):
                info["outcome"] = "ill-formed:error-exit"
            else:
                info["outcome"] = "ill-formed:bad-report"
                fails.append(({"mechanism": "error reporting", "class": label, "pattern": "not-one-line"},
                              f"csv2numbers on {label}: exit {st} but stderr is not one line: {err[:300]!r}"))
        elif os.path.exists(out_path) and not err.strip():
            info["outcome"] = "ill-formed:accepted"
        else:
            info["outcome"] = "ill-formed:silent-failure"
            fails.append(({"mechanism": "error reporting", "class": label, "pattern": "exit status 0 without a document" if not os.path.exists(out_path) else "exit status 0 with an error message"},
                          f"csv2numbers {' '.join(flags)} on {label}: exit status 0, output written: {os.path.exists(out_path)}, stderr {err[:300]!r}"))
        return fails, info

    grid = case["grid"]
    form = case.get("form", "excel")
    text = serialise(grid, form)
    if read_csv_text(text) != grid:
        raise RuntimeError(f"harness: reference reader does not return the generated grid for {grid!r} ({form})")
    with open(csv_path, "wb") as f:
        f.write(text.encode("utf-8"))
    info["hash"] = hashlib.sha1(text.encode("utf-8") + b"|" + " ".join(sorted(flags)).encode()).hexdigest()[:16]
    ws = "--whitespace" in flags
    header = "--no-header" not in flags
    nrows, ncols = len(grid), len(grid[0])
    what = f"grid {nrows}x{ncols} form={form} flags={flags}"

    st, exc, _, err = run_entry(c2n_mod, ["csv2numbers", *flags, csv_path, "-o", out_path])
    if exc is not None:
        info["outcome"] = f"crash:{_exc_name(exc)}"
        fails.append(({"mechanism": "csv2numbers", "class": "crash on well-formed input", "pattern": _exc_name(exc)},
                      f"{what}: {exc} escaped csv2numbers main(); first rows {grid[:3]!r}"))
        return fails, info
    if st not in (0, None):
        info["outcome"] = "refused"
        fails.append(({"mechanism": "csv2numbers", "class": "well-formed input refused", "pattern": "one-line" if one_line(err) else "not-one-line"},
                      f"{what}: exit status {st}, stderr {err[:300]!r}; first rows {grid[:3]!r}"))
        return fails, info
    st2, exc2, out, err2 = run_entry(cat_mod, ["cat-numbers", "-b", out_path])
    if exc2 is not None or st2 not in (0, None):
        info["outcome"] = "export-failed"
        fails.append(({"mechanism": "cat-numbers", "class": "export failed", "pattern": _exc_name(exc2) if exc2 else f"exit {st2}"},
                      f"{what}: cat-numbers -b: status {st2}, {exc2}, stderr {err2[:300]!r}"))
        return fails, info
    try:
        got = read_csv_text(out)
    except csv.Error as e:
        info["outcome"] = "export-unparsable"
        fails.append(({"mechanism": "cat-numbers", "class": "exported text is not well-formed CSV", "pattern": str(e)[:40]},
                      f"{what}: csv.reader(strict) rejects the export: {e}; text {out[:200]!r}"))
        return fails, info

    exp = expected_grid(grid, flags)
    info["compared"] = True
    outcome = "same-grid"
    # --- shape -------------------------------------------------------------------------------
    grows = len(got)
    gcols = len(got[0]) if got else 0
    ragged = any(len(r) != gcols for r in got)
    if ragged or (grows, gcols) != (nrows, ncols):
        padded = (not ragged and (nrows == 1 or ncols == 1) and (grows, gcols) == (max(nrows, 2), max(ncols, 2))
                  and all(c == "" for i, r in enumerate(got) for j, c in enumerate(r) if i >= nrows or j >= ncols))
        if padded:
            outcome = "padded-to-2x2"
            fails.append(({"mechanism": "shape", "class": "single row or single column", "pattern": "padded to 2x2 with empty cells"},
                          f"{what}: exported grid is {grows}x{gcols}; the surplus cells are all empty. input {grid[:3]!r} -> {got[:3]!r}"))
            got = [r[:ncols] for r in got[:nrows]]
        else:
            info["outcome"] = "shape-differs"
            pat = "ragged" if ragged else f"rows{'<=>'[(grows > nrows) - (grows < nrows) + 1]},cols{'<=>'[(gcols > ncols) - (gcols < ncols) + 1]}"
            fails.append(({"mechanism": "shape", "class": "exported grid has another shape", "pattern": pat},
                          f"{what}: exported grid is {'ragged' if ragged else f'{grows}x{gcols}'}; input {grid[:3]!r} -> {got[:3]!r}"))
            return fails, info
    # --- cells -------------------------------------------------------------------------------
    diffs = grid_diffs(exp, got, ws, classes)
    if diffs and header and nrows > 1 and len(set(grid[0])) < ncols:
        if not grid_diffs(collapsed_model(grid, flags), got, ws, classes):
            info["outcome"] = "duplicate-header-collapse"
            i, j, _, _, e, g = diffs[0]
            fails.append(({"mechanism": "header", "class": "duplicate header text", "pattern": "columns collapsed onto the first occurrence"},
                          f"{what}: header {grid[0]!r} has equal texts; row {i} col {j}: expected {e[0]!r}, exported {g!r}; "
                          f"input {grid[:3]!r} -> {got[:3]!r}"))
            return fails, info
    if diffs and nrows > 1:
        # a pure row-order failure is one identity, not one per cell
        for name, alt in (("data rows reversed", exp[:1] + exp[1:][::-1] if header else exp[::-1]),
                          ("all rows reversed", exp[::-1]),
                          ("header moved", exp[1:] + exp[:1])):
            if not grid_diffs(alt, got, ws, classes):
                info["outcome"] = "row-order"
                fails.append(({"mechanism": "row order", "class": "--reverse" if "--reverse" in flags else "no --reverse",
                               "pattern": name + (", header mode" if header else ", --no-header")},
                              f"{what}: exported rows are the expected rows in another order ({name}); input {grid[:3]!r} -> {got[:3]!r}"))
                return fails, info
    seen = set()
    for i, j, pat, cls, e, g in diffs:
        role = e[1] if e is not None else "data"
        key = (role, cls, pat)
        if key in seen:
            continue
        seen.add(key)
        fails.append(({"mechanism": f"{role} cell", "class": cls, "pattern": pat},
                      f"{what}: row {i} col {j}: input cell {e[0]!r} exported as {g!r}", ))
        info.setdefault("diff_cells", []).append([role, e[0]])
    if diffs:
        outcome = "cells-differ"
    # --- observations for the coverage statement ------------------------------------------------
    cells = info["cells"]
    for er, gr in zip(exp, got):
        for (inp, role), g in zip(er, gr):
            if role == "header":
                k = "header:kept"
            elif as_number(inp) is not None:
                k = "number:respelled" if g != inp else "number:same-text"
            elif ws and ws_norm(inp) != inp:
                k = "text:normalised"
            else:
                k = "text:identical" if g == inp else "text:changed"
            cells[k] = cells.get(k, 0) + 1
    info["outcome"] = outcome
    return fails, info


COARSE = ("csv2numbers", "cat-numbers", "shape")


def shrink_coarse(case, ident, classes):
    """A whole-grid failure (crash, refusal, wrong shape) of a packed grid: look for one cell of the
    grid that alone, in a 2x2 grid with the same flags and spelling, gives the same identity."""
    grid = case["grid"]
    if len(grid) * len(grid[0]) <= 4:
        return None
    want = json.dumps(ident, sort_keys=True)
    tried = set()
    for i, row in enumerate(grid):
        for c in row:
            role = "header" if i == 0 else "data"
            if (c, role) in tried or c not in classes or len(tried) >= 140:
                continue
            tried.add((c, role))
            g = [[c, "h1"], ["r1x0", "r1x1"]] if role == "header" else [["h0", "h1"], [c, "r1x1"]]
            small = {"k": "grid", "grid": g, "flags": case["flags"], "form": case.get("form", "excel"), "fam": "reduced"}
            f2, _ = eval_case(small, classes)
            for id2, d2 in f2:
                if json.dumps(id2, sort_keys=True) == want:
                    return small, d2
    return None


def reduced_cases(case, info):
    """Smaller candidates for the replay artefact of a cell-level failure (2x2 grids)."""
    out = []
    for role, text in info.get("diff_cells", [])[:4]:
        if role == "header":
            g = [[text, "h1"], ["r1x0", "r1x1"]]
        else:
            g = [["h0", "h1"], [text, "r1x1"]]
        out.append({"k": "grid", "grid": g, "flags": case["flags"], "form": case.get("form", "excel"), "fam": "reduced"})
    return out


# ------------------------------------------------------------------------------------------------
# enumeration
# ------------------------------------------------------------------------------------------------
def bg_header(n, seed):
    w = _rot(["h", "col", "Head", "k", "f"], seed)
    return [f"{w}{j}" for j in range(n)]


def bg_cell(i, j, seed):
    w = _rot(["r", "b", "cell", "v", "t"], seed)
    return f"{w}{i}x{j}"


def build_grids(tier, seed):
    """[(family, grid, forms)] - the complete families of this tier."""
    A = [t for t, _ in alphabet(seed)]
    n = len(A)
    rot = seed % n
    order = A[rot:] + A[:rot]  # the seed only rotates which cells share a packed grid
    thorough = tier == "thorough"
    all_forms = FORMS
    fams = []

    core = resolve(CORE, seed)
    # F1: each cell alone in a 2x2 grid, as a data cell and as a header cell (so that a crash is attributable)
    for a in (A if thorough else core):
        fams.append(("alone-data", [bg_header(2, seed), [a, bg_cell(1, 1, seed)]], all_forms if thorough else ["excel"]))
        if thorough:
            fams.append(("alone-header", [[a, bg_header(2, seed)[1]], [bg_cell(1, 0, seed), bg_cell(1, 1, seed)]], ["excel"]))
            fams.append(("alone-header", [[bg_header(2, seed)[0], a], [bg_cell(1, 0, seed), bg_cell(1, 1, seed)]], ["excel"]))
    # F2: each cell as a 1x1 grid; in single-row and single-column grids
    for a in (A if thorough else core):
        fams.append(("single-1x1", [[a]], ["excel"]))
        if thorough:
            fams.append(("single-row", [[bg_header(3, seed)[0], a, bg_header(3, seed)[2]]], ["excel"]))
            fams.append(("single-col", [[bg_header(1, seed)[0]], [a], [bg_cell(2, 0, seed)]], ["excel"]))
    # F3: roles packed: header of 12 alphabet cells; each of 13 cells in first / middle / last column
    hchunks = [order[i:i + MAX_COLS] for i in range(0, n, MAX_COLS)]
    dchunks = [order[i:i + 13] for i in range(0, n, 13)]
    for gi in range(max(len(hchunks), len(dchunks))):
        hc = hchunks[gi % len(hchunks)]
        head = hc + bg_header(MAX_COLS, seed)[len(hc):]
        rows = [head]
        for a in dchunks[gi % len(dchunks)]:
            for pos in (0, MAX_COLS // 2, MAX_COLS - 1):
                i = len(rows)
                rows.append([a if j == pos else bg_cell(i, j, seed) for j in range(MAX_COLS)])
        fams.append(("roles-packed", rows, all_forms))
    # F4: all ordered pairs as horizontal neighbours. Difference method: a row started at s with the
    # gaps d_1..d_11 holds the pairs (x, x + d_j) ; over all n starts every pair of difference d_j occurs.
    def chains(length):
        gaps_per = length - 1
        out = []
        for k in range(-(-n // gaps_per)):
            gaps = [(k * gaps_per + t) % n for t in range(gaps_per)]
            for s0 in range(n):
                idx = [s0]
                for d in gaps:
                    idx.append((idx[-1] + d) % n)
                out.append([order[x] for x in idx])
        return out

    rows_h = chains(MAX_COLS)
    for gi in range(0, len(rows_h), MAX_ROWS - 1):
        rows = [bg_header(MAX_COLS, seed)] + rows_h[gi:gi + MAX_ROWS - 1]
        fams.append(("pairs-horizontal", rows, all_forms if thorough else ["excel"]))
    # F5: all ordered pairs as vertical neighbours: columns of 39 data cells built the same way
    cols_v = chains(MAX_ROWS - 1)
    for gi in range(0, len(cols_v), MAX_COLS):
        cols = cols_v[gi:gi + MAX_COLS]
        rows = [bg_header(MAX_COLS, seed)]
        for i in range(MAX_ROWS - 1):
            rows.append([cols[j][i] if j < len(cols) else bg_cell(i + 1, j, seed) for j in range(MAX_COLS)])
        fams.append(("pairs-vertical", rows, all_forms if thorough else ["excel"]))
    # F6: literal 1x2 and 2x1 grids for every ordered pair of a sub-alphabet
    sub = resolve(CORE if thorough else HOSTILE, seed)
    for a in sub:
        for b in sub:
            fams.append(("pair-1x2", [[a, b]], ["excel"]))
            fams.append(("pair-2x1", [[a], [b]], ["excel"]))
    # F7: uniform grids of every shape of the shape set
    rset, cset = ([1, 2, 3, 4, 39, 40], [1, 2, 3, 11, 12]) if thorough else ([1, 2, 3, 40], [1, 2, 12])
    for r in rset:
        for c in cset:
            fams.append(("shape", [bg_header(c, seed)] + [[bg_cell(i, j, seed) for j in range(c)] for i in range(1, r)], ["excel"]))
    # F8: duplicate header texts (2 and 3 columns; the duplicate first/last and adjacent)
    dup = resolve(HOSTILE, seed)
    for a in dup:
        fams.append(("dup-header", [[a, a], ["p", "7"]], ["excel"]))
        fams.append(("dup-header", [[a, "mid", a], ["p", "7", "q"], ["8", "s", "t"]], ["excel"]))
        if thorough:
            fams.append(("dup-header", [["left", a, a], ["p", "7", "q"], ["8", "s", "t"]], ["excel"]))
            fams.append(("dup-header", [[a, a], ["same", "same"]], ["excel"]))
    return fams


ILL_FORMED = [
    ("unterminated quote in the header", 'a,"b\r\n'.encode(), False),
    ("unterminated quote in a data row", 'a,b\r\n1,"x\r\n'.encode(), False),
    ("text after a closing quote", 'a,b\r\n1,"x"y\r\n'.encode(), False),
    ("text after a closing quote in the header", '"a"b,c\r\n1,2\r\n'.encode(), False),
    ("missing file", b"", True),
    ("empty file", b"", False),
    ("bytes that are not UTF-8", b"a,b\r\n\xff\xfe,1\r\n", False),
]


def build_cases(tier, seed):
    cases = []
    for fam, grid, forms in build_grids(tier, seed):
        for form in forms:
            for fl in FLAG_SETS:
                cases.append({"k": "grid", "fam": fam, "grid": grid, "flags": fl, "form": form})
    for label, data, missing in ILL_FORMED:
        for fl in FLAG_SETS:
            cases.append({"k": "raw", "fam": "ill-formed", "label": label, "hex": data.hex(), "missing": missing, "flags": fl})
    return cases


CASES = []
CLASSES = {}


def _smaller(a, b):
    return len(json.dumps(a)) < len(json.dumps(b))


def work(task):
    k, n = task
    part = Part()
    best = {}  # ident key -> [ident, detail, replay, count]
    shrunk = set()
    hashes = []
    for case in CASES[k::n]:
        fails, info = eval_case(case, CLASSES)
        part.count("evaluations")
        part.count(f"cases_{case['fam']}")
        part.count("flags_" + ("+".join(f.strip("-") for f in case["flags"]) or "none"))
        if case["k"] == "grid":
            part.count("form_" + case["form"])
            part.count("cells_compared", sum(info["cells"].values()))
            for kk, v in info["cells"].items():
                part.count("cell_" + kk, v)
            if info.get("compared"):
                hashes.append(info["hash"])
        part.outcome(("ill-formed/" + case["label"] + " -> " if case["k"] == "raw" else "") + str(info["outcome"]))
        if not fails and case["k"] == "grid" and len(case["grid"]) <= 3:
            part.sample({"family": case["fam"], "grid": case["grid"], "flags": case["flags"], "form": case["form"], "outcome": info["outcome"]})
        replay = {kk: v for kk, v in case.items()}
        if fails and info.get("diff_cells"):
            for small in reduced_cases(case, info):
                f2, _ = eval_case(small, CLASSES)
                ids2 = {json.dumps(i, sort_keys=True): d for i, d in f2}
                for ident, detail in fails:
                    key = json.dumps(ident, sort_keys=True)
                    if key in ids2:
                        _keep(best, ident, ids2[key], small, 0)
        for ident, detail in fails:
            key = json.dumps(ident, sort_keys=True)
            if ident["mechanism"] in COARSE and "padded" not in ident["pattern"] and case["k"] == "grid" and key not in shrunk:
                shrunk.add(key)  # one bounded attempt per identity and worker
                sm = shrink_coarse(case, ident, CLASSES)
                if sm is not None:
                    _keep(best, ident, sm[1], sm[0], 0)
            _keep(best, ident, detail, replay, 1)
    out = part.dump()
    out["failures"] = [{"ident": i, "detail": d, "replay": r, "count": c} for i, d, r, c in best.values()]
    out["hashes"] = hashes
    return out


def _keep(best, ident, detail, replay, n):
    key = json.dumps(ident, sort_keys=True)
    cur = best.get(key)
    if cur is None:
        best[key] = [ident, detail, replay, n]
    else:
        cur[3] += n
        if _smaller(replay, cur[2]):
            cur[1], cur[2] = detail, replay
    return best


def coverage_of(grids, A):
    """Which (cell, role) and which ordered neighbour pairs the enumerated grids contain."""
    idx = {t: i for i, t in enumerate(A)}
    roles, hp, vp = set(), set(), set()
    for fam, grid, _ in grids:
        ncols = len(grid[0])
        for i, row in enumerate(grid):
            for j, c in enumerate(row):
                if c not in idx:
                    continue
                pos = "first" if j == 0 else "last" if j == ncols - 1 else "middle"
                if ncols >= 3 or fam.startswith("alone"):
                    roles.add((idx[c], "header" if i == 0 else "data", pos))
                if j + 1 < ncols and row[j + 1] in idx:
                    hp.add((idx[c], idx[row[j + 1]]))
                if i + 1 < len(grid) and grid[i + 1][j] in idx:
                    vp.add((idx[c], idx[grid[i + 1][j]]))
    return roles, hp, vp


def main():
    global CASES, CLASSES
    args = parse_args()
    if args.replay:
        def rp(case, payload):
            from mc.evidence import ident_matches, load_known
            fails, info = eval_case(case, all_classes())
            want = payload.get("ident")
            if want is not None:  # the artefact names one failure identity: does that one reproduce?
                hit = [d for i, d in fails if i == want]
            else:
                known = load_known(PID)
                hit = [d for i, d in fails if not any(ident_matches(k["match"], i) for k in known)]
            other = [d for i, d in fails if d not in hit]
            text = f"case {json.dumps(case)[:400]}: outcome {info['outcome']}: " + ("; ".join(hit) or "agrees with the oracle")
            if other:
                text += "\n(also observed, not the identity of this artefact: " + "; ".join(other)[:400] + ")"
            return bool(hit), text
        return run_replay(args, rp)

    run = Run(PID, "exploration", args)
    alpha = alphabet(args.seed)
    CLASSES = all_classes()
    A = [t for t, _ in alpha]
    grids = build_grids(args.tier, args.seed)
    CASES = build_cases(args.tier, args.seed)
    # biggest grids first so the shards finish together
    CASES.sort(key=lambda c: -(len(c.get("grid", [])) * len(c.get("grid", [[]])[0])))
    nshards = max(1, args.jobs) * 6
    merged = {}
    hashes = set()
    for res in pmap(work, [(k, nshards) for k in range(nshards)], args.jobs):
        for f in res.pop("failures", []):
            cur = merged.get(json.dumps(f["ident"], sort_keys=True))
            if cur is None:
                merged[json.dumps(f["ident"], sort_keys=True)] = f
            else:
                cur["count"] += f["count"]
                if _smaller(f["replay"], cur["replay"]):
                    cur["detail"], cur["replay"] = f["detail"], f["replay"]
        hashes.update(res.pop("hashes", []))
        run.merge(res)
    for key in sorted(merged):
        f = merged[key]
        f["count"] = max(1, f["count"])
        run.merge({"failures": [f]})

    c = run.counters
    n = len(A)
    roles, hp, vp = coverage_of(grids, A)
    want_roles = {(i, "data", p) for i in range(n) for p in ("first", "middle", "last")}
    if args.tier == "thorough":
        want_roles |= {(i, "header", p) for i in range(n) for p in ("first", "last")}
    in_header = {i for i, r, _ in roles if r == "header"}
    run.floor(f"every one of the {n} alphabet cells enumerated as data cell in a first, middle and last column and as header cell"
              + (" (also in the first and in the last column)" if args.tier == "thorough" else ""),
              want_roles <= roles and len(in_header) == n)
    run.floor(f"all {n * n} ordered pairs enumerated as horizontal neighbours", len(hp) == n * n)
    run.floor(f"all {n * n} ordered pairs enumerated as vertical neighbours", len(vp) == n * n)
    run.floor("every enumerated case was evaluated", c["evaluations"] == len(CASES))
    run.floor("all 8 flag subsets executed equally often", len({v for k, v in c.items() if k.startswith("flags_")}) == 1 and sum(1 for k in c if k.startswith("flags_")) == 8)
    run.floor("all 5 physical CSV spellings executed", all(c["form_" + f] > 0 for f in FORMS))
    run.floor(">= 500 number cells came back respelled but numerically equal", c["cell_number:respelled"] >= 500)
    run.floor(">= 500 text cells normalised by --whitespace compared", c["cell_text:normalised"] >= 500)
    run.floor(">= 10000 text cells compared character for character", c["cell_text:identical"] >= 10000)
    run.floor(">= 8 ill-formed inputs reported by one line on stderr and a non-zero exit", sum(v for k, v in run.outcomes.items() if k.endswith("error-exit")) >= 8)
    run.floor(">= 2 distinct outcomes", len(run.outcomes) >= 2)
    trivial = sum(1 for cs in CASES if cs["k"] == "grid" and cs["fam"] == "shape" and not cs["flags"])
    run.extra["alphabet_size"] = n
    run.extra["alphabet_classes"] = sorted({k for _, k in alpha})
    run.extra["grids"] = len(grids)
    run.extra["bounds"] = {"max_rows": MAX_ROWS, "max_cols": MAX_COLS, "flag_subsets": 8, "forms": FORMS}
    run.assume("Python's csv module (excel dialect, strict=True) is the reference reader of both the input and the exported text")
    run.assume("number cells are compared as floats up to 15 significant digits; spellings with more digits must agree within one unit of "
               "the 15th significant digit (documented limit of NumberCell, docs/api/changes-4.0.rst)")
    run.assume("header cells under --whitespace may come back normalised or untouched (the help text does not say)")
    run.assume("no --date / --rename / --transform / --delete / --encoding options; ragged rows and blank lines are outside the stated quantifier")
    cov = {
        "distinct_nontrivial": len(hashes) - trivial,
        "rule": "distinct (CSV file bytes, flag subset) inputs for which both entry points ran and the exported grid was compared with "
                "the expectation cell by cell (sha1 of bytes+flags, union over workers); the uniform background grids under the empty "
                "flag set are counted as trivial and subtracted",
        "exhaustive": True,
    }
    return run.finish(cov)


if __name__ == "__main__":
    sys.exit(main())
