"""C12 - merged regions are reported consistently, immediately and after reload.

Explicit-state exploration (mc.explore) of merge / write / insert / delete histories on small real
tables against a reference = (value grid, set of rectangles); every distinct state is probed through
save + reopen.
"""
from __future__ import annotations

import os
import sys

from mc import explore
from mc.evidence import Run, parse_args, run_replay
from mc.pool import Scratch

from numbers_parser import Document
from numbers_parser.cell import MergedCell

PID = "C12"
_n = [0]


def _tmp():
    _n[0] += 1
    return Scratch.path(f"c12-{os.getpid()}-{_n[0]}.numbers")


def a1(r, c):
    s = ""
    c += 1
    while c:
        c, rem = divmod(c - 1, 26)
        s = chr(65 + rem) + s
    return f"{s}{r + 1}"


def a1_range(rect):
    r0, c0, r1, c1 = rect
    return f"{a1(r0, c0)}:{a1(r1, c1)}"


def all_rects(nr, nc):
    out = []
    for r0 in range(nr):
        for c0 in range(nc):
            for r1 in range(r0, nr):
                for c1 in range(c0, nc):
                    if (r1 - r0 + 1) * (c1 - c0 + 1) >= 2:
                        out.append((r0, c0, r1, c1))
    return out


def disjoint(a, b):
    return a[2] < b[0] or b[2] < a[0] or a[3] < b[1] or b[3] < a[1]


class State:
    pass


def view(t):
    """What a user can observe about merges and values."""
    v = {}
    for r in range(t.num_rows):
        for c in range(t.num_cols):
            cell = t.cell(r, c)
            rect = getattr(cell, "rect", None)
            v[(r, c)] = ("M" if isinstance(cell, MergedCell) else "C", cell.value, bool(cell.is_merged), tuple(cell.size) if cell.size else None,
                         tuple(rect) if rect else None, getattr(cell, "merge_range", None))
    return v, list(t.merge_ranges), (t.num_rows, t.num_cols)


def model_view(grid, rects):
    v = {}
    own = {}
    for rc in rects:
        r0, c0, r1, c1 = rc
        for r in range(r0, r1 + 1):
            for c in range(c0, c1 + 1):
                own[(r, c)] = rc
    for r in range(len(grid)):
        for c in range(len(grid[0])):
            if (r, c) in own:
                r0, c0, r1, c1 = own[(r, c)]
                if (r, c) == (r0, c0):
                    v[(r, c)] = ("C", grid[r][c], True, (r1 - r0 + 1, c1 - c0 + 1), None, None)
                else:
                    v[(r, c)] = ("M", None, False, None, (r0, c0, r1, c1), a1_range((r0, c0, r1, c1)))
            else:
                v[(r, c)] = ("C", grid[r][c], False, (1, 1), None, None)
    return v, sorted(a1_range(x) for x in rects), (len(grid), len(grid[0]))


def first_diff(a, b):
    if a[2] != b[2]:
        return f"dims {a[2]} vs {b[2]}"
    if a[1] != b[1]:
        return f"merge_ranges {a[1]} vs {b[1]}"
    for k in sorted(b[0]):
        if a[0].get(k) != b[0][k]:
            return f"cell {k}: {a[0].get(k)} vs {b[0][k]}"
    return "?"


class Spec:
    def __init__(self, pairs_at_root=True, values=("W",), max_rects=3, writes=True, singles=True):
        self.pairs_at_root = pairs_at_root
        self.max_rects = max_rects
        self.writes = writes  # False: structural events only (used with rectangle pairs on taller/wider tables)
        self.singles = singles

    def initial(self, init_id):
        """init_id = 'RxC' or 'RxC+saved:r0,c0,r1,c1' (one rectangle merged, then the open document saved once and kept)."""
        base, _, extra = init_id.partition("+saved:")
        nr, nc = map(int, base.split("x"))
        st = State()
        st.doc = Document(num_rows=nr, num_cols=nc, num_header_rows=0, num_header_cols=0)
        t = st.doc.sheets[0].tables[0]
        st.grid = [[f"{r}{c}" for c in range(nc)] for r in range(nr)]
        for r in range(nr):
            for c in range(nc):
                t.write(r, c, st.grid[r][c])
        st.rects = []
        st.mode = "exact"  # "exact" | "consistency" (statement does not fix the outcome) | "tainted" (known defect class)
        st.reopened = 0
        st.saved = 0
        st.steps = 0
        if extra:
            rect = [int(x) for x in extra.split(",")]
            t.merge_cells(a1_range(rect))
            self._apply_merge(st, rect)
            p = _tmp()
            st.doc.save(p)
            os.unlink(p)
            st.saved = 1
        return st

    def enabled(self, st, depth_left):
        if st.mode in ("tainted", "placeholder-written"):
            return []  # every continuation is in the same known-finding class; nothing further is decidable
        nr, nc = len(st.grid), len(st.grid[0])
        evs = []
        known = list(st.rects)
        if st.mode == "consistency":
            # after a cut-through edit the model no longer knows the rectangle set (the statement does not fix it):
            # legal further merges are those disjoint from the rectangles the implementation itself reports
            t = st.doc.sheets[0].tables[0]
            known = []
            for r in range(t.num_rows):
                for c in range(t.num_cols):
                    cell = t.cell(r, c)
                    if cell.is_merged and cell.size:
                        known.append((r, c, r + cell.size[0] - 1, c + cell.size[1] - 1))
        if len(known) < self.max_rects and nr * nc <= 25:
            free = [x for x in all_rects(nr, nc) if all(disjoint(x, y) for y in known)]
            if self.singles:
                for x in free:
                    evs.append(["merge", list(x)])
            if self.pairs_at_root and not known and (self.singles or st.steps == 0):
                for i, x in enumerate(free):
                    for y in free[i + 1 :]:
                        if disjoint(x, y):
                            evs.append(["merge2", list(x), list(y)])
        if not self.singles and not st.rects:
            return evs  # pairs-structural: the pair comes first, structural edits follow
        if self.writes:
            for r in range(nr):
                for c in range(nc):
                    evs.append(["write", r, c])
        if nr < 6:
            for i in list(range(nr)) + [None]:
                evs.append(["add_row", i])
        if nc < 6:
            for i in list(range(nc)) + [None]:
                evs.append(["add_col", i])
        if nr > 1:
            for i in range(nr):
                evs.append(["del_row", i])
        if nc > 1:
            for i in range(nc):
                evs.append(["del_col", i])
        if st.reopened < 1:
            evs.append(["reopen"])
        if st.saved < 1:
            evs.append(["save"])  # the same open document keeps being edited after a save
        return evs

    def _apply_merge(self, st, rect):
        r0, c0, r1, c1 = rect
        st.rects.append(tuple(rect))
        for r in range(r0, r1 + 1):
            for c in range(c0, c1 + 1):
                if (r, c) != (r0, c0):
                    st.grid[r][c] = None

    def _shift(self, st, axis, at, delta):
        """Shift rectangles for an insertion (delta=+1 at index `at`) or deletion (delta=-1 of index `at`)."""
        lo, hi = (0, 2) if axis == "row" else (1, 3)
        out = []
        touched = False
        for rc in st.rects:
            rc = list(rc)
            if delta > 0:
                if rc[lo] >= at:
                    rc[lo] += 1
                    rc[hi] += 1
                    touched = True  # index at or before the rectangle
                elif rc[hi] >= at:
                    touched = True
                    rc = None  # cut through: not defined by the statement
            else:
                if rc[lo] > at:
                    rc[lo] -= 1
                    rc[hi] -= 1
                    touched = True
                elif rc[hi] >= at:
                    touched = True
                    rc = None
            out.append(tuple(rc) if rc else None)
        return out, touched

    def apply(self, st, ev):
        t = st.doc.sheets[0].tables[0]
        kind = ev[0]
        fails = []
        st.steps += 1
        try:
            if kind == "merge":
                t.merge_cells(a1_range(ev[1]))
                self._apply_merge(st, ev[1])
            elif kind == "merge2":
                t.merge_cells([a1_range(ev[1]), a1_range(ev[2])])
                self._apply_merge(st, ev[1])
                self._apply_merge(st, ev[2])
            elif kind == "write":
                _, r, c = ev
                # a placeholder by the model, or (when the model no longer knows the rectangles) by what the table reports
                reported_placeholder = st.mode == "consistency" and isinstance(t.cell(r, c), MergedCell)
                t.write(r, c, "W")
                own = [x for x in st.rects if x[0] <= r <= x[2] and x[1] <= c <= x[3]]
                if reported_placeholder or (own and (r, c) != (own[0][0], own[0][1])):
                    # writing into a placeholder: the statement does not say what becomes of the rectangle, only that
                    # the open document and the saved file show the same, self-consistent picture (known finding class)
                    st.mode = "placeholder-written"
                    st.grid[r][c] = "W"
                else:
                    st.grid[r][c] = "W"
            elif kind in ("add_row", "add_col", "del_row", "del_col"):
                axis = kind[4:]
                i = ev[1]
                nr, nc = len(st.grid), len(st.grid[0])
                if kind == "add_row":
                    t.add_row(1, i)
                    at = nr if i is None else i
                    st.grid[at:at] = [[None] * nc]
                    delta = 1
                elif kind == "add_col":
                    t.add_column(1, i)
                    at = nc if i is None else i
                    for row in st.grid:
                        row[at:at] = [None]
                    delta = 1
                elif kind == "del_row":
                    t.delete_row(1, i)
                    at = i
                    del st.grid[at]
                    delta = -1
                else:
                    t.delete_column(1, i)
                    at = i
                    for row in st.grid:
                        del row[at]
                    delta = -1
                new, touched = self._shift(st, axis, at, delta)
                if TAINT_ON_SHIFT and touched:
                    st.mode = "tainted"
                if None in new:
                    if st.mode == "exact":
                        st.mode = "consistency"
                    new = [x for x in new if x is not None]
                st.rects = new
            elif kind == "save":
                p = _tmp()
                st.doc.save(p)
                os.unlink(p)
                st.saved += 1
            elif kind == "reopen":
                p = _tmp()
                st.doc.save(p)
                st.doc = Document(p)
                os.unlink(p)
                st.reopened += 1
                t = st.doc.sheets[0].tables[0]
        except Exception as e:  # noqa: BLE001
            fails.append((self._ident(st, kind, f"raised-{type(e).__name__}", "live"), f"{ev}: raised {type(e).__name__}: {e}"))
            return fails, "exception"
        t = st.doc.sheets[0].tables[0]
        try:
            live = view(t)
        except Exception as e:  # noqa: BLE001
            fails.append((self._ident(st, kind, f"view-raised-{type(e).__name__}", "live"), f"after {ev}: reading the table raised {type(e).__name__}: {e}"))
            return fails, "exception"
        if st.mode == "exact":
            mv = model_view(st.grid, st.rects)
            if live != mv:
                fails.append((self._ident(st, kind, "live-differs-from-model", "live"), f"after {ev}: live {first_diff(live, mv)} (implementation vs reference)"))
        else:
            fails += self._self_consistent(st, live, kind, "live")
        return fails, st.mode

    def _ident(self, st, mech, cls, viewname):
        return {"mechanism": mech, "class": cls, "view": viewname, "mode": st.mode}

    def _self_consistent(self, st, v, mech, viewname):
        """Weaker oracle where the statement does not fix the outcome: the picture must still be a
        coherent set of rectangles (placeholders name a rectangle whose anchor says it is merged with
        that size; merge_ranges is exactly the set of anchors' rectangles)."""
        fails = []
        cells, ranges, dims = v
        anchors = {}
        for (r, c), (k, _val, merged, size, rect, _mr) in cells.items():
            if merged:
                anchors[(r, c)] = (r, c, r + size[0] - 1, c + size[1] - 1)
        want_ranges = sorted(a1_range(x) for x in anchors.values())
        if sorted(ranges) != want_ranges:
            fails.append((self._ident(st, mech, "merge_ranges-vs-anchors", viewname), f"{viewname}: merge_ranges {ranges} but anchors give {want_ranges}"))
        for (r, c), (k, val, merged, size, rect, _mr) in cells.items():
            if k == "M":
                if val is not None:
                    fails.append((self._ident(st, mech, "placeholder-has-value", viewname), f"{viewname}: placeholder {(r, c)} has value {val!r}"))
                if rect is None or anchors.get((rect[0], rect[1])) != tuple(rect) or not (rect[0] <= r <= rect[2] and rect[1] <= c <= rect[3]):
                    fails.append((self._ident(st, mech, "placeholder-rect-incoherent", viewname), f"{viewname}: placeholder {(r, c)} names rect {rect}, anchors {sorted(anchors.values())}"))
                    break
        for rc in anchors.values():
            if rc[2] >= dims[0] or rc[3] >= dims[1]:
                fails.append((self._ident(st, mech, "rect-outside-table", viewname), f"{viewname}: rectangle {rc} exceeds table {dims}"))
        return fails

    def probe(self, st):
        fails = []
        t = st.doc.sheets[0].tables[0]
        p = _tmp()
        try:
            live0 = view(t)
            st.doc.save(p)
            live = view(t)
            if live != live0:
                fails.append((self._ident(st, "save", "save-changed-live-view", "live"), f"saving changed the open document: {first_diff(live, live0)}"))
            t2 = Document(p).sheets[0].tables[0]
            rel = view(t2)
            if st.mode == "exact":
                mv = model_view(st.grid, st.rects)
                if rel != mv:
                    fails.append((self._ident(st, "save-reopen", "reload-differs-from-model", "file"), f"reloaded file: {first_diff(rel, mv)} (file vs reference)"))
            else:
                if rel != live:
                    fails.append((self._ident(st, "save-reopen", "reload-differs-from-live", "file"), f"reloaded file differs from the open document: {first_diff(rel, live)}"))
                fails += self._self_consistent(st, rel, "save-reopen", "file")
        except Exception as e:  # noqa: BLE001
            fails.append((self._ident(st, "save-reopen", f"raised-{type(e).__name__}", "file"), f"save/reopen raised {type(e).__name__}: {e}"))
        if os.path.exists(p):
            os.unlink(p)
        return fails

    def key(self, st):
        m = st.doc._model
        tid = st.doc.sheets[0].tables[0]._table_id
        refs = sorted((k, type(v).__name__, getattr(v, "size", None), getattr(v, "rect", None)) for k, v in m._merge_cells[tid]._references.items() if v) if tid in m._merge_cells else None
        t = st.doc.sheets[0].tables[0]
        classes = [[type(c).__name__ for c in row] for row in t._data]
        hidden = explore.generic_fingerprint(t, ("_data", "_model", "_cache"))
        return repr((st.grid, sorted(st.rects), st.mode, st.reopened, st.saved, refs, classes, hidden))


# The merge map of the library is not shifted by structural edits (known finding C12-merge-map-not-shifted);
# histories containing a structural edit at an index <= the last row/column of an existing rectangle are
# classed "tainted". Set to False once the library shifts its merge map.
TAINT_ON_SHIFT = False

SPECS = {"full": Spec(pairs_at_root=True), "nopairs": Spec(pairs_at_root=False),
         # every disjoint PAIR of rectangles followed by every insertion/deletion (two ranges that both move, touch or stack)
         "pairs-structural": Spec(pairs_at_root=True, writes=False, singles=False)}


def plan(tier):
    if tier == "quick":
        return [("full", ["3x3"], 1, True), ("nopairs", ["3x3"], 2, True), ("nopairs", ["3x3+saved:1,1,2,2", "3x3+saved:0,1,0,2"], 1, True), ("nopairs", ["2x5", "4x4"], 1, True),
                ("pairs-structural", ["5x2"], 2, True)]
    return [("full", ["3x3", "2x5"], 2, True), ("nopairs", ["4x4"], 2, True), ("nopairs", ["3x3"], 3, True),
            ("nopairs", ["3x3+saved:1,1,2,2", "3x3+saved:0,1,0,2", "4x4+saved:2,2,3,3"], 2, True),
            ("nopairs", ["4x4"], 3, False), ("nopairs", ["2x2"], 4, True), ("pairs-structural", ["5x2", "2x5", "5x3"], 2, True)]


def main():
    args = parse_args()
    if args.replay:
        def rp(rep, payload):
            spec = SPECS[rep.get("spec", "full")]
            fails = explore.replay_history(spec, rep["init"], rep["history"], probe=rep.get("probe", False))
            want = payload["ident"]
            hit = [d for i, d in fails if i == want]
            return bool(hit or fails), f"history {rep['init']} {rep['history']}: " + ("; ".join((hit or [d for _, d in fails])[:3]) or "agrees with the reference")
        return run_replay(args, rp)
    run = Run(PID, "model_checking", args)
    for i, (sname, inits, depth, probe) in enumerate(plan(args.tier)):
        nb = len(run.failures)
        before = dict(run.counters)
        explore.explore(f"c12-{sname}", SPECS[sname], inits, depth, run, jobs=args.jobs, probe=probe, tag=f"#{i}@d{depth}")
        for rec in list(run.failures.values())[nb:]:
            if isinstance(rec["replay"], dict):
                rec["replay"].setdefault("spec", sname)
        run.extra.setdefault("plan", []).append({"spec": sname, "inits": inits, "depth": depth, "probe_every_state": probe,
                                                  "transitions": run.counters["transitions"] - before.get("transitions", 0),
                                                  "states": run.counters["states"] - before.get("states", 0)})
    run.floor("merge, merge2, write, add_row, add_col, del_row, del_col and reopen events all executed",
              {"merge", "merge2", "write", "add_row", "add_col", "del_row", "del_col", "reopen", "save"} <= {k.split(":")[0] for k in run.outcomes})
    run.floor(">= 1000 transitions and >= 300 save/reopen probes", run.counters["transitions"] >= 1000 and run.counters["probes"] >= 300)
    cov = {"states": run.counters["states"], "transitions": run.counters["transitions"], "traces_validated_against_impl": run.counters["transitions"],
           "explanation": "every transition executes the real Table API; the oracle is exact (value grid + rectangle set) while the statement fixes the outcome and "
                          "self-consistency + live/reloaded agreement after edits that cut through a rectangle or write into a placeholder"}
    return run.finish(cov)


if __name__ == "__main__":
    sys.exit(main())
