"""C07 - every saved package is structurally sound and referentially closed.

The invariant (independent validator mc.validate, which never uses the library's reader) is evaluated
on every package saved from: a plain re-save of every readable fixture; the API-generated family and
its second generation (save -> reopen -> edit -> save); the tile-boundary shape family; and every
distinct state reached by the C03 / C12 / C19 explorers up to the tier's depth (new tables, sheets,
merges, structural edits, renames).

Besides resolution of references, identifiers, metadata listing and tile accounting, the validator
demands that the archive header of every object the library created or rewrote lists (object_references)
every reference that object holds - what copy_object_to_iwa_file / create_iwa_segment are there to
maintain; objects carried over unchanged from the source document are exempt.
"""
from __future__ import annotations

import os
import sys

import numbers_parser
from mc import explore, gen_docs, validate
from mc.evidence import FIXTURES, Part, Run, parse_args, run_replay
from mc.pool import Scratch, pmap
from mc.snapshot import open_doc, readable_fixtures, save_doc

from checks import c03, c12, c19

PID = "C07"
TEMPLATE = os.path.join(os.path.dirname(numbers_parser.__file__), "data", "empty.numbers")
_n = [0]
_SRC = {}


def _tmp(tag):
    _n[0] += 1
    return Scratch.path(f"c07-{os.getpid()}-{_n[0]}-{tag}.numbers")


def source(path):
    if path not in _SRC:
        _SRC[path] = validate.source_info(path)
    return _SRC[path]


_SRC_KEYS = {}


def source_missing_keys(path):
    """Record keys that are already absent from their data list in the SOURCE document (some fixtures keep
    list entries in segment objects the validator does not follow): like references, only keys the save
    newly leaves dangling are the library's doing."""
    if path not in _SRC_KEYS:
        try:
            _SRC_KEYS[path] = {d for c, d in validate.validate(path, None) if c == "record-key-missing-from-list"}
        except Exception:  # noqa: BLE001
            _SRC_KEYS[path] = set()
    return _SRC_KEYS[path]


def check_package(path, src_path, what):
    """-> list of (ident, detail)"""
    fails = []
    su, sm = source(src_path)
    try:
        probs = validate.validate(path, su, sm)
    except Exception as e:  # noqa: BLE001
        return [({"mechanism": "validator", "class": f"package-unreadable-{type(e).__name__}"}, f"{what}: independent reader failed: {type(e).__name__}: {e}")]
    inherited_keys = source_missing_keys(src_path) if any(c == "record-key-missing-from-list" for c, _ in probs) else set()
    for cls, detail in probs:
        if cls == "record-key-missing-from-list" and detail in inherited_keys:
            continue
        fails.append(({"mechanism": "package-invariant", "class": cls}, f"{what}: {detail}"))
    try:
        open_doc(path)
    except Exception as e:  # noqa: BLE001
        fails.append(({"mechanism": "reopen", "class": f"raised-{type(e).__name__}"}, f"{what}: the library cannot reopen its own package: {type(e).__name__}: {e}"))
    return fails


def shape_doc(nr, nc):
    d = numbers_parser.Document(num_rows=nr, num_cols=nc, num_header_rows=min(1, nr - 1), num_header_cols=min(1, nc - 1))
    t = d.sheets[0].tables[0]
    for r in sorted({0, 254, 255, 256, 511, 512, nr - 1}):
        for c in sorted({0, 254, 255, 256, 999, nc - 1}):
            if r < nr and c < nc:
                t.write(r, c, f"{r}:{c}")
    return d


def eval_case(case):
    kind = case[0]
    fails = []
    tmp = []
    npk = 0
    try:
        if kind == "resave":
            path = case[1]
            d, _ = open_doc(path)
            p = _tmp("rs")
            tmp.append(p)
            save_doc(d, p)
            fails += check_package(p, path, f"re-save of {os.path.basename(path)}")
            npk += 1
            if len(case) > 2 and case[2] == "package":
                pp = _tmp("pkgdir")
                tmp.append(pp)
                d.save(pp, package=True)
                fails += check_package(pp, path, f"package-folder save of {os.path.basename(path)}")
                npk += 1
        elif kind == "gen":
            name = case[1]
            src = os.path.join(FIXTURES, "test-1.numbers") if name == "fixture_edit" else TEMPLATE
            d = gen_docs.build(name)
            p = _tmp("gen")
            tmp.append(p)
            save_doc(d, p)
            fails += check_package(p, src, f"generated document {name}")
            npk += 1
            # second generation: reopen, edit, add objects, save again
            d2, _ = open_doc(p)
            t = d2.sheets[0].tables[0]
            t.write(0, 0, "gen2")
            t.add_row(1)
            d2.sheets[-1].add_table("Gen2 table", num_rows=2, num_cols=2)
            st = d2.add_style(name="Gen2 style", italic=True)
            d2.sheets[-1].tables[-1].write(1, 1, 2.5, style=st)
            p2 = _tmp("gen2")
            tmp.append(p2)
            save_doc(d2, p2)
            fails += check_package(p2, p, f"second generation of {name}")
            npk += 1
            # and a third save of the same live object (save is repeatable)
            p3 = _tmp("gen3")
            tmp.append(p3)
            save_doc(d2, p3)
            fails += check_package(p3, p, f"repeated save of second generation of {name}")
            npk += 1
        elif kind == "lagging":
            # source whose recorded high-water mark lags behind its real highest identifier (rewritten with mc.pkg)
            from mc import pkg

            path = case[1]
            members = pkg.read_members(path)
            ids = sorted(pkg.decode_objects(members, strict=False))
            low = ids[len(ids) // 2]

            def lower(name, m, ident):
                if name == "TSP.PackageMetadata":
                    m.last_object_identifier = low
                    return True
                return False

            psrc = _tmp("lagsrc")
            tmp.append(psrc)
            pkg.write_members(psrc, pkg.transform(members, lower))
            d, _ = open_doc(psrc)
            t = d.sheets[0].tables[0]
            t.write(0, 0, "edited")
            if t.num_rows >= 2 and t.num_cols >= 2 and not t.merge_ranges:
                t.merge_cells("A1:B1")
            d.sheets[0].add_table("Lag table", num_rows=2, num_cols=2)
            st = d.add_style(name="Lag style", bold=True)
            d.sheets[0].tables[-1].write(0, 0, "x", style=st)
            p = _tmp("lag")
            tmp.append(p)
            save_doc(d, p)
            fails += check_package(p, psrc, f"document with lagging object counter ({os.path.basename(path)})")
            npk += 1
        elif kind == "fixture-edit":
            # every object-creating API call applied to a LOADED document (archive names of Numbers-written
            # files carry identifier suffixes, e.g. DocumentStylesheet-<n>.iwa), then save
            from numbers_parser import RGB, Border

            path = case[1]
            d, _ = open_doc(path)
            tables = [t for s in d.sheets for t in s.tables if not d._model.is_a_pivot_table(t._table_id)]
            t = tables[0]
            st = d.add_style(name="FE style", bold=True, bg_color=RGB(10, 20, 30))
            t.write(0, 0, "edited", style=st)
            t.set_cell_border(0, 0, "top", Border(2.0, RGB(1, 2, 3), "solid"))
            if t.num_rows >= 2 and t.num_cols >= 1:
                t.write(1, 0, 1.5)
                t.set_cell_formatting(1, 0, "number", decimal_places=2)
                cf = d.add_custom_format(name="FE format", type="number", num_decimals=1)
                t.set_cell_formatting(1, 0, "custom", format=cf)
            if t.num_rows >= 3:
                t.write(2, 0, "Dog")
                t.set_cell_formatting(2, 0, "popup", popup_values=["Cat", "Dog"])
            t.add_row(1)
            t.caption = "FE caption"
            t.caption_enabled = True
            d.sheets[0].add_table("FE table", num_rows=2, num_cols=2)
            d.sheets[0].tables[-1].write(0, 0, "Cat")
            d.sheets[0].tables[-1].set_cell_formatting(0, 0, "popup", popup_values=["Cat", "Dog"])
            d.add_sheet("FE sheet", "FE table 2", num_rows=2, num_cols=2)
            d.sheets[-1].tables[0].write(1, 1, 2.5, style=st)
            p = _tmp("fe")
            tmp.append(p)
            save_doc(d, p)
            fails += check_package(p, path, f"object-creating edits on loaded {os.path.basename(path)}")
            npk += 1
        elif kind == "shared":
            # two documents open in the same process that are given the SAME Style / BackgroundImage / Border objects
            from numbers_parser import RGB, BackgroundImage, Border, Document, Style

            with open(os.path.join(FIXTURES, "cat.jpg"), "rb") as f:
                img = BackgroundImage(f.read(), "cat.jpg")
            border = Border(2.0, RGB(1, 2, 3), "solid")
            docs = [Document(num_rows=3, num_cols=3), Document(num_rows=3, num_cols=3)]
            order = case[1]
            for i in ([0, 1] if order == "ab" else [1, 0]):
                d = docs[i]
                st = d.add_style(name="Shared", bg_image=img, bold=True)
                t = d.sheets[0].tables[0]
                t.write(1, 1, "img", style=st)
                t.set_cell_border(1, 1, "top", border)
                cf = d.add_custom_format(name="CF", type="number", num_decimals=1)
                t.write(2, 2, 1.25)
                t.set_cell_formatting(2, 2, "custom", format=cf)
            for i, d in enumerate(docs):
                p = _tmp(f"shared{i}")
                tmp.append(p)
                save_doc(d, p)
                fails += check_package(p, TEMPLATE, f"document {i} of two sharing style/image/border objects (order {order})")
                npk += 1
                d2, _ = open_doc(p)
                try:
                    bi = d2.sheets[0].tables[0].cell(1, 1).style.bg_image
                    if bi is None or bi.filename != "cat.jpg":
                        fails.append(({"mechanism": "reopen", "class": "shared-image-lost"}, f"document {i} (order {order}): background image reads {bi!r}"))
                except Exception as e:  # noqa: BLE001
                    fails.append(({"mechanism": "reopen", "class": f"shared-image-raised-{type(e).__name__}"}, f"document {i} (order {order}): reading the background image raised {type(e).__name__}"))
        elif kind == "resize":
            # the same open document saved, resized across a tile boundary, and saved again
            _, nr, nc, axis, delta = case
            d = shape_doc(nr, nc)
            p = _tmp("rz1")
            tmp.append(p)
            save_doc(d, p)
            t = d.sheets[0].tables[0]
            if delta < 0:
                (t.delete_row if axis == "row" else t.delete_column)(-delta)
            else:
                (t.add_row if axis == "row" else t.add_column)(delta)
            t.write(0, 0, "resized")
            p2 = _tmp("rz2")
            tmp.append(p2)
            save_doc(d, p2)
            fails += check_package(p2, TEMPLATE, f"{nr}x{nc} saved, {axis} {delta:+d}, saved again")
            npk += 1
            d2, _ = open_doc(p2)
            t2 = d2.sheets[0].tables[0]
            want = (nr + delta, nc) if axis == "row" else (nr, nc + delta)
            if (t2.num_rows, t2.num_cols) != want:
                fails.append(({"mechanism": "reopen", "class": "resize-dims"}, f"{case}: reopened as {t2.num_rows}x{t2.num_cols}, expected {want}"))
        elif kind == "shape":
            _, nr, nc = case
            d = shape_doc(nr, nc)
            p = _tmp("shape")
            tmp.append(p)
            save_doc(d, p)
            fails += check_package(p, TEMPLATE, f"shape {nr}x{nc}")
            npk += 1
            d2, _ = open_doc(p)
            t2 = d2.sheets[0].tables[0]
            if (t2.num_rows, t2.num_cols) != (nr, nc) or t2.cell(nr - 1, nc - 1).value != f"{nr - 1}:{nc - 1}":
                fails.append(({"mechanism": "reopen", "class": "shape-content"}, f"shape {nr}x{nc}: reopened as {t2.num_rows}x{t2.num_cols}, last cell {t2.cell(t2.num_rows - 1, t2.num_cols - 1).value!r}"))
    except Exception as e:  # noqa: BLE001
        fails.append(({"mechanism": kind, "class": f"raised-{type(e).__name__}"}, f"{case}: {type(e).__name__}: {e}"))
    finally:
        import shutil

        for p in tmp:
            if os.path.isdir(p):
                shutil.rmtree(p, ignore_errors=True)
            elif os.path.exists(p):
                os.unlink(p)
    return fails, npk


def work(case):
    part = Part()
    fails, npk = eval_case(case)
    part.count("evaluations", npk)
    part.count(f"packages_{case[0]}", npk)
    part.outcome(f"{case[0]}:{'ok' if not fails else 'problems'}")
    for ident, detail in fails:
        part.fail(ident, detail, case)
    part.sample({"case": [os.path.basename(str(x)) if isinstance(x, str) else x for x in case], "packages": npk})
    return part.dump()


class ValSpec:
    """Wraps another explorer Spec: same states and transitions, but the probe validates the package
    saved from each distinct state (the wrapped check judges the transitions themselves)."""

    def __init__(self, inner, docs_of, src=TEMPLATE):
        self.inner = inner
        self.docs_of = docs_of
        self.src = src

    def initial(self, init_id):
        return self.inner.initial(init_id)

    def enabled(self, st, depth_left):
        return self.inner.enabled(st, depth_left)

    def apply(self, st, ev):
        _fails, outcome = self.inner.apply(st, ev)
        return [], outcome

    def key(self, st):
        return self.inner.key(st)

    def probe(self, st):
        fails = []
        for d in self.docs_of(st):
            p = _tmp("state")
            try:
                d.save(p)
                fails += check_package(p, self.src, "explorer state")
            except Exception as e:  # noqa: BLE001
                fails.append(({"mechanism": "save", "class": f"raised-{type(e).__name__}"}, f"save raised {type(e).__name__}: {e}"))
            if os.path.exists(p):
                os.unlink(p)
        return fails


VSPECS = {
    "c03": ValSpec(c03.SPECS["full"], lambda st: st.docs),
    "c03r": ValSpec(c03.SPECS["reduced"], lambda st: st.docs),
    "c12": ValSpec(c12.SPECS["nopairs"], lambda st: [st.doc]),
    "c19": ValSpec(c19.SPECS["wide"], lambda st: [st.doc]),
}


def plans(tier):
    if tier == "quick":
        return [("c03", ["fresh:2x2"], 1), ("c12", ["3x3"], 1), ("c19", ["fresh:"], 1)]
    return [("c03", ["fresh:2x2"], 2), ("c03r", ["two:2x2", "tile:256x2"], 1), ("c12", ["3x3"], 2), ("c19", ["fresh:"], 2)]


def cases(tier):
    cs = []
    fx = readable_fixtures()
    for p, n in fx:
        if tier == "quick" and n > 10000:
            continue
        cs.append(["resave", p] + (["package"] if n < 200 else []))
    for name in gen_docs.names():
        cs.append(["gen", name])
    for p in [TEMPLATE] + [os.path.join(FIXTURES, f) for f in ("test-1.numbers", "issue-3.numbers", "test-save-1.numbers", "issue-77.numbers")]:
        cs.append(["lagging", p])
    for nr, nc, axis, delta in [(300, 2, "row", -100), (257, 2, "row", -1), (257, 2, "row", -2), (256, 2, "row", 1), (255, 2, "row", 2), (513, 2, "row", -300),
                                (2, 300, "col", -100), (2, 257, "col", -2), (2, 255, "col", 2)]:
        cs.append(["resize", nr, nc, axis, delta])
    cs += [["shared", "ab"], ["shared", "ba"]]
    for p, n in fx:
        if n <= (400 if tier == "quick" else 4000) and os.path.basename(p) != "empty.numbers":
            cs.append(["fixture-edit", p])
    rows = [1, 255, 256, 257, 512, 513]
    cols = [1, 256, 257, 1000]
    for nr in rows:
        for nc in cols:
            if tier == "quick" and nr * nc > 257 * 257:
                continue
            cs.append(["shape", nr, nc])
    return cs


def main():
    args = parse_args()
    if args.replay:
        def rp(rep, payload):
            if isinstance(rep, dict):  # explorer state
                spec = VSPECS[rep.get("spec", "c03")]
                st = spec.initial(rep["init"])
                for ev in rep["history"]:
                    spec.apply(st, ev)
                fails = spec.probe(st)
            else:
                fails, _ = eval_case(rep)
            return bool(fails), f"{rep}: " + ("; ".join(d for _, d in fails[:4]) or "package is sound")
        return run_replay(args, rp)
    run = Run(PID, "exploration", args)
    cs = cases(args.tier)
    # large shapes first
    cs.sort(key=lambda c: -(c[1] * c[2]) if c[0] == "shape" else 0)
    for res in pmap(work, cs, args.jobs):
        run.merge(res)
    for sname, inits, depth in plans(args.tier):
        nb = len(run.failures)
        explore.explore(f"c07-{sname}", VSPECS[sname], inits, depth, run, jobs=args.jobs, probe=True, tag=f"@d{depth}")
        for rec in list(run.failures.values())[nb:]:
            if isinstance(rec["replay"], dict):
                rec["replay"].setdefault("spec", sname)
    run.count("evaluations", run.counters["probes"])
    run.floor(">= 60 fixture re-saves, >= 14 generated documents x 3 saves, >= 10 shapes", run.counters["packages_resave"] >= 60 and run.counters["packages_gen"] >= 42 and run.counters["packages_shape"] >= 10)
    run.floor(">= 100 explorer states validated", run.counters["probes"] >= 100)
    run.assume("acceptance by Apple Numbers itself cannot be checked here; object kinds the validator does not know (charts...) are only checked for reference closure")
    run.assume("members carried over byte-for-byte from the source document are not the library's work and are exempt from archive-level checks")
    cov = {
        "distinct_nontrivial": run.counters["evaluations"],
        "rule": "one evaluation = one package written by Document.save and validated by the independent reader; sources: every readable fixture (plain re-save, small ones also as package folder), "
                "14 generated documents x (first save, second generation, repeated save), tile-boundary shapes, every distinct explorer state up to the tier depth; all non-trivial (each contains >= 1 table)",
        "explorer_states": run.counters["states"],
        "explorer_transitions": run.counters["transitions"],
        "exhaustive": True,
    }
    return run.finish(cov)


if __name__ == "__main__":
    sys.exit(main())
