"""C04 - cell storage records decode to exactly what was encoded, field by field.

Two layers, both complete enumerations (depth-1 state spaces), both run against the real code:

(i)  real `Cell._to_buffer` -> real `Cell._from_storage` (stub model) for 9 storable kinds x ALL 2^12
     subsets of the optional reference attributes (pairwise distinct 4-byte sentinels whose bytes are
     pairwise distinct too, so a shifted or misaligned slot is visible) x payload representatives.
     Oracle: same class/kind, same payload, every attribute exactly what was set (None otherwise),
     record length = 12 + payload + 4*popcount, the emitted bytes equal the record the independent
     encoder produces for the same content (decimal128 compared numerically), the format bits of
     extras byte 6 as tabulated in docs/Numbers.md, and re-encoding the decoded cell reproduces the
     record.
(ii) independent encoder (mc/ref_cellrecord.py, written from the published layout) -> real
     `_from_storage` for ALL 2^21 subsets of the 21 documented flag bits; every field carries a
     sentinel derived from its own bit. Oracle: each interpreted field (d128, double, seconds and
     the 13 ids) holds the value of its own bit iff that bit is set - whichever uninterpreted bits
     (0x80, 0x100, 0x800, 0x80000, 0x100000) are set; class and value follow the type byte.
     quick: complete 2^21 for one kind + complete 2^18 (bits 3..20) for each other kind;
     thorough: complete 2^21 for all 9 decodable kinds x 3 payload sets.

Boundary ids (both tiers): ids 0, -1, 2^31-1, -2^31 are ordinary ids ("present" = `is not None`).
(i) every kind x every subset x every member in turn holding id 0 (the other boundary ids: lowest
and highest member of every subset; thorough: every member), same oracle; (ii) each of the 13
interpreted 4-byte fields holding each boundary id x all 2^15 subsets of the other interpreted bits
(thorough: all kinds, plus id 0 x all 2^20 subsets of all other bits): it must read back as that id.

VERIF_SEED only rotates which representative stands for a payload class and which kind gets the
complete 2^21 sweep in the quick tier.
"""
from __future__ import annotations

import collections
import hashlib
import json
import struct
import sys
from datetime import datetime, timedelta

from mc import ref_cellrecord as ref
from mc.evidence import Part, Run, parse_args, run_replay
from mc.pool import pmap, shards

from numbers_parser.cell import (
    BoolCell,
    Cell,
    DateCell,
    DurationCell,
    EmptyCell,
    ErrorCell,
    NumberCell,
    RichTextCell,
    TextCell,
)
from numbers_parser.constants import CellType

PID = "C04"

# ---------------------------------------------------------------------------------------------
# shared vocabulary
# ---------------------------------------------------------------------------------------------
# the 12 optional reference attributes of the statement, with the flag bit the layout gives them
OPT = [
    ("_rich_id", 4), ("_cell_style_id", 5), ("_text_style_id", 6), ("_formula_id", 9), ("_control_id", 10),
    ("_suggest_id", 12), ("_num_format_id", 13), ("_currency_format_id", 14), ("_date_format_id", 15),
    ("_duration_format_id", 16), ("_text_format_id", 17), ("_bool_format_id", 18),
]
# everything the decoder interprets: (bit, attribute on the decoded cell)
OBS = [(0, "_d128"), (1, "_double"), (2, "_seconds"), (3, "_string_id")] + [(b, a) for a, b in OPT]
OBS_BITS = [b for b, _ in OBS]
INTERP_MASK = sum(1 << b for b in OBS_BITS)
UNINTERPRETED = [7, 8, 11, 19, 20]
R21 = range(ref.NBITS)


def sent(bit: int) -> int:
    """Sentinel id of a flag bit: four bytes that occur in no other sentinel (positive as '<i')."""
    return int.from_bytes(bytes([0xA0 + bit, 0x40 + bit, 0xC0 + bit, 0x10 + bit]), "little")


ALL_SENTINELS = {sent(b): b for b in R21}
# ids at the edges of the signed 32-bit range: 0 is an ordinary id ("present" means `is not None`)
BOUNDARY_IDS = [0, -1, 0x7FFFFFFF, -0x80000000]
RICH_BASE = [777, 1, 0x7FFFFFF0]  # rich ids of cells whose rich id is mandatory and not the sentinel


def _rich(key):
    return {"text": f"<r:{key}>", "bulleted": False, "bullets": [], "bullet_chars": [], "hyperlinks": []}


class _NoMerges:
    def get(self, _rc):
        return None


class Stub:
    """The only model services `_to_buffer` / `_from_storage` need: a string table (a bijection
    between the registered strings and keys; unknown keys read as '<s:key>'), rich text by key,
    and an empty merge map."""

    def __init__(self, strings):
        self.by_val = {s: 0x6000 + 7 * i for i, s in enumerate(strings)}
        self.by_key = {k: s for s, k in self.by_val.items()}
        self._mc = _NoMerges()

    def table_string(self, _tid, key):
        return self.by_key.get(key, f"<s:{key}>")

    def table_string_key(self, _tid, val):
        return self.by_val[val]

    def table_rich_text(self, _tid, key):
        return _rich(key)

    def merge_cells(self, _tid):
        return self._mc


# ---------------------------------------------------------------------------------------------
# layer (i): payload representatives (classes x representatives), from C01's alphabet
# ---------------------------------------------------------------------------------------------
_NUM = [
    [12, 50, 52, 0, -1, 999_999_999_999_999, 1_000_000],  # integers (12/50/52 drifted before the d128 fix)
    [0.12, 0.1, -2.5, 1234.5, 99.99],  # short decimal fractions
    [1e-290, 1e290, 846400000000.0, -0.0, 1.5e-07],  # extremes
]
_TXT = [
    ["hello", "a", "Zürich"],
    ["", " ", "\t"],
    ["line1\nline2", "\U0001F600 astral", "nul\x00inside", "x" * 10000],
]
_DATE = [
    [datetime(2020, 2, 29, 12, 0, 1), datetime(2001, 1, 1), datetime(2038, 1, 19, 3, 14, 8)],
    [datetime(1900, 1, 1), datetime(1899, 12, 31, 23, 59, 59), datetime(1970, 1, 1), datetime(1582, 10, 15),
     datetime(1, 1, 1), datetime(9999, 12, 31, 23, 59, 59)],
    [datetime(2000, 6, 15, 10, 20, 30, 999999), datetime(1999, 12, 31, 23, 59, 59, 500000), datetime(2100, 1, 1, 0, 0, 0, 1)],
]
_DUR = [
    [timedelta(0), timedelta(seconds=1), timedelta(days=1)],
    [timedelta(seconds=3661, milliseconds=500), timedelta(microseconds=1), timedelta(milliseconds=1)],
    [timedelta(microseconds=-1), timedelta(days=-1), timedelta(days=36524, seconds=86399, microseconds=999999),
     -timedelta(days=36524, seconds=86399, microseconds=999999)],
]
PAYLOADS_I = {
    "number": _NUM,
    "currency": [c[1:] + c[:1] for c in _NUM],
    "text": _TXT,
    "date": _DATE,
    "bool": [[True], [False]],
    "duration": _DUR,
    "empty": [[None]],
    "rich": [[RICH_BASE[0]], [RICH_BASE[1]], [RICH_BASE[2]]],
    "text+rich": [c[1:] + c[:1] for c in _TXT],
}
KINDS_I = list(PAYLOADS_I)
CLASS_I = {"number": NumberCell, "currency": NumberCell, "text": TextCell, "date": DateCell, "bool": BoolCell,
           "duration": DurationCell, "empty": EmptyCell, "rich": RichTextCell, "text+rich": TextCell}
TYPE_I = {"number": CellType.NUMBER, "currency": CellType.CURRENCY, "text": CellType.TEXT, "date": CellType.DATE,
          "bool": CellType.BOOL, "duration": CellType.DURATION, "empty": CellType.EMPTY, "rich": CellType.RICH_TEXT,
          "text+rich": CellType.TEXT}
TBYTE_I = {"number": "number", "currency": "currency", "text": "text", "date": "date", "bool": "bool",
           "duration": "duration", "empty": "empty", "rich": "rich", "text+rich": "text"}
PAYLOAD_BIT_I = {"number": 0, "currency": 0, "text": 3, "date": 2, "bool": 1, "duration": 1, "empty": None, "rich": None,
                 "text+rich": 3}
PAYLOAD_SIZE = {None: 0, 0: 16, 1: 8, 2: 8, 3: 4}

STUB = Stub([s for cls in _TXT for s in cls])
NMASK = 1 << len(OPT)


def make_cell(kind, payload):
    if kind == "number":
        c = NumberCell(0, 0, payload)
    elif kind == "currency":
        c = NumberCell(0, 0, payload, cell_type=CellType.CURRENCY)
    elif kind in ("text", "text+rich"):
        c = TextCell(0, 0, payload)
    elif kind == "date":
        c = DateCell(0, 0, payload)
    elif kind == "bool":
        c = BoolCell(0, 0, payload)
    elif kind == "duration":
        c = DurationCell(0, 0, payload)
    elif kind == "empty":
        c = EmptyCell(0, 0)
    elif kind == "rich":
        c = RichTextCell(0, 0, _rich(payload))
    else:
        raise ValueError(kind)
    c._model = STUB
    c._table_id = 1
    return c


def want_attrs_i(kind, mask, payload, zi=-1, bv=None):
    """attribute -> id to set, for one subset of the optional attributes; member `zi` of the subset
    (index into OPT) carries the boundary id `bv` instead of its sentinel."""
    want = {}
    for i, (a, bit) in enumerate(OPT):
        if mask >> i & 1:
            want[a] = sent(bit)
    # kinds for which the rich id is part of the kind: it is always present; the subset bit only
    # chooses between two ids (both distinct from every other id of the record)
    if kind == "rich" and "_rich_id" not in want:
        want["_rich_id"] = payload
    if kind == "text+rich":
        want["_rich_id"] = RICH_BASE[1] if mask & 1 else RICH_BASE[0]
    if zi >= 0:
        want[OPT[zi][0]] = bv
    return want


def _same_value(got, want):
    if isinstance(want, bool) or isinstance(got, bool):
        return type(got) is type(want) and got == want
    if isinstance(want, float):
        return isinstance(got, float) and got == want and repr(got) == repr(want)
    if isinstance(want, int):
        return isinstance(got, (int, float)) and got == want
    return type(got) is type(want) and got == want


def _pattern(got, want):
    if isinstance(want, int) and not isinstance(want, bool) and want in BOUNDARY_IDS and got != want:
        return ("lost" if got is None else "garbled") + f":id={want}"
    if want is not None and got is None:
        return "lost"
    if want is None and got is not None:
        return "spurious"
    if got in ALL_SENTINELS or got in RICH_BASE or got in STUB.by_key:
        return "shifted"
    return "garbled"


def _short(v):
    r = repr(v)
    return r if len(r) <= 60 else r[:57] + "..."


def _fmt_id(v):
    if isinstance(v, int) and not isinstance(v, bool):
        s = hex(v)
        if v in ALL_SENTINELS:
            s += f"(=sentinel of bit {ALL_SENTINELS[v]}:{ref.FIELD_NAME[ALL_SENTINELS[v]]})"
        return s
    return _short(v)


def eval_i(kind, mask, cls, rep, zi=-1, bv=None):
    """One (kind, optional-attribute subset, payload) through real encode -> real decode; with
    zi >= 0 the subset member OPT[zi] carries the boundary id bv (0, -1, +-2^31) instead of its sentinel.
    Returns (failures, record-or-None, info)."""
    out = []
    payload = PAYLOADS_I[kind][cls][rep]
    want = want_attrs_i(kind, mask, payload, zi, bv)
    if kind == "rich":
        payload = want["_rich_id"]  # the text of a rich cell is whatever its rich id resolves to
    c = make_cell(kind, payload)
    for a, v in want.items():
        setattr(c, a, v)
    here = f"kind={kind} payload={_short(payload)} attrs={{{', '.join(a[1:-3] + (f'={want[a]}' if want[a] in BOUNDARY_IDS else '') for a in want)}}}"

    def F(mech, pattern, detail):
        out.append(({"layer": "i", "mechanism": mech, "kind": kind, "pattern": pattern}, f"[{here}] {detail}"))

    try:
        buf = c._to_buffer()
    except Exception as e:  # noqa: BLE001
        F("encode", "exception:" + type(e).__name__, f"_to_buffer raised {type(e).__name__}: {e}")
        return out, None, {}
    if buf is None:
        F("encode", "not-stored", "_to_buffer returned None for a storable kind")
        return out, None, {}
    buf = bytes(buf)
    info = {"extras80": bool(len(buf) > 6 and buf[6] & 0x80)}

    # ---- the record itself, against the independent encoder ------------------------------------
    pbit = PAYLOAD_BIT_I[kind]
    flags_want = (0 if pbit is None else 1 << pbit) | sum(1 << bit for a, bit in OPT if a in want)
    n_fields = sum(1 for a, _ in OPT if a in want)
    len_want = 12 + PAYLOAD_SIZE[pbit] + 4 * n_fields
    if len(buf) != len_want or len(buf) % 4:
        F("length", "too-long" if len(buf) > len_want else "too-short" if len(buf) < len_want else "unaligned",
          f"record has {len(buf)} bytes, layout gives 12 + {PAYLOAD_SIZE[pbit]} + 4*{n_fields} = {len_want}")
    flags_got = struct.unpack("<I", buf[8:12])[0] if len(buf) >= 12 else None
    fields = {bit: ref.word(want[a]) for a, bit in OPT if a in want}
    d128_ok = True
    if pbit == 0:
        raw = buf[12:28]
        fields[0] = raw if len(raw) == 16 else bytes(16)
        try:
            stored = float(ref.d128_decode(fields[0]))
        except Exception:  # noqa: BLE001
            stored = None
        d128_ok = stored is not None and _same_value(stored, float(payload))
        if not d128_ok:
            F("encoder-layout", "decimal128", f"decimal128 payload bytes {raw.hex()} read (independently) as {stored!r}, cell value is {payload!r}")
    elif pbit == 1:
        v = float(payload) if kind == "bool" else ref.us_to_seconds(ref.timedelta_to_us(payload))
        fields[1] = struct.pack("<d", v)
    elif pbit == 2:
        fields[2] = struct.pack("<d", ref.us_to_seconds(ref.datetime_to_us(payload)))
    elif pbit == 3:
        fields[3] = ref.word(STUB.by_val[payload])
    model_rec = ref.encode_record(ref.CELL_TYPE[TBYTE_I[kind]], flags_want, fields)
    if buf[:6] + buf[8:] != model_rec[:6] + model_rec[8:]:
        if flags_got != flags_want:
            pat = "flags"
        elif buf[:2] != model_rec[:2]:
            pat = "header"
        else:
            pat = "fields"
        F("encoder-layout", pat,
          f"_to_buffer emitted {buf.hex()} but the published layout gives {model_rec.hex()} (bytes 6-7 not compared)")
    if len(buf) > 6:
        fmt_bits = buf[6] & 0x2F
        fmt_want = model_rec[6] & 0x2F
        if fmt_bits != fmt_want:
            F("extras", "format-bits", f"extras byte 6 = {buf[6]:#04x}, docs/Numbers.md table gives format bits {fmt_want:#04x}")
        if buf[6] & 0x80 and not (flags_got is not None and flags_got & 8):
            F("extras", "string-bit-without-string", f"extras byte 6 = {buf[6]:#04x} claims a string id but flags = {flags_got:#x}")

    # ---- decode -------------------------------------------------------------------------------
    try:
        c2 = Cell._from_storage(1, 0, 0, buf, STUB)
    except Exception as e:  # noqa: BLE001
        F("decode", "exception:" + type(e).__name__, f"_from_storage raised {type(e).__name__}: {e} on {buf.hex()}")
        return out, buf, info
    if type(c2) is not CLASS_I[kind] or getattr(c2, "_type", None) != TYPE_I[kind]:
        F("kind", "class", f"decoded as {type(c2).__name__}/{getattr(c2, '_type', None)}, encoded {CLASS_I[kind].__name__}/{TYPE_I[kind]}")
    pv_want = None if kind == "empty" else c.value
    if not _same_value(c2.value, pv_want):
        F("payload", "value", f"payload decoded as {_short(c2.value)}, encoded {_short(pv_want)}")
    want_all = dict(want)
    if pbit == 3:
        want_all["_string_id"] = STUB.by_val[payload]
    bad = []
    for a in ["_string_id", "_formula_error_id"] + [a for a, _ in OPT]:
        g = getattr(c2, a, "<no attribute>")
        w = want_all.get(a)
        if g != w or type(g) is not type(w):
            bad.append((a, g, w))
    if bad:
        a, g, w = bad[0]
        F("field", _pattern(g, w),
          "; ".join(f"{a} decoded {_fmt_id(g)}, encoded {_fmt_id(w)}" for a, g, w in bad) + f"; record {buf.hex()}")

    # ---- second generation: the decoded cell is itself a cell; re-encoding must reproduce the record
    try:
        buf2 = c2._to_buffer()
        buf2 = None if buf2 is None else bytes(buf2)
    except Exception as e:  # noqa: BLE001
        buf2 = None
        F("regen", "exception:" + type(e).__name__, f"re-encoding the decoded cell raised {type(e).__name__}: {e}")
    else:
        if buf2 is None:
            F("regen", "not-stored", "re-encoding the decoded cell returned None")
    if buf2 is not None and not out:
        a, b = buf, buf2
        if pbit == 0 and len(buf2) == len(buf):
            # a decimal128 value has several encodings (12E0, 120E-1); only its numeric value must survive
            try:
                same_number = ref.d128_decode(buf2[12:28]) == ref.d128_decode(buf[12:28])
            except Exception:  # noqa: BLE001
                same_number = False
            if same_number:
                a, b = buf[:12] + buf[28:], buf2[:12] + buf2[28:]
        if a[:6] + a[8:] != b[:6] + b[8:] or (a[6] & 0x2F) != (b[6] & 0x2F):
            F("regen", "record-differs", f"decode(encode(cell)) re-encodes to {buf2.hex()}, first generation was {buf.hex()}")
        elif bool(buf2[6] & 0x80) != bool(flags_want & 8):
            F("extras", "string-bit-regen", f"re-encoded record has extras byte 6 = {buf2[6]:#04x}, string id present: {bool(flags_want & 8)}")
    return out, buf, info


# ---------------------------------------------------------------------------------------------
# layer (ii): independent encoder over all flag subsets -> real decoder
# ---------------------------------------------------------------------------------------------
KINDS_II = ["number", "text", "empty", "rich", "currency", "error", "date", "bool", "duration"]
FULL_CANDIDATES = KINDS_II[:6]  # kinds whose decoder does not need a payload field to return a cell
CLASS_II = {"number": NumberCell, "currency": NumberCell, "text": TextCell, "date": DateCell, "bool": BoolCell,
            "duration": DurationCell, "empty": EmptyCell, "rich": RichTextCell, "error": ErrorCell}
TYPE_II = {"number": CellType.NUMBER, "currency": CellType.CURRENCY, "text": CellType.TEXT, "date": CellType.DATE,
           "bool": CellType.BOOL, "duration": CellType.DURATION, "empty": CellType.EMPTY, "rich": CellType.RICH_TEXT,
           "error": CellType.ERROR}
MANDATORY_II = {"number": 0, "currency": 0, "text": 3, "date": 2, "bool": 1, "duration": 1, "rich": 4, "empty": None, "error": None}
NEEDS_PAYLOAD = ("date", "bool", "duration")  # the decoder computes with the payload of these kinds: TypeError when it is absent
NATURAL_II = {"number": 1, "currency": 1, "date": 4, "bool": 2, "duration": 2, "text": 0, "rich": 0, "empty": 0, "error": 0}

# payload sets: class k of each of the three payload fields; (sign, coefficient, exponent) / microseconds / datetime
D128_II = [  # classes 0 and 1: every representative reads back wrong when 10**exp is taken in binary floating point
    [(0, 12_000_000_000_000_000, -15), (0, 5_000_000_000_000_000, -14), (0, 52_000_000_000_000_000, -15)],
    [(0, 3, -1), (0, 35, -2), (0, 9999, -2), (0, 57, -2), (1, 33, -1)],
    [(0, 1, -290), (0, 1, 290), (0, 999_999_999_999_999, 0), (1, 8464, 8)],
]
DOUBLE_II = [  # microseconds (duration value; bool = value > 0)
    [1_000_000, 2_000_000, 86_400_000_000],
    [3_661_500_000, 1_000, 500_000],
    [0, -1_000_000, -86_400_000_000],
]
SECONDS_II = [
    [datetime(2001, 1, 1), datetime(2001, 1, 1, 0, 0, 1), datetime(2001, 1, 2)],
    [datetime(2020, 2, 29, 12, 0, 1), datetime(2038, 1, 19, 3, 14, 8), datetime(2000, 6, 15, 10, 20, 30, 999999)],
    [datetime(1900, 1, 1), datetime(1899, 12, 31, 23, 59, 59), datetime(1970, 1, 1, 0, 0, 0, 500000)],
]
EX_HI = [sum(m for bit, m in ref.EXTRAS6.items() if bit >= 13 and (i >> (bit - 13)) & 1) for i in range(64)]


WORD_BITS = [b for b in OBS_BITS if b >= 3]  # the 13 interpreted 4-byte fields


class Ctx:
    def __init__(self, kind, k, r, zb=None, bv=None):
        """zb/bv: the interpreted 4-byte field of bit zb holds the boundary id bv instead of its sentinel."""
        self.kind, self.k, self.r = kind, k, r
        d = D128_II[k][r % len(D128_II[k])]
        us = DOUBLE_II[k][r % len(DOUBLE_II[k])]
        dt = SECONDS_II[k][r % len(SECONDS_II[k])]
        self.payload_desc = {"d128": list(d), "double_us": us, "seconds": dt.isoformat()}
        dbl = ref.us_to_seconds(us)
        sec = ref.us_to_seconds(ref.datetime_to_us(dt))
        self.fb = [None] * ref.NBITS  # field bytes per bit
        self.ev = [None] * ref.NBITS  # value the decoder must report per bit (interpreted bits only)
        self.fb[0], self.ev[0] = ref.d128_encode(*d), ref.d128_float(*d)
        self.fb[1], self.ev[1] = struct.pack("<d", dbl), dbl
        self.fb[2], self.ev[2] = struct.pack("<d", sec), sec
        for b in range(3, ref.NBITS):
            self.fb[b] = ref.word(sent(b))
            self.ev[b] = sent(b)
        if zb is not None:
            self.fb[zb], self.ev[zb] = ref.word(bv), bv
        self.tbyte = ref.CELL_TYPE[kind]
        self.h0 = bytes([ref.VERSION, self.tbyte, 0, 0, 0, 0])
        self.cls = CLASS_II[kind]
        self.ctype = TYPE_II[kind]
        self.mand = MANDATORY_II[kind]
        m = self.mand
        if kind in ("number", "currency"):
            self.val = (None, self.ev[0])
        elif kind == "text":
            self.val = ("<s:None>", f"<s:{self.ev[3]}>")
        elif kind == "rich":
            self.val = ("<r:None>", f"<r:{self.ev[4]}>")
        elif kind == "date":
            self.val = (None, dt)
        elif kind == "bool":
            self.val = (None, us > 0)
        elif kind == "duration":
            self.val = (None, timedelta(microseconds=us))
        else:
            self.val = (None, None)
        self.mand_mask = 0 if m is None else 1 << m

    def record(self, flags):
        fb = self.fb
        return (self.h0 + bytes((EX_HI[(flags >> 13) & 0x3F] | (0x80 if flags & 8 else 0), 0)) + flags.to_bytes(4, "little")
                + b"".join([fb[b] for b in R21 if flags >> b & 1]))

    def record_ref(self, flags):
        return ref.encode_record(self.tbyte, flags, {b: self.fb[b] for b in R21})


_CTX = {}


def ctx_for(kind, k, r, zb=None, bv=None):
    key = (kind, k, r, zb, bv)
    if key not in _CTX:
        _CTX[key] = Ctx(kind, k, r, zb, bv)
    return _CTX[key]


OK, MALFORMED_REJECTED, MALFORMED_DECODED = 0, 1, 2
_decode = Cell._from_storage


def eval_ii(ctx, flags, seen=None):
    """One record of the independent encoder through the real decoder. Returns OK /
    MALFORMED_REJECTED / MALFORMED_DECODED or a list of (ident, detail). `seen` (enumeration only):
    identities already reported by this worker - their detail text is not built again."""
    rec = ctx.record(flags)
    wellformed = (flags & ctx.mand_mask) == ctx.mand_mask
    try:
        c = _decode(1, 0, 0, rec, STUB)
    except Exception as e:  # noqa: BLE001
        if not wellformed and ctx.kind in NEEDS_PAYLOAD and type(e) is TypeError:
            return MALFORMED_REJECTED  # a date/bool/duration record without its payload field: not a record of this kind
        return [({"layer": "ii", "mechanism": "decode", "pattern": "exception:" + type(e).__name__},
                 f"[kind={ctx.kind} flags={flags:#08x}] _from_storage raised {type(e).__name__}: {e} on {rec.hex()}")]
    ev = ctx.ev
    exp = tuple([ev[b] if flags >> b & 1 else None for b in OBS_BITS])
    got = (c._d128, c._double, c._seconds, c._string_id, c._rich_id, c._cell_style_id, c._text_style_id, c._formula_id,
           c._control_id, c._suggest_id, c._num_format_id, c._currency_format_id, c._date_format_id,
           c._duration_format_id, c._text_format_id, c._bool_format_id)
    if got == exp and type(c) is ctx.cls and c._type == ctx.ctype and (not wellformed or c.value == ctx.val[1 if ctx.mand_mask else 0]):
        return OK if wellformed else MALFORMED_DECODED
    out = []
    bad = [(OBS[i][1], got[i], exp[i], OBS[i][0]) for i in range(len(OBS)) if got[i] != exp[i]]
    here = f"kind={ctx.kind} flags={flags:#08x} set bits={[b for b in R21 if flags >> b & 1]}"
    if bad:
        a, g, w, bit = bad[0]
        lower_unint = [b for b in UNINTERPRETED if b < bit and flags >> b & 1]
        pat = _pattern(g, w)
        if bit < 3 and pat != "lost" and pat != "spurious":
            pat = "value"
        if seen is not None:
            if (a, pat) in seen:
                return [({"layer": "ii", "mechanism": "field", "field": a, "pattern": pat}, "")]
            seen.add((a, pat))
        out.append(({"layer": "ii", "mechanism": "field", "field": a, "pattern": pat},
                    f"[{here}] " + "; ".join(f"{a} decoded {_fmt_id(g)}, own slot holds {_fmt_id(w)}" for a, g, w, _ in bad)
                    + (f"; uninterpreted fields before it: bits {lower_unint}" if lower_unint else "") + f"; record {rec.hex()}"))
    if type(c) is not ctx.cls or c._type != ctx.ctype:
        out.append(({"layer": "ii", "mechanism": "kind", "kind": ctx.kind, "pattern": "class"},
                    f"[{here}] type byte {ctx.tbyte} decoded as {type(c).__name__}/{c._type}, expected {ctx.cls.__name__}/{ctx.ctype}"))
    elif wellformed and not bad:
        w = ctx.val[1 if ctx.mand_mask else 0]
        if c.value != w:
            out.append(({"layer": "ii", "mechanism": "payload", "kind": ctx.kind, "pattern": "value"},
                        f"[{here}] value {_short(c.value)}, the payload field encodes {_short(w)}"))
    return out


def is_nontrivial(flags):
    """A record in which some interpreted field is preceded by at least one other field."""
    low = flags & -flags
    return bool((flags ^ low) & INTERP_MASK)


# ---------------------------------------------------------------------------------------------
# one evaluator for enumeration and replay
# ---------------------------------------------------------------------------------------------
def eval_case(case):
    """case = ["i", kind, mask, cls, rep(, member index, boundary id)] or
    ["ii", kind, flags, k, r(, bit, boundary id)] -> list of (ident, detail)."""
    if case[0] == "i":
        return eval_i(*case[1:])[0]
    _, kind, flags, k, r = case[:5]
    res = eval_ii(ctx_for(kind, k, r, *case[5:]), flags)
    return res if isinstance(res, list) else []


def boundary_members(mask, bmode):
    """Which members of an attribute subset take the boundary id in turn."""
    members = [i for i in range(len(OPT)) if mask >> i & 1]
    if bmode == "each" or len(members) <= 2:
        return members
    return [members[0], members[-1]]


def work_i(task):
    kind, cls, rep, lo, hi, step = task[:6]
    bmode, bv = task[7], task[8]
    part = Part()
    digests = set()
    n = nx = 0
    for mask in range(lo, hi, step):
        for zi in ([-1] if bmode is None else boundary_members(mask, bmode)):
            fails, buf, info = eval_i(kind, mask, cls, rep, zi, bv)
            n += 1
            for ident, detail in fails:
                part.fail(ident, detail, ["i", kind, mask, cls, rep] + ([] if zi < 0 else [zi, bv]))
            if buf is not None:
                if mask:
                    digests.add(hashlib.blake2b(buf, digest_size=8).digest())
                if info.get("extras80"):
                    nx += 1
            part.outcome("i:" + ("ok" if not fails else "fail"))
    part.count("evaluations", n)
    part.count("i_records", n)
    part.count(f"i_records_{kind}", n)
    part.count("i_records_boundary_id" if bmode else "i_records_complete_subsets" if step == 1 else "i_records_payload_sweep", n)
    if bmode and lo == 0 and kind == "number" and bv == 0:
        _, buf, _ = eval_i(kind, 0b000000001010, cls, rep, 3, bv)
        part.sample({"layer": "i", "case": ["i", kind, 0b1010, cls, rep, 3, bv], "attributes_set": {"_cell_style_id": sent(5), "_formula_id": bv},
                     "record": buf.hex() if buf else None})
    part.count("i_first_generation_records_with_extras_0x80", nx)
    if bmode is None and hi == NMASK and step == 1 and cls == 0 and rep == task[6]:
        m = 0b101001010101
        _, buf, _ = eval_i(kind, m, cls, rep)
        part.sample({"layer": "i", "case": ["i", kind, m, cls, rep], "payload": _short(PAYLOADS_I[kind][cls][rep]),
                     "attributes_set": [a for i, (a, _) in enumerate(OPT) if m >> i & 1], "record": buf.hex() if buf else None})
    d = part.dump()
    d["digests"] = digests
    return d


def flags_of(mode, x, nat, zb, others):
    """The x-th flags word of an enumeration mode.
    full: all 21 bits; sub: all subsets of bits 3..20 plus the kind's natural payload bits;
    zint: bit zb plus all subsets of the other 15 interpreted bits; zfull: bit zb plus all subsets of the other 20 bits."""
    if mode == "full":
        return x
    if mode == "sub":
        return (x << 3) | nat
    if mode == "zint":
        f = 1 << zb
        for i, b in enumerate(others):
            if x >> i & 1:
                f |= 1 << b
        return f
    return ((x >> zb) << (zb + 1)) | (1 << zb) | (x & ((1 << zb) - 1))


def work_ii(task):
    kind, k, r, mode, lo, hi, zb, bv = task
    ctx = ctx_for(kind, k, r, zb, bv)
    part = Part()
    nat = NATURAL_II[kind]
    others = [b for b in OBS_BITS if b != zb]
    extra = [] if zb is None else [zb, bv]
    n = nontriv = skipped_field = 0
    res_count = [0, 0, 0]
    seen = set()
    for x in range(lo, hi):
        flags = flags_of(mode, x, nat, zb, others)
        res = eval_ii(ctx, flags, seen)
        n += 1
        if res.__class__ is int:
            res_count[res] += 1
        else:
            for ident, detail in res:
                part.fail(ident, detail, ["ii", kind, flags, k, r] + extra)
            part.outcome("ii:fail")
        if is_nontrivial(flags):
            nontriv += 1
        if (flags & 0x100 and flags & 0x7F600) or (flags & 0x800 and flags & 0x7F000):
            skipped_field += 1  # an uninterpreted 0x100/0x800 field with an interpreted field after it
        if x % 1021 == 0 and ctx.record(flags) != ctx.record_ref(flags):
            part.harness_errors.append(f"fast encoder differs from mc.ref_cellrecord.encode_record at flags {flags:#x}")
    part.count("evaluations", n)
    part.count("ii_records", n)
    part.count(f"ii_records_{mode}", n)
    part.count(f"ii_records_{kind}", n)
    part.count("ii_nontrivial", nontriv)
    part.count("ii_records_with_0x100_or_0x800_before_an_interpreted_field", skipped_field)
    part.count("ii_fields_judged", res_count[OK] + res_count[MALFORMED_DECODED])
    part.count("ii_not_a_record_of_kind_rejected", res_count[MALFORMED_REJECTED])
    part.count("ii_not_a_record_of_kind_decoded_fields_judged", res_count[MALFORMED_DECODED])
    for name, c in zip(("ii:ok", "ii:payload-field-missing-rejected", "ii:payload-field-missing-fields-ok"), res_count):
        if c:
            part.outcome(name, c)
    if zb == 9 and bv == 0 and lo == 0 and mode == "zint":
        f = flags_of(mode, 0b101010101010101, nat, zb, others)
        part.sample({"layer": "ii", "case": ["ii", kind, f, k, r, zb, bv], "mode": mode, "boundary": "formula id 0", "example_record": ctx.record(f).hex()})
    if zb is None and lo == 0 and (mode == "sub" or k == r % 3):
        part.sample({"layer": "ii", "case": ["ii", kind, 0x155AA8 | nat, k, r], "kind": kind, "mode": mode, "payload_set": ctx.payload_desc, "example_record": ctx.record(0x155AA8 | nat).hex()})
    return part.dump()


def collapse_identities(run):
    """One defect of the shared field walk shows up under every kind (layer i) or under every later
    field (layer ii). Failures that differ only in that one key are reported as ONE identity whose
    key lists the affected values in enumeration order (so a defect with another footprint is
    still a different identity); the smallest case in enumeration order stays the replay."""
    groups = collections.OrderedDict()
    for rec in run.failures.values():
        ident = rec["ident"]
        var = "kind" if ident.get("layer") == "i" or "field" not in ident else "field"
        if var not in ident:
            var = None
        gkey = json.dumps({k: v for k, v in ident.items() if k != var}, sort_keys=True)
        groups.setdefault(gkey, (var, []))[1].append(rec)
    merged = collections.OrderedDict()
    for var, recs in groups.values():
        rec = recs[0]
        if len(recs) > 1:
            values = [r["ident"][var] for r in recs]
            ident = dict(rec["ident"])
            ident[var] = ",".join(values)
            rec = {"ident": ident, "replay": rec["replay"], "count": sum(r["count"] for r in recs),
                   "detail": rec["detail"] + f" [the same failure occurs for {var} = {', '.join(values)}]"}
        merged[json.dumps(rec["ident"], sort_keys=True)] = rec
    run.failures = merged


def main():
    args = parse_args()
    if args.replay:
        def rp(case, payload):
            res = eval_case(case)
            return bool(res), f"case {case}: " + ("; ".join(d for _, d in res) or "decodes to exactly what was encoded")
        return run_replay(args, rp)

    run = Run(PID, "exploration", args)
    run.max_samples = 32
    seed = args.seed
    thorough = args.tier == "thorough"

    # ---- layer (i)
    tasks_i = []
    n_payloads = n_sweep = 0
    for kind in KINDS_I:
        for ci, cls in enumerate(PAYLOADS_I[kind]):
            reps = range(len(cls)) if thorough else [seed % len(cls)]
            for rep in range(len(cls)):
                if rep in reps:  # complete product with all 2^12 attribute subsets
                    n_payloads += 1
                    for lo, hi in shards(NMASK, 2):
                        tasks_i.append((kind, ci, rep, lo, hi, 1, reps[0], None, None))
                else:  # quick tier: every other representative still travels with no and with all attributes
                    n_sweep += 1
                    tasks_i.append((kind, ci, rep, 0, NMASK, NMASK - 1, -1, None, None))
    # boundary ids: every subset x every member in turn holding id 0 (thorough: each boundary id);
    # the other boundary ids on the lowest and on the highest member of every subset
    n_boundary = 0
    for kind in KINDS_I:
        rep0 = seed % len(PAYLOADS_I[kind][0])
        for bv in BOUNDARY_IDS:
            bmode = "each" if thorough or bv == 0 else "ends"
            n_boundary += len(OPT) << (len(OPT) - 1) if bmode == "each" else 2 * (NMASK - 1 - len(OPT)) + len(OPT)
            for lo, hi in shards(NMASK, 4):
                tasks_i.append((kind, 0, rep0, lo, hi, 1, -1, bmode, bv))
    # ---- layer (ii)
    tasks_ii = []
    n_full = n_sub = 0
    if thorough:
        for kind in KINDS_II:
            for k in range(3):
                n_full += 1
                for lo, hi in shards(1 << ref.NBITS, 64):
                    tasks_ii.append((kind, k, seed, "full", lo, hi, None, None))
    else:
        full_kind = FULL_CANDIDATES[seed % len(FULL_CANDIDATES)]
        n_full = 1
        for lo, hi in shards(1 << ref.NBITS, 64):
            tasks_ii.append((full_kind, seed % 3, seed, "full", lo, hi, None, None))
        for i, kind in enumerate(KINDS_II):
            if kind != full_kind:
                n_sub += 1
                for lo, hi in shards(1 << (ref.NBITS - 3), 8):
                    tasks_ii.append((kind, (seed + i) % 3, seed, "sub", lo, hi, None, None))
        run.extra["ii_full_kind"] = full_kind
    # boundary ids in each interpreted 4-byte field in turn: all subsets of the other 15 interpreted bits
    # (quick: the kind of the complete sweep; thorough: all kinds), and in thorough id 0 over all 2^20 subsets of the other bits
    n_zint = n_zfull = 0
    zkind = FULL_CANDIDATES[seed % len(FULL_CANDIDATES)]
    for kind in (KINDS_II if thorough else [zkind]):
        for zb in WORD_BITS:
            for bv in BOUNDARY_IDS:
                n_zint += 1
                tasks_ii.append((kind, seed % 3, seed, "zint", 0, 1 << (len(OBS_BITS) - 1), zb, bv))
    if thorough:
        for zb in WORD_BITS:
            n_zfull += 1
            for lo, hi in shards(1 << (ref.NBITS - 1), 16):
                tasks_ii.append((zkind, seed % 3, seed, "zfull", lo, hi, zb, 0))

    digests = set()
    for res in pmap(work_ii, tasks_ii, args.jobs, ordered=True):
        run.merge(res)
    for res in pmap(work_i, tasks_i, args.jobs, ordered=True):
        digests |= res.pop("digests", set())
        run.merge(res)

    collapse_identities(run)
    cnt = run.counters
    # ---- non-vacuity floors
    run.floor(f"(i) every one of {n_payloads} (kind, payload) pairs x all 4096 attribute subsets executed", cnt["i_records_complete_subsets"] == n_payloads * NMASK and cnt["i_records_payload_sweep"] == 2 * n_sweep)
    run.floor("(i) all 9 kinds executed, each over >= 4096 subsets", all(cnt[f"i_records_{k}"] >= NMASK for k in KINDS_I) and len(KINDS_I) == 9)
    run.floor("(i) >= 90% of the records with at least one optional attribute are pairwise distinct byte strings",
              bool(run.failures) or len(digests) >= 0.9 * (n_payloads * (NMASK - 1) + n_sweep + n_boundary))  # a broken encoder may merge records: judged on clean runs only
    run.floor("(ii) every flag subset of the complete sweeps executed", cnt["ii_records_full"] == n_full << ref.NBITS and cnt["ii_records_sub"] == n_sub << (ref.NBITS - 3))
    run.floor("(i) boundary ids: every subset x every member (id 0) / lowest and highest member (other boundary ids) executed for all 9 kinds",
              cnt["i_records_boundary_id"] == n_boundary and n_boundary >= 9 * (len(OPT) << (len(OPT) - 1)))
    run.floor("(ii) boundary ids: each of the 13 interpreted 4-byte fields x 4 boundary ids x all 2^15 subsets of the other interpreted bits executed",
              cnt["ii_records_zint"] == n_zint << (len(OBS_BITS) - 1) and n_zint >= len(WORD_BITS) * len(BOUNDARY_IDS)
              and cnt["ii_records_zfull"] == n_zfull << (ref.NBITS - 1))
    run.floor("(ii) fields judged on >= 80% of the records", cnt["ii_fields_judged"] + run.outcomes.get("ii:fail", 0) >= 0.8 * cnt["ii_records"])
    run.floor("(ii) >= 2^19 records carry an uninterpreted 0x100/0x800 field before an interpreted one",
              cnt["ii_records_with_0x100_or_0x800_before_an_interpreted_field"] >= 1 << 19)
    run.floor("sentinels: 21 distinct ids with 84 distinct bytes",
              len(ALL_SENTINELS) == 21 and len({x for s in ALL_SENTINELS for x in s.to_bytes(4, "little")}) == 84)
    run.floor(">= 2 distinct outcome classes observed", len(run.outcomes) >= 2)
    run.assume("flag bits above 0x100000 are undocumented and not enumerated; pre-v5 records are unsupported by the library")
    run.assume("payload values are representatives of C01's classes (C01 enumerates the value ranges); here they only have to travel through the record unchanged")
    run.assume("extras byte 6: the five format bits are compared with docs/Numbers.md; bit 0x80 is only required to imply a string id on records of "
               "freshly constructed cells (the library sets it only on cells that were themselves decoded from a record; counted, not judged)")
    run.assume("(ii) a subset lacking the payload field its type byte needs (date without seconds, bool/duration without double) is not a record of that kind: "
               "the TypeError the decoder raises there is counted, not judged (any other exception is a failure); if the decoder returns a cell its fields are judged all the same")
    cov = {
        "distinct_nontrivial": len(digests) + cnt["ii_nontrivial"],
        "i_distinct_records_with_optional_attributes": len(digests),
        "rule": "(i) distinct encoded byte strings (blake2b) among records with >= 1 optional attribute; "
                "(ii) records (pairwise distinct by construction: kind, payload set, flags word) in which at least one interpreted field is preceded "
                "by at least one other field, so that a wrong offset is observable",
        "exhaustive": True,
        "bound": ("thorough: (i) 9 kinds x all payload representatives x 2^12 subsets, 9 kinds x 4 boundary ids x every subset x every member; (ii) 9 kinds x 3 payload sets x 2^21 flag subsets, "
                  "9 kinds x 13 fields x 4 boundary ids x 2^15 subsets of the other interpreted bits, 13 fields x id 0 x 2^20 subsets of all other bits" if thorough else
                  "quick: (i) 9 kinds x one representative per payload class x 2^12 subsets, every other representative x {no, all} attributes; (ii) 2^21 flag subsets for one kind + 2^18 subsets of bits 3..20 for each of the other 8 kinds; "
                  "boundary ids: (i) 9 kinds x every subset x every member holding id 0, x lowest/highest member holding -1, 2^31-1, -2^31; "
                  "(ii) 13 fields x 4 boundary ids x 2^15 subsets of the other interpreted bits for one kind"),
    }
    return run.finish(cov)


if __name__ == "__main__":
    sys.exit(main())
