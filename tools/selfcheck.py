#!/usr/bin/env python3
"""setup_cmd helper: validate MANIFEST.json / known_findings.json and that every check module imports."""
import importlib
import json
import os
import sys

ROOT = os.path.dirname(os.path.dirname(os.path.abspath(__file__)))
sys.path[:0] = ["/repo/src", ROOT]
m = json.load(open(os.path.join(ROOT, "MANIFEST.json")))
kf = json.load(open(os.path.join(ROOT, "known_findings.json")))
for e in kf["findings"]:
    assert e["status"] in ("known", "fixed") and e["property"] and e["id"] and e["what"], e
    if e["status"] == "known":
        assert isinstance(e["match"], dict) and e["match"], e
try:
    import jsonschema  # optional in /venv

    jsonschema.validate(m, json.load(open("/root/.vp/MANIFEST.schema.json")))
except ImportError:
    pass
os.environ.setdefault("PYTHONHASHSEED", "0")
import warnings

warnings.simplefilter("ignore")
for c in m["checks"]:
    importlib.import_module("checks." + c["property_id"].lower())
print(f"selfcheck ok: {len(m['checks'])} checks import, {len(kf['findings'])} findings recorded")
