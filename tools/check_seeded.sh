#!/bin/bash
# usage: tools/check_seeded.sh seeded/<id> [<check>...]
# Applies seeded/<id>/patch.diff to a scratch worktree of /repo HEAD (never to /repo itself), runs the demo and
# the checks that meta.json records as detecting it (or the checks given), prints exit codes, removes the worktree.
set -u
dir="$(cd "$1" && pwd)"; shift
name="$(basename "$dir")"
wt="/tmp/wt-seeded-$name"
git -C /repo worktree remove --force "$wt" >/dev/null 2>&1
git -C /repo worktree add --detach "$wt" HEAD >/dev/null 2>&1 || { echo "$name: worktree failed"; exit 2; }
if ! git -C "$wt" apply "$dir/patch.diff" 2>/dev/null && ! git -C "$wt" apply --3way "$dir/patch.diff" >/dev/null 2>&1; then
  echo "$name: patch no longer applies to /repo HEAD (see meta.json note)"; git -C /repo worktree remove --force "$wt"; exit 3
fi
( cd "$wt" && PYTHONPATH="$wt/src" PYTHONWARNINGS=ignore timeout 600 /venv/bin/python "$dir/demo.py" >/dev/null 2>&1 ); echo "$name: demo exit (patched tree) = $?  [1 = property broken]"
if [ $# -eq 0 ]; then
  set -- $(python3 -c "import json,sys; m=json.load(open('$dir/meta.json')); print(' '.join(k for k,v in m.get('detection',{}).items() if v.startswith('VIOLATION')))")
fi
for c in "$@"; do
  ( cd /verif && VERIF_REPO_SRC="$wt/src" VERIF_EVIDENCE_DIR="/tmp/ev-seeded-$name" timeout 5000 ./check "$c" --no-confirm --jobs "${MUT_JOBS:-8}" >/tmp/ev-seeded-$name.log 2>&1 ); code=$?
  echo "$name: ./check $c exit=$code  [1 = VIOLATION reported]"; grep -E "^  ident" /tmp/ev-seeded-$name.log | head -3 | cut -c1-200
done
git -C /repo worktree remove --force "$wt"; rm -rf "/tmp/ev-seeded-$name" "/tmp/ev-seeded-$name.log"
