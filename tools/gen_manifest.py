#!/usr/bin/env python3
"""Regenerate /verif/MANIFEST.json from checks/registry.py (run from /verif)."""
import json
import os
import sys

ROOT = os.path.dirname(os.path.dirname(os.path.abspath(__file__)))
sys.path.insert(0, ROOT)
from checks.registry import CHECKS, NOT_BUILT_REASON, NOT_APPLICABLE  # noqa: E402

props = [json.loads(l) for l in open(os.path.join(ROOT, "properties.jsonl"))]
hooks_commits = []
hc = os.path.join(ROOT, "hooks_commits.txt")
if os.path.exists(hc):
    hooks_commits = [l.split()[0] for l in open(hc) if l.strip() and not l.startswith("#")]
checks = []
na = []
for p in props:
    pid = p["id"]
    if pid in CHECKS:
        c = CHECKS[pid]
        checks.append({
            "property_id": pid,
            "quick_cmd": f"./check {pid} --tier quick",
            "thorough_cmd": f"./check {pid} --tier thorough",
            "evidence_file": f"/verif/evidence/{pid}.json",
            "replay_cmd_template": f"./check {pid} --replay {{path}}",
            "engine": "mc",
            "level_claimed": {"category": c["category"], "text": c["text"], "design_ref": c["design_ref"]},
            "level_note": c["note"],
            "technique": c["technique"],
        })
    else:
        na.append({"property_id": pid, "reason": NOT_APPLICABLE.get(pid, NOT_BUILT_REASON)})
manifest = {
    "version": 1,
    "setup_cmd": "/venv/bin/python -m compileall -q /verif/mc /verif/checks >/dev/null && /venv/bin/python /verif/tools/selfcheck.py",
    "hooks": {
        "guard": "NUMBERS_PARSER_VERIF",
        "enable": "no source hooks are needed: checks import /repo/src of the current working tree directly (PYTHONPATH=/repo/src) and wrap library functions from the harness process; ./check exports NUMBERS_PARSER_VERIF=1 for any future add-only hook",
        "baseline_off_cmd": "cd /repo && env -u NUMBERS_PARSER_VERIF /venv/bin/python -m pytest -ra -q -p no:cacheprovider --timeout=900 --continue-on-collection-errors",
        "source_commits": hooks_commits,
        "add_only": True,
    },
    "engines": [{
        "name": "mc",
        "path": "/verif/mc",
        "serves_properties": sorted(CHECKS),
        "kind_free_text": "hand-written explicit-state / bounded-exhaustive explorer over the real implementation (replay-from-initial-state BFS with reference models, complete product enumerators, fault-site enumerators), sharded over a process pool",
    }],
    "checks": checks,
    "not_applicable": na,
    "notes": "All checks run /venv/bin/python against /repo/src of the current working tree (no copy, no build step). "
             "Known findings: /verif/known_findings.json. Seeded property-breaking changes used to validate detection: /verif/seeded/.",
}
with open(os.path.join(ROOT, "MANIFEST.json"), "w") as f:
    json.dump(manifest, f, indent=1)
    f.write("\n")
print(f"MANIFEST.json: {len(checks)} checks, {len(na)} not claimed")
