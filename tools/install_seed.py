#!/usr/bin/env python3
"""Install a verified seeded change into /verif/seeded/<Prop>-<k>/ (patch.diff, demo.py, meta.json).
usage: tools/install_seed.py <Prop> <k> "<result line from verify_seed.sh>" [note]"""
import json
import os
import re
import shutil
import subprocess
import sys

prop, k, line = sys.argv[1:4]
note = sys.argv[4] if len(sys.argv) > 4 else ""
src = os.environ.get("SEED_SRC") or f"/tmp/seed-out/{prop}"
dst = f"/verif/seeded/{prop}-{k}"
os.makedirs(dst, exist_ok=True)
shutil.copy(f"{src}/patch_{k}.diff", f"{dst}/patch.diff")
shutil.copy(f"{src}/demo_{k}.py", f"{dst}/demo.py")
meta = json.load(open(f"{src}/meta_{k}.json"))
m = re.search(r"demo_clean=(\d+) demo_patched=(\d+) tests=\[(.*?)\]", line)
checks = dict(re.findall(r"\b(C\d\d)=(\d+)", line.split("]")[-1]))
log = f"/root/scratch/seedlogs/{prop}-{k}.log"
idents = []
if os.path.exists(log):
    idents = [l.strip() for l in open(log) if l.strip().startswith("ident=")][:6]
head = subprocess.check_output(["git", "-C", "/repo", "log", "--format=%h", "-1"]).decode().strip()
meta.update({
    "origin": "independent sub-agent given only the property text and a scratch worktree of /repo (nothing from /verif)",
    "confirmed_by_lead": {
        "base_commit": head,
        "procedure": "tools/verify_seed.sh: fresh worktree of /repo HEAD; demo on clean tree; git apply patch; demo on patched tree; repository test suite (pytest -n 4 --no-cov); then the /verif checks with VERIF_REPO_SRC pointing at the patched worktree",
        "demo_exit_clean_tree": int(m.group(1)),
        "demo_exit_patched_tree": int(m.group(2)),
        "repository_tests_with_patch": m.group(3),
    },
    "detection": {c: ("VIOLATION (exit 1)" if e == "1" else f"not detected (exit {e})") for c, e in checks.items()},
    "detecting_identities": idents,
})
if note:
    meta["note"] = note
json.dump(meta, open(f"{dst}/meta.json", "w"), indent=1)
print("installed", dst, meta["detection"])
