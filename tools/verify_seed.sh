#!/bin/bash
# usage: tools/verify_seed.sh <PropId> <k> [<check>...]   (inputs in /tmp/seed-out/<PropId>/)
# Confirms a seeded change independently (applies on a scratch worktree of /repo HEAD, demo fails with /
# passes without, repository test summary unchanged), then runs the given checks against it.
set -u
id="$1"; k="$2"; shift 2
src="${SEED_SRC:-/tmp/seed-out/$id}"
tag="${SEED_TAG:-$id}"
wt="/tmp/wt-seed-$tag-$k"
log="/root/scratch/seedlogs/$tag-$k.log"; mkdir -p /root/scratch/seedlogs
git -C /repo worktree remove --force "$wt" >/dev/null 2>&1
git -C /repo worktree add --detach "$wt" HEAD >/dev/null 2>&1 || { echo "$tag-$k worktree failed"; exit 2; }
res="$tag-$k:"
( cd "$wt" && PYTHONPATH="$wt/src" PYTHONWARNINGS=ignore timeout 600 /venv/bin/python "$src/demo_$k.py" >"$log.clean" 2>&1 ); res="$res demo_clean=$?"
if ! git -C "$wt" apply "$src/patch_$k.diff" 2>>"$log"; then
  git -C "$wt" apply --3way "$src/patch_$k.diff" >>"$log" 2>&1 || { echo "$res APPLY-FAILED"; git -C /repo worktree remove --force "$wt"; exit 2; }
fi
( cd "$wt" && PYTHONPATH="$wt/src" PYTHONWARNINGS=ignore timeout 600 /venv/bin/python "$src/demo_$k.py" >"$log.patched" 2>&1 ); res="$res demo_patched=$?"
t=$(cd "$wt" && PYTHONPATH="$wt/src" timeout 1500 /venv/bin/python -m pytest -q -p no:cacheprovider --no-cov -n 4 2>&1 | tail -1)
res="$res tests=[$t]"
for c in "$@"; do
  out=$(cd /verif && VERIF_REPO_SRC="$wt/src" VERIF_EVIDENCE_DIR=/tmp/mut-evidence-$tag-$k timeout ${MUT_TIMEOUT:-2400} ./check "$c" --no-confirm --jobs ${MUT_JOBS:-8} 2>&1)
  code=$?
  res="$res $c=$code"
  { echo "== $c exit=$code"; echo "$out" | grep -E "^VIOLATION|^KNOWN-FINDING|^HARNESS|^  ident|^\[C" | cut -c1-300 | head -14; } >> "$log"
done
echo "$res"
git -C /repo worktree remove --force "$wt"; rm -rf /tmp/mut-evidence-$tag-$k
