#!/bin/bash
# usage: tools/run_all.sh [quick|thorough] [jobs]  - runs every registered check in /verif against /repo,
# refreshing evidence/<id>.json; prints one line per check (exit code, wall seconds).
tier="${1:-quick}"; jobs="${2:-16}"
cd "$(dirname "$0")/.." || exit 2
for id in ${IDS:-C01 C02 C03 C04 C05 C06 C07 C08 C09 C10 C11 C12 C13 C14 C15 C16 C17 C18 C19 C20}; do
  t0=$(date +%s)
  out=$(VERIF_SEED="${VERIF_SEED:-0}" timeout 14000 ./check "$id" --tier "$tier" --jobs "$jobs" 2>&1); code=$?
  t1=$(date +%s)
  echo "$id exit=$code wall=$((t1-t0))s $(echo "$out" | grep -c '^KNOWN-FINDING') known, $(echo "$out" | grep -c '^VIOLATION') violations, $(echo "$out" | grep -c '^HARNESS') harness"
  if [ $code -ne 0 ]; then echo "$out" | grep -E "^VIOLATION|^  ident|^HARNESS" | head -8 | cut -c1-300; fi
done
