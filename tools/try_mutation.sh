#!/bin/bash
# usage: tools/try_mutation.sh <name> <patch-file|-R:commit> <check> [<check>...]
# Applies a change to a scratch worktree of /repo (never to /repo itself), runs the checks against it
# (VERIF_REPO_SRC), prints exit codes, removes the worktree.
set -u
name="$1"; change="$2"; shift 2
wt="/tmp/wt-mut-$name"
git -C /repo worktree remove --force "$wt" >/dev/null 2>&1
git -C /repo worktree add --detach "$wt" HEAD >/dev/null 2>&1 || { echo "worktree failed"; exit 2; }
if [[ "$change" == -R:* ]]; then
  git -C /repo show "${change#-R:}" | git -C "$wt" apply -R || { echo "reverse apply failed"; git -C /repo worktree remove --force "$wt"; exit 2; }
else
  git -C "$wt" apply "$change" || { echo "apply failed"; git -C /repo worktree remove --force "$wt"; exit 2; }
fi
for c in "$@"; do
  out=$(cd /verif && VERIF_REPO_SRC="$wt/src" VERIF_EVIDENCE_DIR=/tmp/mut-evidence timeout ${MUT_TIMEOUT:-1500} ./check "$c" --no-confirm --jobs ${MUT_JOBS:-8} 2>&1)
  code=$?
  echo "== $name $c exit=$code"
  echo "$out" | grep -E "^VIOLATION|^KNOWN-FINDING|^HARNESS" | cut -c1-220 | head -6
  echo "$out" | grep -E "^  ident" | head -4 | cut -c1-220
done
git -C /repo worktree remove --force "$wt"
rm -rf /tmp/mut-evidence
