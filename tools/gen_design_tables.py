#!/usr/bin/env python3
"""Regenerate the generated blocks of DESIGN.md from known_findings.json and seeded/*/meta.json."""
import glob
import json
import os
import re

ROOT = os.path.dirname(os.path.dirname(os.path.abspath(__file__)))
kf = json.load(open(os.path.join(ROOT, "known_findings.json")))["findings"]


def cell(s):
    return str(s).replace("|", "\\|").replace("\n", " ")


by_commit = {}
for e in kf:
    if e["status"] == "fixed":
        by_commit.setdefault(e["commit"], []).append(e)
rows = ["| fix commit | properties | what failed before the repair |", "|---|---|---|"]
for c, es in by_commit.items():
    props = ", ".join(sorted({e["property"] for e in es}))
    what = re.sub(r"^fixed: property=C\d+ \w+ ", "", es[0]["what"])
    rows.append(f"| {c} | {props} | {cell(what)[:400]} |")
fixed = "\n".join(rows)
rows = ["| id | property | what fails | matched on |", "|---|---|---|---|"]
for e in kf:
    if e["status"] == "known":
        rows.append(f"| {e['id']} | {e['property']} | {cell(e['what'])[:420]} | `{cell(json.dumps(e['match']))}` |")
known = "\n".join(rows)
rows = ["| seeded change | breaks | what it needs to manifest | detected by |", "|---|---|---|---|"]
for d in sorted(glob.glob(os.path.join(ROOT, "seeded", "*"))):
    mp = os.path.join(d, "meta.json")
    if not os.path.exists(mp):
        continue
    m = json.load(open(mp))
    det = "; ".join(f"{k}: {v}" for k, v in m.get("detection", {}).items())
    if m.get("note"):
        det += f" ({m['note']})"
    rows.append(f"| {os.path.basename(d)} | {m.get('property')} - {cell(m.get('summary', ''))[:160]} | {cell(m.get('needs', ''))[:260]} | {cell(det)} |")
seeded = "\n".join(rows)
p = os.path.join(ROOT, "DESIGN.md")
s = open(p).read()
for name, body in (("fixed", fixed), ("known", known), ("seeded", seeded)):
    s = re.sub(rf"<!-- BEGIN:{name} -->.*?<!-- END:{name} -->", lambda _m: f"<!-- BEGIN:{name} -->\n{body}\n<!-- END:{name} -->", s, flags=re.S)
open(p, "w").write(s)
print("DESIGN.md tables regenerated:", len(by_commit), "fix commits,", sum(1 for e in kf if e["status"] == "known"), "known,", len(rows) - 2, "seeded")
