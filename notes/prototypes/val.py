import warnings, zipfile, struct, io, sys, os, collections
warnings.simplefilter("ignore")
import snappy
from google.protobuf.internal.decoder import _DecodeVarint32
from numbers_parser.generated.TSPArchiveMessages_pb2 import ArchiveInfo
from numbers_parser.generated.mapping import ID_NAME_MAP

def unframe(data):
    out=b""
    while data:
        assert data[0]==0, "marker"
        n=struct.unpack("<I",data[1:4]+b"\0")[0]
        assert len(data)>=4+n, "chunk length"
        c=data[4:4+n]; data=data[4+n:]
        try: u=snappy.uncompress(c)
        except Exception: u=c
        assert len(u)<=65536, "chunk>64K"
        out+=u
    return out
def segments(stream):
    pos=0
    while pos<len(stream):
        n,p=_DecodeVarint32(stream,pos)
        ai=ArchiveInfo.FromString(stream[p:p+n]); pos=p+n
        msgs=[]
        for mi in ai.message_infos:
            msgs.append((mi,stream[pos:pos+mi.length])); pos+=mi.length
        yield ai,msgs
    assert pos==len(stream)
def refs_in(msg,out):
    for fd,val in msg.ListFields():
        if fd.type==fd.TYPE_MESSAGE:
            vals = val if fd.is_repeated else [val]
            for v in vals:
                if type(v).__name__=="Reference": out.append(v.identifier)
                else: refs_in(v,out)
def load(path):
    z=zipfile.ZipFile(path)
    objs={}; where={}; hdr_refs={}; files=[]
    for n in z.namelist():
        b=z.read(n)
        if n.endswith(".iwa"):
            files.append(n)
            for ai,msgs in segments(unframe(b)):
                mi,payload=msgs[0]
                cls=ID_NAME_MAP[mi.type]
                m=cls.FromString(payload)
                assert ai.identifier not in objs, ("dup id",ai.identifier)
                objs[ai.identifier]=m; where[ai.identifier]=n
                hdr_refs[ai.identifier]=list(mi.object_references)
    return objs,where,hdr_refs,files,z.namelist()
def dangling(path):
    objs,where,hdr_refs,files,names=load(path)
    d=set()
    for i,m in objs.items():
        r=[]; refs_in(m,r)
        for x in r:
            if x!=0 and x not in objs: d.add((type(m).__name__,x))
    pm=objs[2]
    comp_ids={c.identifier for c in pm.components}
    locs={c.identifier:(c.locator or c.preferred_locator) for c in pm.components}
    unlisted=[f for f in files if not any(f=="Index/"+(c.locator if c.HasField("locator") else c.preferred_locator)+".iwa" for c in pm.components)]
    maxid=max(objs)
    return d, unlisted, maxid, pm.last_object_identifier, len(objs)
if __name__=="__main__":
    for p in sys.argv[1:]:
        d,unl,maxid,last,n=dangling(p)
        print(p,"objs",n,"dangling",len(d),sorted(d)[:5],"unlisted",unl[:5],"maxid",maxid,"last_object_identifier",last)
