import warnings, glob, os, sys
warnings.simplefilter("ignore")
from numbers_parser import Document
import snap
res=[]
for p in sorted(glob.glob("/repo/tests/data/*.numbers")):
    try:
        with warnings.catch_warnings(record=True) as w:
            warnings.simplefilter("always")
            d=Document(p)
        if any("unsupported version" in str(x.message) for x in w): continue
    except Exception: continue
    s0=snap.doc_snap(d); excs={}
    try:
        for s in d.sheets:
            for t in s.tables:
                for r,row in enumerate(t.rows()):
                    t.row_height(r)
                    for c in row:
                        for acc in ("formula","formatted_value","style","border"):
                            try: getattr(c,acc)
                            except Exception as e: excs[(acc,type(e).__name__)]=excs.get((acc,type(e).__name__),0)+1
                for c in range(t.num_cols): t.col_width(c)
        d.save("/root/scratch/t2.numbers")
        s1=snap.doc_snap(Document("/root/scratch/t2.numbers"))
        df=[x for x in snap.diff(s0,s1) if "ErrorCell" not in x]
        print(f"{os.path.basename(p):40s} diffs={len(df)}", df[:2] if df else "", excs or "")
    except Exception as e:
        import traceback
        print(os.path.basename(p),"EXC",type(e).__name__,str(e)[:100]); 
