import warnings, itertools, collections, re, time
warnings.simplefilter("ignore")
from decimal import Decimal
from numbers_parser import Document
from numbers_parser.generated import TSCEArchives_pb2 as TSCE
from numbers_parser.generated.functionmap import FUNCTION_MAP
N=TSCE.ASTNodeArrayArchive.ASTNodeArchive
T=TSCE.ASTNodeArrayArchive
# ---- tree representation: ("num",Decimal) ("str",s) ("bool",b) ("date",(y,m,d)) ("ref",text) ("empty",)
#      ("bin",op,l,r) ("neg",x) ("pct",x) ("fn",name,[args]) ("arr",[[...]]) 
BIN={"+":"ADDITION_NODE","-":"SUBTRACTION_NODE","×":"MULTIPLICATION_NODE","÷":"DIVISION_NODE","^":"POWER_NODE","&":"CONCATENATION_NODE",
     "=":"EQUAL_TO_NODE","≠":"NOT_EQUAL_TO_NODE","<":"LESS_THAN_NODE",">":"GREATER_THAN_NODE","≤":"LESS_THAN_OR_EQUAL_TO_NODE","≥":"GREATER_THAN_OR_EQUAL_TO_NODE"}
PREC={"=":1,"≠":1,"<":1,">":1,"≤":1,"≥":1,"&":2,"+":3,"-":3,"×":4,"÷":4,"^":6}
NEGP=5; PCTP=7
FN_ID={v:k for k,v in FUNCTION_MAP.items()}
def prec(t):
    k=t[0]
    if k=="bin": return PREC[t[1]]
    if k=="neg": return NEGP
    if k=="pct": return PCTP
    return 99
def emit(t,out):
    k=t[0]
    if k=="num":
        v=t[1]
        if v==v.to_integral_value() and abs(v)<2**63:
            out.append(N(AST_node_type=T.NUMBER_NODE,AST_number_node_number=float(v),AST_number_node_decimal_low=int(v),AST_number_node_decimal_high=0x3040000000000000))
        else:
            sign,digits,exp=v.as_tuple(); mant=int("".join(map(str,digits)))
            out.append(N(AST_node_type=T.NUMBER_NODE,AST_number_node_number=float(v),AST_number_node_decimal_low=mant,AST_number_node_decimal_high=(0x3040+2*exp)<<48))
    elif k=="str": out.append(N(AST_node_type=T.STRING_NODE,AST_string_node_string=t[1]))
    elif k=="bool": out.append(N(AST_node_type=T.BOOLEAN_NODE,AST_boolean_node_boolean=t[1]))
    elif k=="date":
        from datetime import datetime
        out.append(N(AST_node_type=T.DATE_NODE,AST_date_node_dateNum=(datetime(*t[1])-datetime(2001,1,1)).total_seconds()))
    elif k=="ref":
        n=N(AST_node_type=T.CELL_REFERENCE_NODE); r,c,ra,ca=t[2]
        n.AST_row.row=r; n.AST_row.absolute=ra; n.AST_column.column=c; n.AST_column.absolute=ca; out.append(n)
    elif k=="empty": out.append(N(AST_node_type=T.EMPTY_ARGUMENT_NODE))
    elif k=="bin":
        op=t[1]; p=PREC[op]
        for side,ch in (("l",t[2]),("r",t[3])):
            need = prec(ch)<p or (side=="r" and prec(ch)==p) or (op=="^" and prec(ch)<=p) or ch[0] in("neg",) and side=="r"
            emit(ch,out)
            if need: out.append(N(AST_node_type=T.LIST_NODE,AST_list_node_numArgs=1))
        out.append(N(AST_node_type=getattr(T,BIN[op])))
    elif k in("neg","pct"):
        ch=t[1]; emit(ch,out)
        if prec(ch)<99: out.append(N(AST_node_type=T.LIST_NODE,AST_list_node_numArgs=1))
        out.append(N(AST_node_type=T.NEGATION_NODE if k=="neg" else T.PERCENT_NODE))
    elif k=="fn":
        for a in t[2]: emit(a,out)
        out.append(N(AST_node_type=T.FUNCTION_NODE,AST_function_node_index=FN_ID[t[1]],AST_function_node_numArgs=len(t[2])))
    elif k=="arr":
        rows=t[1]
        for row in rows:
            for a in row: emit(a,out)
        out.append(N(AST_node_type=T.ARRAY_NODE,AST_array_node_numRow=len(rows),AST_array_node_numCol=len(rows[0])))
# ---- independent parser
TOK=re.compile(r'\s*(?:(\d+\.?\d*(?:[eE][-+]?\d+)?|\.\d+)|("(?:[^"]|"")*")|(\$?[A-Z]{1,3}\$?\d+)|([A-Z][A-Z0-9.]*)(?=\()|(TRUE|FALSE)|(.))',re.S)
def tokenize(s):
    out=[];pos=0
    while pos<len(s):
        m=TOK.match(s,pos); assert m, s[pos:]
        pos=m.end()
        if m.group(1) is not None: out.append(("num",m.group(1)))
        elif m.group(2) is not None: out.append(("str",m.group(2)[1:-1].replace('""','"')))
        elif m.group(3) is not None: out.append(("ref",m.group(3)))
        elif m.group(4) is not None: out.append(("name",m.group(4)))
        elif m.group(5) is not None: out.append(("bool",m.group(5)=="TRUE"))
        else: out.append(("sym",m.group(6)))
    return out
class P:
    def __init__(s,toks): s.t=toks; s.i=0
    def peek(s): return s.t[s.i] if s.i<len(s.t) else ("eof",None)
    def next(s): x=s.peek(); s.i+=1; return x
    def expr(s,minp=0):
        left=s.unary()
        while True:
            k,v=s.peek()
            if k=="sym" and v in PREC and PREC[v]>=minp:
                s.next(); right=s.expr(PREC[v]+1)   # left assoc
                left=("bin",v,left,right)
            else: return left
    def unary(s):
        k,v=s.peek()
        if k=="sym" and v=="-":
            s.next(); x=s.expr(NEGP); return s.postfix(("neg",x))
        return s.postfix(s.atom())
    def postfix(s,x):
        while s.peek()==("sym","%"): s.next(); x=("pct",x)
        return x
    def atom(s):
        k,v=s.next()
        if k=="num": return ("num",Decimal(v))
        if k=="str": return ("str",v)
        if k=="bool": return ("bool",v)
        if k=="ref": return ("ref",v)
        if k=="name":
            assert s.next()==("sym","("); args=[]
            if s.peek()==("sym",")"): s.next(); return ("fn",v,[]) if v!="DATE" else ("fn",v,[])
            while True:
                if s.peek() in (("sym",","),("sym",")")): args.append(("empty",))
                else: args.append(s.expr())
                k2,v2=s.next()
                if (k2,v2)==("sym",")"): break
                assert (k2,v2)==("sym",","),(k2,v2)
            if v=="DATE" and len(args)==3 and all(a[0]=="num" for a in args): return ("date",tuple(int(a[1]) for a in args))
            return ("fn",v,args)
        if (k,v)==("sym","("):
            x=s.expr(); assert s.next()==("sym",")"); return ("paren",x)
        if (k,v)==("sym","{"):
            rows=[[]]
            while True:
                rows[-1].append(s.expr()); k2,v2=s.next()
                if v2=="}": break
                if v2==";": rows.append([])
                else: assert v2==",",v2
            return ("arr",rows)
        raise AssertionError(("atom",k,v))
def strip(t):
    k=t[0]
    if k=="paren": return strip(t[1])
    if k=="bin": return ("bin",t[1],strip(t[2]),strip(t[3]))
    if k in("neg","pct"): return (k,strip(t[1]))
    if k=="fn": return ("fn",t[1],[strip(a) for a in t[2]])
    if k=="arr": return ("arr",[[strip(a) for a in r] for r in t[1]])
    return t
def parse(s):
    p=P(tokenize(s)); x=p.expr(); assert p.peek()[0]=="eof",p.peek(); return strip(x)
def norm(t,host):
    # generated tree -> comparable (refs to text)
    k=t[0]
    if k=="ref": return ("ref",t[1])
    if k=="bin": return ("bin",t[1],norm(t[2],host),norm(t[3],host))
    if k in("neg","pct"): return (k,norm(t[1],host))
    if k=="fn": return ("fn",t[1],[norm(a,host) for a in t[2]])
    if k=="arr": return ("arr",[[norm(a,host) for a in r] for r in t[1]])
    return t
# ---- generate
leaves=[("num",Decimal(3)),("num",Decimal("0.5")),("str","s"),("str",'q"t'),("bool",True),("date",(2020,2,29)),("ref","$B$2",(1,1,True,True)),("num",Decimal("1E-7")),("num",Decimal("1.5E22")),("num",Decimal(7)),("num",Decimal(11))]
ops=list(BIN)
def distinct_leaves(n,off=0): return [("num",Decimal(100+off+i)) for i in range(n)]
trees=[]
for l in leaves: trees.append(l)
for op in ops:
    a,b=distinct_leaves(2); trees.append(("bin",op,a,b))
for l in leaves[:2]: trees+= [("neg",l),("pct",l)]
# depth 2: every parent/child/position
for p in ops:
    for c in ops:
        a,b,c2=distinct_leaves(3)
        trees.append(("bin",p,("bin",c,a,b),c2)); trees.append(("bin",p,a,("bin",c,b,c2)))
    a,b=distinct_leaves(2)
    trees+= [("bin",p,("neg",a),b),("bin",p,a,("neg",b)),("bin",p,("pct",a),b),("bin",p,a,("pct",b)),("neg",("bin",p,a,b)),("pct",("bin",p,a,b))]
    trees+= [("fn","SUM",[("bin",p,a,b),("num",Decimal(9))]),("arr",[[("bin",p,a,b),("num",Decimal(9))]])]
trees+= [("neg",("neg",("num",Decimal(5)))),("pct",("pct",("num",Decimal(5)))),("neg",("pct",("num",Decimal(5)))),("pct",("neg",("num",Decimal(5))))]
# depth 3 all shapes over ops (5 shapes)
for o1,o2,o3 in itertools.product(ops,repeat=3):
    a,b,c,d4=distinct_leaves(4)
    trees+= [("bin",o1,("bin",o2,("bin",o3,a,b),c),d4),("bin",o1,("bin",o2,a,("bin",o3,b,c)),d4),("bin",o1,("bin",o2,a,b),("bin",o3,c,d4)),("bin",o1,a,("bin",o2,("bin",o3,b,c),d4)),("bin",o1,a,("bin",o2,b,("bin",o3,c,d4)))]
# functions
for fid,name in FUNCTION_MAP.items():
    for ar in range(0,4):
        args=distinct_leaves(ar); trees.append(("fn",name,args))
        if ar>=2:
            for pos in range(ar):
                a2=list(args); a2[pos]=("empty",); trees.append(("fn",name,a2))
for r in range(1,4):
    for c in range(1,4):
        lv=distinct_leaves(r*c); trees.append(("arr",[lv[i*c:(i+1)*c] for i in range(r)]))
print("trees",len(trees))
# ---- inject, save, reopen, read
t0=time.time()
PER=4000
viol=collections.Counter(); ex={}
for base in range(0,len(trees),PER):
    chunk=trees[base:base+PER]
    d=Document(num_rows=len(chunk)+1,num_cols=3); tb=d.sheets[0].tables[0]; m=d._model; tid=tb._table_id
    m._formulas.add_table(tid)
    for i,tr in enumerate(chunk):
        out=[]; emit(tr,out)
        key=m._formulas.lookup_key(tid,TSCE.FormulaArchive(AST_node_array=T(AST_node=out)))
        tb.write(i+1,2,0); tb.cell(i+1,2)._formula_id=key
    d.save("/root/scratch/f8.numbers")
    d2=Document("/root/scratch/f8.numbers"); tb2=d2.sheets[0].tables[0]
    for i,tr in enumerate(chunk):
        c=tb2.cell(i+1,2)
        try: txt=c.formula
        except Exception as e:
            k=("EXC-read",type(e).__name__); viol[k]+=1; ex.setdefault(k,(tr,str(e))); continue
        try: got=parse(txt)
        except Exception as e:
            k=("unparsable",str(e)[:30]); viol[k]+=1; ex.setdefault(k,(tr,txt)); continue
        want=norm(tr,None)
        if got!=want:
            k=("mismatch",tr[0], tr[1] if tr[0] in("bin","fn") and tr[0]=="bin" else ""); viol[k]+=1; ex.setdefault(k,(want,txt,got))
print("time",time.time()-t0)
for k,v in sorted(viol.items(),key=str): print(k,v,"\n     ",str(ex[k])[:400])
