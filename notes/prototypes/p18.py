import itertools, collections, time, re
from numbers_parser.tokenizer import Tokenizer, TokenizerError
ALPHA=list("AE10 .+-*/^&=<>%×÷≥≤≠(){},;:\"'#$!?")
res=collections.Counter(); ex={}
t0=time.time(); n=0
def quoted_segments(s):
    # maximal well-formed quoted segments by independent left-to-right scan
    out=[];i=0
    while i<len(s):
        if s[i] in "\"'":
            q=s[i]; j=i+1
            while True:
                k=s.find(q,j)
                if k<0: j=None;break
                if k+1<len(s) and s[k+1]==q: j=k+2; continue
                j=k+1; break
            if j is None: return out   # unterminated: no claim
            out.append((i,j)); i=j
        else: i+=1
    return out
for L in range(0,4):
    for tup in itertools.product(ALPHA,repeat=L):
        s="".join(tup); n+=1
        try: tk=Tokenizer(s)
        except TokenizerError: res["TokenizerError"]+=1; continue
        except Exception as e:
            k=("ESC",type(e).__name__); res[k]+=1; ex.setdefault(k,s); continue
        vals=[t.value for t in tk.items]
        if "".join(vals)!=s: res["lossy"]+=1; ex.setdefault("lossy",(s,vals)); continue
        # quoted not split
        pos=0; spans=[]
        for v in vals: spans.append((pos,pos+len(v))); pos+=len(v)
        for (a,b) in quoted_segments(s):
            if not any(x<=a and b<=y for x,y in spans): res["split-quote"]+=1; ex.setdefault("split-quote",(s,vals)); break
        else: res["ok"]+=1
print(n,round(time.time()-t0,1),dict(res)); print(ex)
