import warnings, collections, time
warnings.simplefilter("ignore")
from numbers_parser import Document
NAMES=[None,"Table 2","table 2","Sheet 2","X","","É"]
def enabled(ref):
    ev=[]
    if len(ref)<4:
        for n in NAMES: ev.append(("add_sheet",n))
    for si,(sn,tabs) in enumerate(ref):
        if len(tabs)<4:
            for n in NAMES: ev.append(("add_table",si,n))
    return ev
def apply_ref(ref,ev):
    if ev[0]=="add_sheet":
        n=ev[1]
        names=[s[0].lower() for s in ref]
        if n is None:
            k=1
            while f"sheet {k}" in names: k+=1
            n=f"Sheet {k}"
        elif n.lower() in names: return "IndexError"
        ref.append([n,["Table 1"]]); return None
    _,si,n=ev; tabs=ref[si][1]; names=[t.lower() for t in tabs]
    if n is None:
        k=1
        while f"table {k}" in names: k+=1
        n=f"Table {k}"
    elif n.lower() in names: return "IndexError"
    tabs.append(n); return None
def apply_impl(d,ev):
    try:
        if ev[0]=="add_sheet": d.add_sheet(ev[1]) if ev[1] is not None else d.add_sheet()
        else: d.sheets[ev[1]].add_table(ev[2]) if ev[2] is not None else d.sheets[ev[1]].add_table()
        return None
    except IndexError: return "IndexError"
def build(hist):
    d=Document(); ref=[["Sheet 1",["Table 1"]]]
    for ev in hist:
        a=apply_impl(d,ev); b=apply_ref(ref,ev)
        if a!=b: return d,ref,("outcome",ev,a,b)
    return d,ref,None
def observe(d): return [[s.name,[t.name for t in s.tables]] for s in d.sheets]
def lookups(d,ref):
    errs=[]
    colls=[(d.sheets,[s[0] for s in ref])]+[(d.sheets[i].tables,ref[i][1]) for i in range(len(ref))]
    for coll,names in colls:
        n=len(names)
        if len(coll)!=n: errs.append(("len",len(coll),n))
        for i in range(-2*n,2*n+1):
            try: got=coll[i].name
            except IndexError: got="IndexError"
            except Exception as e: got=type(e).__name__
            want=names[i] if -n<=i<n else "IndexError"
            if got!=want: errs.append(("index",i,got,want))
        for nm in set(names)|{"nope","TABLE 1"}:
            try: got=coll[nm].name
            except KeyError: got="KeyError"
            want=nm if nm in names else "KeyError"
            if got!=want: errs.append(("name",nm,got,want))
    return errs
seen=set(); frontier=[()]; trans=0; viol=collections.Counter(); ex={}
t0=time.time()
for depth in range(1,4):
    nxt=[]
    for hist in frontier:
        _,ref,_=build(hist)
        for ev in enabled(ref):
            trans+=1
            d,ref2,err=build(hist+(ev,))
            if err: viol[err[0]]+=1; ex.setdefault(err[0],(hist,err)); continue
            if observe(d)!=ref2: viol["observe"]+=1; ex.setdefault("observe",(hist+(ev,),observe(d),ref2)); continue
            le=lookups(d,ref2)
            if le: viol["lookup:"+le[0][0]]+=1; ex.setdefault("lookup:"+le[0][0],(hist+(ev,),le[:2]))
            key=repr(ref2)
            if key not in seen:
                seen.add(key); nxt.append(hist+(ev,))
                if depth<=2:
                    d.save("/root/scratch/n19.numbers")
                    if observe(Document("/root/scratch/n19.numbers"))!=ref2: viol["reload"]+=1; ex.setdefault("reload",(hist+(ev,),))
    frontier=nxt
    print("depth",depth,"states",len(seen),"transitions",trans,"time",round(time.time()-t0,1),dict(viol))
for k,v in ex.items(): print(k,str(v)[:300])
