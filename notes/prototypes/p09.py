import warnings, itertools, collections, re, time
warnings.simplefilter("ignore")
from numbers_parser import Document
from numbers_parser.generated import TSCEArchives_pb2 as TSCE
from numbers_parser.numbers_uuid import NumbersUUID
from numbers_parser.xrefs import xl_col_to_name
N=TSCE.ASTNodeArrayArchive.ASTNodeArchive; T=TSCE.ASTNodeArrayArchive
def xinfo(n,m,tgt):
    if tgt is not None: n.AST_cross_table_reference_extra_info.table_id.CopyFrom(NumbersUUID(m.table_base_id(tgt)).protobuf4)
def cellnode(m,r,c,ra,ca,tgt):
    n=N(AST_node_type=T.CELL_REFERENCE_NODE); n.AST_row.row=r; n.AST_row.absolute=ra; n.AST_column.column=c; n.AST_column.absolute=ca; xinfo(n,m,tgt); return n
def rownode(m,r,ra,tgt):
    n=N(AST_node_type=T.CELL_REFERENCE_NODE); n.AST_row.row=r; n.AST_row.absolute=ra; xinfo(n,m,tgt); return n
def colnode(m,c,ca,tgt):
    n=N(AST_node_type=T.CELL_REFERENCE_NODE); n.AST_column.column=c; n.AST_column.absolute=ca; xinfo(n,m,tgt); return n
def rangenode(m,host,r0,c0,r1,c1,abs4,tgt):
    # abs4=(r0abs,c0abs,r1abs,c1abs); build colon tract as Numbers does: absolute list and relative list per axis
    n=N(AST_node_type=T.COLON_TRACT_NODE)
    ra0,ca0,ra1,ca1=abs4; hr,hc=host
    sb=n.AST_sticky_bits; sb.begin_row_is_absolute=ra0; sb.begin_column_is_absolute=ca0; sb.end_row_is_absolute=ra1; sb.end_column_is_absolute=ca1
    ct=n.AST_colon_tract; ct.preserve_rectangular=True
    def axis(rel,absl,b,e,ab,ae,h):
        # same absoluteness needed per list entry: one entry each
        if ab and ae:
            x=absl.add(); x.range_begin=b; 
            if e!=b: x.range_end=e
        elif not ab and not ae:
            x=rel.add(); x.range_begin=b-h
            if e!=b: x.range_end=e-h
        else: return False
        return True
    ok=axis(ct.relative_row,ct.absolute_row,r0,r1,ra0,ra1,hr) and axis(ct.relative_column,ct.absolute_column,c0,c1,ca0,ca1,hc)
    xinfo(n,m,tgt)
    return n if ok else None
def put(doc,table,r,c,node):
    m=doc._model; tid=table._table_id; m._formulas.add_table(tid)
    key=m._formulas.lookup_key(tid,TSCE.FormulaArchive(AST_node_array=T(AST_node=[node])))
    table.write(r,c,0); table.cell(r,c)._formula_id=key; m._cache.pop("formula_ast",None)
# ---- configurations
def build(cfg):
    # cfg: list of sheets, each list of (table_name, labels_kind)
    sheets=cfg
    d=Document(sheet_name="S1",table_name="tmp0",num_rows=4,num_cols=4)
    tabs=[]
    for si,tl in enumerate(sheets):
        if si>0: d.add_sheet(f"S{si+1}",table_name="tmp0",num_rows=4,num_cols=4)
        sh=d.sheets[si]
        for ti,(tn,lab) in enumerate(tl):
            if ti>0: sh.add_table(f"tmp{ti}",num_rows=4,num_cols=4)
            tabs.append((si,ti,sh.tables[ti],tn,lab))
    for si,ti,t,tn,lab in tabs: t.name=tn   # rename can create duplicates
    for si,ti,t,tn,lab in tabs:
        if lab=="none": t.num_header_rows=0; t.num_header_cols=0
        else:
            for c in range(1,4): t.write(0,c,{"same":f"c{c}","uniq":f"{tn}{si}{ti}c{c}","dup":"dupc"}[lab])
            for r in range(1,4): t.write(r,0,{"same":f"r{r}","uniq":f"{tn}{si}{ti}r{r}","dup":"dupr"}[lab])
    return d,tabs
def labels(t):
    hr,hc=t.num_header_rows,t.num_header_cols
    rows={r:(t.cell(r,hc-1).formatted_value if hc>0 else None) for r in range(t.num_rows)}
    cols={c:(t.cell(hr-1,c).formatted_value if hr>0 else None) for c in range(t.num_cols)}
    return rows,cols
A1=re.compile(r"(\$?)([A-Z]+)(\$?)(\d+)$")
def col_index(s):
    n=0
    for ch in s: n=n*26+ord(ch)-64
    return n-1
def resolve_table(tabs,host,quals):
    hs=host[0]
    if len(quals)==0: return [host]
    if len(quals)==1:
        cand=[x for x in tabs if x[0]==hs and x[3]==quals[0]]
        if cand: return cand
        return [x for x in tabs if x[3]==quals[0]]
    return [x for x in tabs if f"S{x[0]+1}"==quals[0] and x[3]==quals[1]]
def resolve_label(tabs,host,quals,name):
    """return list of (table,axis,idx) matching"""
    def in_table(x):
        rows,cols=labels(x[2]); hr,hc=x[2].num_header_rows,x[2].num_header_cols
        return [(x,"row",r) for r,l in rows.items() if r>=hr and l==name]+[(x,"col",c) for c,l in cols.items() if c>=hc and l==name]
    if quals:
        out=[]
        for x in resolve_table(tabs,host,quals): out+=in_table(x)
        return out
    m=in_table(host)
    if m: return m
    m=[y for x in tabs if x[0]==host[0] for y in in_table(x)]
    if m: return m
    return [y for x in tabs for y in in_table(x)]
viol=collections.Counter(); ex={}
def rec(k,info): viol[k]+=1; ex.setdefault(k,info)
CFGS=[]
for lab in ("same","uniq","none","dup"):
    CFGS.append([[("A",lab),("B",lab)],[("A",lab),("C",lab)]])
    CFGS.append([[("A",lab),("A2",lab)],[("B",lab)],[("A",lab),("B",lab)]])
CFGS.append([[("A","same"),("B","uniq")],[("A","uniq"),("C","same")]])
n=0; t0=time.time()
for cfg in CFGS:
    d,tabs=build(cfg); m=d._model
    for host in tabs:
        ht=host[2]
        for tgt in tabs:
            tg=None if tgt is host else tgt[2]._table_id
            for (hr,hc) in ((1,1),(2,3),(3,2)):
                cases=[]
                for (tr,tc) in ((1,1),(3,3),(2,1)):
                    for ra,ca in itertools.product((False,True),repeat=2):
                        cases.append(("cell",(tr,tc,ra,ca),cellnode(m,tr if ra else tr-hr, tc if ca else tc-hc, ra,ca,tg)))
                    for ra in (False,True): cases.append(("row",(tr,ra),rownode(m,tr if ra else tr-hr,ra,tg)))
                    for ca in (False,True): cases.append(("col",(tc,ca),colnode(m,tc if ca else tc-hc,ca,tg)))
                for (r0,c0,r1,c1) in ((1,1,2,3),(2,2,3,3),(1,2,1,3)):
                    for ab in ((False,)*4,(True,)*4,(True,False,True,False),(False,True,False,True)):
                        nd=rangenode(m,(hr,hc),r0,c0,r1,c1,ab,tg)
                        if nd is not None: cases.append(("range",(r0,c0,r1,c1,ab),nd))
                for kind,spec,node in cases:
                    put(d,ht,hr,hc,node); n+=1
                    try: txt=ht.cell(hr,hc).formula
                    except Exception as e: rec(("EXC",kind,type(e).__name__),(cfg,host[3],tgt[3],spec,str(e)[:60])); continue
                    parts=txt.split("::"); quals=parts[:-1]; ref=parts[-1]
                    # table resolution
                    def chk_table():
                        res=resolve_table(tabs,host,quals)
                        if len(res)!=1 or res[0] is not tgt: rec(("table",kind),(cfg,f"host S{host[0]+1}/{host[3]}",f"tgt S{tgt[0]+1}/{tgt[3]}",txt,[f"S{x[0]+1}/{x[3]}" for x in res]))
                    if kind=="cell":
                        mm=A1.match(ref)
                        if not mm: rec(("cell-form",),(txt,)); continue
                        chk_table()
                        tr,tc,ra,ca=spec
                        if (col_index(mm.group(2)),int(mm.group(4))-1)!=(tc,tr) or (mm.group(1)=="$")!=ca or (mm.group(3)=="$")!=ra: rec(("cell-coord",),(spec,(hr,hc),txt))
                    elif kind=="range":
                        a,_,b=ref.partition(":"); ma,mb=A1.match(a),A1.match(b)
                        if not(ma and mb): rec(("range-form",),(txt,spec)); continue
                        chk_table()
                        r0,c0,r1,c1,ab=spec
                        got=(int(ma.group(4))-1,col_index(ma.group(2)),int(mb.group(4))-1,col_index(mb.group(2)),(ma.group(3)=="$",ma.group(1)=="$",mb.group(3)=="$",mb.group(1)=="$"))
                        if got!=(r0,c0,r1,c1,ab): rec(("range-coord",),(spec,(hr,hc),txt,got))
                    else:
                        idx,ab=spec
                        body=ref; isabs=body.startswith("$")
                        if kind=="row" and re.fullmatch(r"\$?\d+:\$?\d+",body):
                            chk_table(); a,b=body.split(":")
                            if not(int(a.lstrip("$"))-1==idx==int(b.lstrip("$"))-1 and a.startswith("$")==ab): rec(("row-coord",),(spec,(hr,hc),txt))
                        elif kind=="col" and re.fullmatch(r"\$?[A-Z]+",body) and not resolve_label(tabs,host,quals,body.lstrip("$")):
                            chk_table()
                            if not(col_index(body.lstrip("$"))==idx and isabs==ab): rec(("col-coord",),(spec,(hr,hc),txt))
                        else:
                            name=body[1:] if isabs else body
                            res=resolve_label(tabs,host,quals,name)
                            if len(res)!=1 or res[0][0] is not tgt or res[0][1]!=kind or res[0][2]!=idx:
                                rec(("label",kind),(cfg,f"host S{host[0]+1}/{host[3]}",f"tgt S{tgt[0]+1}/{tgt[3]}",spec,txt,[(f"S{x[0][0]+1}/{x[0][3]}",x[1],x[2]) for x in res]))
                            if isabs!=ab: rec(("label-abs",kind),(spec,txt))
print("refs",n,"time",round(time.time()-t0,1))
for k,v in sorted(viol.items(),key=str): print(k,v,"\n    ",str(ex[k])[:600])
# sanity: show a few rendered forms for the last config
d,tabs=build(CFGS[1]); m=d._model
seen=collections.Counter()
for host in tabs:
    for tgt in tabs:
        tg=None if tgt is host else tgt[2]._table_id
        put(d,host[2],1,1,rownode(m,1,False,tg)); a=host[2].cell(1,1).formula
        put(d,host[2],1,1,cellnode(m,1,1,True,False,tg)); b=host[2].cell(1,1).formula
        print(f"S{host[0]+1}/{host[3]} -> S{tgt[0]+1}/{tgt[3]}: {a!r} {b!r}")
