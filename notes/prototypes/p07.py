import warnings, struct, time
warnings.simplefilter("ignore")
from numbers_parser import Document
import val
def tiles_check(path):
    objs,where,hdr,files,names=val.load(path)
    out=[]
    for i,m in objs.items():
        if type(m).__name__=="TableModelArchive":
            bds=m.base_data_store
            tot=0
            for tl in bds.tiles.tiles:
                tile=objs[tl.tile.identifier]; tot+=tile.numrows
                idx=[r.tile_row_index for r in tile.rowInfos]
                if len(set(idx))!=len(idx) or any(x>=tile.numrows for x in idx): out.append(("rowidx",m.table_name))
                for r in tile.rowInfos:
                    offs=struct.unpack(f"<{len(r.cell_offsets)//2}h",r.cell_offsets)
                    if len(offs)!=m.number_of_columns: out.append(("offsets-len",m.table_name,len(offs),m.number_of_columns)); break
                    pos=[o for o in offs if o>=0]
                    if pos!=sorted(pos) or len(set(pos))!=len(pos): out.append(("offsets-order",m.table_name))
                    mult=4 if r.has_wide_offsets else 1
                    if any(o*mult>=len(r.cell_storage_buffer) for o in pos): out.append(("offsets-oob",m.table_name))
                    if r.cell_count!=len(pos): out.append(("cell_count",m.table_name))
            if tot!=m.number_of_rows: out.append(("numrows",m.table_name,tot,m.number_of_rows))
            hb=objs[bds.rowHeaders.buckets[0].identifier]
            if len(hb.headers)!=m.number_of_rows: out.append(("row-headers",len(hb.headers),m.number_of_rows))
            cb=objs[bds.columnHeaders.identifier]
            if len(cb.headers)!=m.number_of_columns: out.append(("col-headers",len(cb.headers),m.number_of_columns))
    return out
for shape in [(1,1),(255,2),(256,2),(257,2),(512,2),(513,3),(2,256),(2,257),(2,1000)]:
    t0=time.time()
    d=Document(num_rows=shape[0],num_cols=shape[1]); t=d.sheets[0].tables[0]
    t.write(shape[0]-1,shape[1]-1,"last"); t.write(0,0,1.5)
    p="/root/scratch/s07.numbers"; d.save(p)
    dg=val.dangling(p); tc=tiles_check(p)
    d2=Document(p); ok=(d2.sheets[0].tables[0].cell(shape[0]-1,shape[1]-1).value=="last")
    print(shape,"dangling",len(dg[0]),"unlisted",[x for x in dg[1] if "Metadata" not in x],"maxid<=last",dg[2]<=dg[3],"tiles",tc[:3],"reopen",ok,round(time.time()-t0,1),"s")
