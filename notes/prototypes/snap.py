import warnings, glob, os, sys, time, traceback
from numbers_parser import Document
from numbers_parser.cell import MergedCell, RichTextCell, ErrorCell

def cell_snap(c, with_fmt=True):
    d = {"t": type(c).__name__, "v": repr(c.value)}
    try: d["f"] = c.formula
    except Exception as e: d["f"] = "EXC:"+type(e).__name__
    if with_fmt:
        try: d["fv"] = c.formatted_value
        except Exception as e: d["fv"] = "EXC:"+type(e).__name__+str(e)[:40]
    if isinstance(c, RichTextCell):
        d["b"] = repr(c.bullets); d["h"]=repr(c.hyperlinks)
    d["m"] = (c.is_merged, c.size, getattr(c,"rect",None))
    return d

def doc_snap(doc):
    out=[]
    for s in doc.sheets:
        for t in s.tables:
            rows=[[cell_snap(c) for c in r] for r in t.rows()]
            out.append({"sheet":s.name,"table":t.name,"nr":t.num_rows,"nc":t.num_cols,"rows":rows,"mr":t.merge_ranges})
    return out

def diff(a,b,limit=5):
    out=[]
    if len(a)!=len(b): return [f"table count {len(a)} vs {len(b)}"]
    for ta,tb in zip(a,b):
        for k in ("sheet","table","nr","nc","mr"):
            if ta[k]!=tb[k]: out.append(f"{ta['sheet']}/{ta['table']} {k}: {ta[k]!r} -> {tb[k]!r}")
        if ta["nr"]==tb["nr"] and ta["nc"]==tb["nc"]:
            for r,(ra,rb) in enumerate(zip(ta["rows"],tb["rows"])):
                for c,(ca,cb) in enumerate(zip(ra,rb)):
                    if ca!=cb:
                        ks=[k for k in ca if ca.get(k)!=cb.get(k)]
                        out.append(f"{ta['table']}[{r},{c}] "+"; ".join(f"{k}: {ca.get(k)!r} -> {cb.get(k)!r}" for k in ks))
    return out

if __name__=="__main__":
    paths = sys.argv[1:] or sorted(glob.glob("/repo/tests/data/*.numbers"))
    tot=0
    for p in paths:
        with warnings.catch_warnings():
            warnings.simplefilter("ignore")
            try:
                d=Document(p)
            except Exception as e:
                continue
            try:
                s0=doc_snap(d)
                d.save("/root/scratch/rs.numbers")
                d1=Document("/root/scratch/rs.numbers")
                s1=doc_snap(d1)
                d1.save("/root/scratch/rs2.numbers")
                s2=doc_snap(Document("/root/scratch/rs2.numbers"))
            except Exception as e:
                print(os.path.basename(p),"EXC",type(e).__name__,str(e)[:100]); traceback.print_exc(limit=3); continue
        d01=diff(s0,s1); d12=diff(s1,s2)
        tot+=len(d01)
        print(f"{os.path.basename(p):40s} diffs01={len(d01)} diffs12={len(d12)}")
        for x in d01[:4]: print("    01:",x[:300])
        for x in d12[:2]: print("    12:",x[:300])
    print("total",tot)
