import warnings, re, collections, math
warnings.simplefilter("ignore")
from decimal import Decimal
from fractions import Fraction
from numbers_parser import Document, NegativeNumberStyle, FractionAccuracy
from numbers_parser.currencies import CURRENCIES, CURRENCY_SYMBOLS
d=Document(num_rows=2,num_cols=2); t=d.sheets[0].tables[0]
def fmt(v, kind, **kw):
    t.write(0,0,v); t.set_cell_formatting(0,0,kind,**kw); return t.cell(0,0).formatted_value
def dec(x): return Decimal(repr(float(x)))
viol=collections.Counter(); ex={}
def rec(k,info): viol[k]+=1; ex.setdefault(k,info)
V=[0.0,-0.0,0.5,2.5,-0.5,0.005,0.015,9.5,99.95,999.995,-999.995,0.004,-0.004,1.0,1000.0,1e6,1e12,0.1,1e-6,1234567.891,-1234567.891,12.0,0.29,1/3,-1/3,123.456]
# scientific
for x in V:
    for p in range(0,11):
        s=fmt(x,"scientific",decimal_places=p)
        m=re.fullmatch(r"(-?)(\d)(?:\.(\d+))?E([+-]\d\d+)",s)
        if not m: rec(("sci","parse"),(x,p,s)); continue
        if len(m.group(3) or "")!=p: rec(("sci","places"),(x,p,s))
        val=Decimal(s)
        xv=dec(x)
        unit=Decimal(1).scaleb(int(m.group(4))-p)
        if abs(val-xv)>unit/2: rec(("sci","value"),(x,p,s))
# currency
codes=list(CURRENCIES)[:12]+["USD","GBP","EUR","JPY"]
for x in V:
    for code in codes:
        for acc in (False,True):
            for sep in (False,True):
                for p in (0,2,3):
                    try: s=fmt(x,"currency",currency_code=code,use_accounting_style=acc,show_thousands_separator=sep,decimal_places=p)
                    except Exception as e: rec(("cur","EXC",type(e).__name__),(x,code,str(e)[:50])); continue
                    sym=CURRENCY_SYMBOLS.get(code, code+" ")
                    if not s.startswith(sym): rec(("cur","symbol"),(x,code,s)); continue
                    r=s[len(sym):]
                    if acc:
                        if not r.startswith("\t"): rec(("cur","tab"),(x,code,s)); continue
                        r=r[1:]
                    neg=False
                    if r.startswith("(") and r.endswith(")"): neg=True; r=r[1:-1]
                    if r.startswith("-"): neg=True; r=r[1:]
                    if sep and not re.fullmatch(r"\d{1,3}(,\d{3})*(\.\d+)?",r): rec(("cur","grouping"),(x,code,acc,sep,p,s)); continue
                    r=r.replace(",","")
                    if not re.fullmatch(r"\d+(\.\d+)?",r): rec(("cur","parse"),(x,code,acc,sep,p,s)); continue
                    shown=len(r.split(".")[1]) if "." in r else 0
                    if shown!=p: rec(("cur","places",sep),(x,code,acc,sep,p,s))
                    val=Decimal(r)*(-1 if neg else 1)
                    if abs(val-dec(x))>Decimal(1).scaleb(-p)/2: rec(("cur","value"),(x,code,acc,sep,p,s))
# base
DIG="0123456789ABCDEFGHIJKLMNOPQRSTUVWXYZ"
IV=[0,1,-1,2,-2,7,8,-8,15,16,255,-255,256,1000,-1000,2**31-1,2**31,-2**31,-2**31-1,2**32,-2**32,2**40,-2**40,10**15-1,-(10**15-1),10.4,10.5,10.6,-10.5]
for x in IV:
    for b in range(2,37):
        for places in range(0,9):
            for minus in ((True,False) if b in (2,8,16) else (True,)):
                try: s=fmt(x,"base",base=b,base_places=places,base_use_minus_sign=minus)
                except Exception as e: rec(("base","EXC",type(e).__name__),(x,b,places,minus,str(e)[:50])); continue
                xi=round(x)  # format shows integers; accept either rounding on .5
                cand={math.floor(x),math.ceil(x)} if abs(x-round(x))==0.5 else {round(x)}
                body=s[1:] if s.startswith("-") else s
                if not body or any(ch not in DIG[:b] for ch in body): rec(("base","digits"),(x,b,places,minus,s)); continue
                if len(body)<places: rec(("base","padding"),(x,b,places,minus,s))
                n=int(body,b)
                if s.startswith("-"):
                    if not minus: rec(("base","minus-in-2c"),(x,b,places,minus,s))
                    ok = -n in cand
                elif minus or x>=0:
                    ok = n in cand
                else:
                    # two's complement: width in bits
                    bits=len(body)*{2:1,8:3,16:4}[b]
                    ok = any((n - (1<<w)) in cand for w in range(32,bits+1)) and True
                if not ok: rec(("base","value",minus,b if not minus else "any"),(x,b,places,minus,s))
# fraction
for x in [0.0,0.5,-0.5,0.25,0.75,1.75,-1.75,0.333,1/3,2/3,0.1,0.9,0.99,0.999,2.0,-2.0,3.14159,-3.14159,10.05,0.01,0.004,123.456,-0.05]:
    for a in FractionAccuracy:
        s=fmt(x,"fraction",fraction_accuracy=a)
        m=re.fullmatch(r"(-?)(?:(\d+) )?(\d+)/(\d+)|(-?\d+)",s)
        if not m: rec(("frac","parse"),(x,a.name,s)); continue
        if m.group(5) is not None: val=Fraction(int(m.group(5)))
        else:
            whole=int(m.group(2) or 0); val=whole+Fraction(int(m.group(3)),int(m.group(4)))
            if m.group(1): val=-val
        xv=Fraction(dec(x))
        if a.value<1000:
            den=a.value
            if m.group(5) is None and int(m.group(4))!=den: rec(("frac","denominator"),(x,a.name,s))
            if m.group(5) is None and int(m.group(3))>=int(m.group(4)): rec(("frac","improper"),(x,a.name,s))
            if abs(val-xv)>Fraction(1,2*den): rec(("frac","value-fixed"),(x,a.name,s,float(val)))
        else:
            digits=0x100000000-a.value
            if m.group(5) is None and len(m.group(4))>digits: rec(("frac","digits"),(x,a.name,s))
            best=Fraction(xv).limit_denominator(10**digits-1)
            if abs(val-xv)>abs(best-xv)+Fraction(1,10**12): rec(("frac","value-digits"),(x,a.name,s,float(val)))
print("violations:")
for k,v in sorted(viol.items(),key=str): print("  ",k,v,ex[k])
