import warnings, os, struct, time, collections
warnings.simplefilter("ignore")
import snappy
from numbers_parser.iwafile import IWAFile, IWACompressedChunk, IWAArchiveSegment, is_iwa_file
from numbers_parser.generated import TSTArchives_pb2 as TST
from numbers_parser.generated.TSPArchiveMessages_pb2 import ArchiveInfo
from numbers_parser.generated.mapping import NAME_ID_MAP
import pkgproto as P
def seg(ident,payload_len,compressible=True):
    ri=TST.TileRowInfo(tile_row_index=0,cell_count=0,cell_storage_buffer_pre_bnc=b"",cell_offsets_pre_bnc=b"",cell_storage_buffer=(b"a"*payload_len if compressible else os.urandom(payload_len)),cell_offsets=b"")
    tile=TST.Tile(maxColumn=0,maxRow=0,numCells=0,numrows=1,rowInfos=[ri])
    body=tile.SerializeToString()
    ai=ArchiveInfo(identifier=ident); mi=ai.message_infos.add(); mi.type=NAME_ID_MAP["TST.Tile"]; mi.version.extend([1,0,5]); mi.length=len(body)
    return [ai,[body]]
res=collections.Counter(); ex={}
for total in [0,1,100,65535,65536,65537,131071,131072,131073,196609,300000]:
    for nseg in (1,2,50):
        for comp in (True,False):
            segs=[]
            if total>0:
                per=max(0,total//nseg-40)
                segs=[seg(1000+i,per,comp) for i in range(nseg)]
            stream=P.join(segs)
            buf=P.frame(stream)
            assert is_iwa_file(buf)
            try:
                f=IWAFile.from_buffer(buf,"x.iwa")
                out=f.to_buffer()
            except Exception as e:
                res[("EXC",type(e).__name__)]+=1; ex.setdefault(("EXC",type(e).__name__),(total,nseg,comp,str(e)[:80])); continue
            if P.unframe(out)!=stream: res["stream-diff"]+=1; ex.setdefault("stream-diff",(total,nseg,comp,len(stream),len(P.unframe(out))))
            # container rules
            d=out; ok=True
            while d:
                if d[0]!=0: ok=False;break
                n=struct.unpack("<I",d[1:4]+b"\0")[0]
                if len(d)<4+n: ok=False;break
                try: u=snappy.uncompress(d[4:4+n])
                except Exception: u=d[4:4+n]
                if len(u)>65536: ok=False;break
                d=d[4+n:]
            res["rules-ok" if ok else "rules-bad"]+=1
            # rechunk at boundary family, stored and compressed
            L=len(stream)
            for cut in sorted({1,2,L//2,65535,65536,65537,L-1}):
                if 0<cut<L:
                    for stored in (False,True):
                        b2=P.frame(stream,[cut],stored=stored)
                        try:
                            o2=IWAFile.from_buffer(b2,"x.iwa").to_buffer()
                            if P.unframe(o2)!=stream: res["rechunk-diff"]+=1; ex.setdefault("rechunk-diff",(total,nseg,comp,cut,stored))
                            else: res["rechunk-ok"]+=1
                        except Exception as e:
                            res[("rechunk-EXC",type(e).__name__)]+=1; ex.setdefault(("rechunk-EXC",type(e).__name__),(total,nseg,comp,cut,stored,str(e)[:100]))
print(dict(res)); print(ex)
# diagnose
segs=[seg(1000,0,True)]; stream=P.join(segs); print(len(stream), stream[:40])
for cut in (1,2,len(stream)//2,len(stream)-1):
    for piece in (stream[:cut],stream[cut:]):
        try: u=snappy.uncompress(piece); print(cut,len(piece),"snappy-decodable ->",u[:10])
        except Exception as e: print(cut,len(piece),"not decodable")
