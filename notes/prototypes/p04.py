import warnings, itertools, collections, time, struct
warnings.simplefilter("ignore")
from datetime import datetime, timedelta
from numbers_parser.cell import Cell, NumberCell, TextCell, DateCell, BoolCell, DurationCell, EmptyCell, RichTextCell, CellStorageFlags
from numbers_parser.constants import CellType
class Stub:
    def __init__(s): s.strings={}; s.rev={}
    def table_string(s,tid,key): return s.strings.get(key,"<missing>")
    def table_string_key(s,tid,val):
        if val not in s.rev: k=len(s.rev)+1000; s.rev[val]=k; s.strings[k]=val
        return s.rev[val]
    def table_rich_text(s,tid,key): return {"text":f"rich{key}","bulleted":False,"bullets":[],"bullet_chars":[],"hyperlinks":[]}
    class MC:
        def get(s,rc): return False
    def merge_cells(s,tid): return Stub.MC()
stub=Stub()
OPT=["_rich_id","_cell_style_id","_text_style_id","_formula_id","_control_id","_suggest_id","_num_format_id","_currency_format_id","_date_format_id","_duration_format_id","_text_format_id","_bool_format_id"]
def mk(kind):
    if kind=="number": return NumberCell(0,0,1234.5)
    if kind=="currency": return NumberCell(0,0,99.5,cell_type=CellType.CURRENCY)
    if kind=="text": return TextCell(0,0,"hello")
    if kind=="date": return DateCell(0,0,datetime(2020,2,29,12,0,1))
    if kind=="bool": return BoolCell(0,0,True)
    if kind=="duration": return DurationCell(0,0,timedelta(seconds=3661.5))
    if kind=="empty": return EmptyCell(0,0)
    if kind=="rich": 
        c=RichTextCell(0,0,{"text":"rich777","bulleted":False,"bullets":[],"bullet_chars":[],"hyperlinks":[]}); c._rich_id=777; return c
KINDS=["number","currency","text","date","bool","duration","empty","rich"]
viol=collections.Counter(); ex={}
t0=time.time(); n=0
for kind in KINDS:
    for mask in range(1<<12):
        c=mk(kind); c._model=stub; c._table_id=1
        want={}
        for i,a in enumerate(OPT):
            if mask>>i&1:
                if kind=="rich" and a=="_rich_id": want[a]=777; continue
                v=0x1100+i*0x11; setattr(c,a,v); want[a]=v
        if kind=="rich": want["_rich_id"]=777
        buf=c._to_buffer(); n+=1
        try:
            c2=Cell._from_storage(1,0,0,bytes(buf),stub)
        except Exception as e:
            k=("EXC",kind,type(e).__name__); viol[k]+=1; ex.setdefault(k,(mask,str(e)[:60])); continue
        if type(c2).__name__!=type(c).__name__ : viol[("kind",kind)]+=1; ex.setdefault(("kind",kind),(mask,type(c2).__name__))
        if kind not in("empty",) and c2.value!=c.value: viol[("value",kind)]+=1; ex.setdefault(("value",kind),(mask,c2.value,c.value))
        for a in OPT:
            if getattr(c2,a)!=want.get(a):
                k=("attr",kind,a); viol[k]+=1; ex.setdefault(k,(bin(mask),getattr(c2,a),want.get(a)))
        flags=struct.unpack("<I",buf[8:12])[0]
        if len(buf)%4!=0: viol[("len%4",kind)]+=1
print("enc->dec records",n,"time",round(time.time()-t0,1))
for k,v in sorted(viol.items(),key=str): print("  ",k,v,ex.get(k))
# independent encoder over all 2^21 flag subsets (one kind: text), sentinel per bit
BITS=list(range(21))
SIZE={0:16,1:8,2:8}
INTERP={3:"_string_id",4:"_rich_id",5:"_cell_style_id",6:"_text_style_id",9:"_formula_id",10:"_control_id",12:"_suggest_id",13:"_num_format_id",14:"_currency_format_id",15:"_date_format_id",16:"_duration_format_id",17:"_text_format_id",18:"_bool_format_id"}
import random
t0=time.time(); bad=collections.Counter(); exb={}
N=1<<21
step=7  # prototype: every 7th subset
cnt=0
for flags in range(0,N,step):
    body=b""
    for b in BITS:
        if flags>>b&1:
            if b==0: body+=bytes(16)
            elif b in(1,2): body+=struct.pack("<d",1.0)
            else: body+=struct.pack("<i",0x5000+b)
    hdr=bytearray(12); hdr[0]=5; hdr[1]=0  # generic cell type -> EmptyCell, so no payload dependency
    hdr[8:12]=struct.pack("<I",flags)
    try: c=Cell._from_storage(1,0,0,bytes(hdr)+body,stub)
    except Exception as e:
        bad[("EXC",type(e).__name__)]+=1; exb.setdefault(("EXC",type(e).__name__),hex(flags)); continue
    cnt+=1
    for b,a in INTERP.items():
        want=(0x5000+b) if flags>>b&1 else None
        if getattr(c,a)!=want:
            bad[("field",a)]+=1; exb.setdefault(("field",a),(hex(flags),getattr(c,a),want))
print("indep->dec",cnt,"time",round(time.time()-t0,1),dict(bad)); print(exb)
