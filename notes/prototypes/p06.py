import warnings, sys, glob, os, time, struct
warnings.simplefilter("ignore")
from numbers_parser import Document
import pkgproto as P, snap
def t1_reverse(name,m,ident):
    if name=="TST.TableDataList" and len(m.entries)>1:
        es=[type(e).FromString(e.SerializeToString()) for e in m.entries]
        del m.entries[:]
        for e in reversed(es): m.entries.add().CopyFrom(e)
        return True
    return False
def make_t6():
    # add header records for empty rows: need table model first -> two pass; here: operate on HeaderStorageBucket with knowledge of number_of_rows via closure
    pass
def t5_narrow(name,m,ident):
    if name=="TST.Tile":
        ch=False
        for r in m.rowInfos:
            if r.has_wide_offsets and len(r.cell_storage_buffer)<32000:
                offs=struct.unpack(f"<{len(r.cell_offsets)//2}h",r.cell_offsets)
                r.cell_offsets=struct.pack(f"<{len(offs)}h",*[o*4 if o>=0 else o for o in offs]); r.has_wide_offsets=False; ch=True
            elif not r.has_wide_offsets:
                offs=struct.unpack(f"<{len(r.cell_offsets)//2}h",r.cell_offsets)
                if all(o%4==0 for o in offs if o>=0):
                    r.cell_offsets=struct.pack(f"<{len(offs)}h",*[o//4 if o>=0 else o for o in offs]); r.has_wide_offsets=True; ch=True
        return ch
    return False
paths=sys.argv[1:] or sorted(glob.glob("/repo/tests/data/*.numbers"))
tot=collections=None
import collections
res=collections.Counter()
for p in paths:
    if os.path.isdir(p): continue
    try: d0=Document(p)
    except Exception: continue
    try: s0=snap.doc_snap(d0)
    except Exception as e: print("snap exc",p,e); continue
    mem=P.read_pkg(p)
    for tname,fn in (("T1rev",t1_reverse),("T5flip",t5_narrow)):
        try:
            m2=P.transform(mem,fn)
            P.write_pkg("/root/scratch/t6.numbers",m2)
            s1=snap.doc_snap(Document("/root/scratch/t6.numbers"))
        except Exception as e:
            res[(tname,"EXC")]+=1; print(os.path.basename(p),tname,"EXC",type(e).__name__,str(e)[:80]); continue
        df=snap.diff(s0,s1)
        res[(tname,"ok" if not df else "DIFF")]+=1
        if df: print(os.path.basename(p),tname,len(df),df[:2])
print(dict(res))
