import warnings, re, collections, itertools, sys
warnings.simplefilter("ignore")
from decimal import Decimal, ROUND_HALF_UP
from fractions import Fraction
from numbers_parser import Document, NegativeNumberStyle, FractionAccuracy
from numbers_parser.currencies import CURRENCIES, CURRENCY_SYMBOLS
d=Document(num_rows=2,num_cols=2); t=d.sheets[0].tables[0]
def fmt(v, kind, **kw):
    t.write(0,0,v); t.set_cell_formatting(0,0,kind,**kw); return t.cell(0,0).formatted_value
V=[0.0,-0.0,0.5,1.5,2.5,-0.5,0.05,0.15,0.25,0.125,0.005,0.015,0.045,9.5,99.95,999.995,9999.9995,-999.995,0.004,-0.004,0.0049,
   1.0,10.0,100.0,1000.0,1e4,1e5,1e6,1e9,1e12,1e14,0.1,0.01,0.001,1e-4,1e-5,1e-6, 1234567.891,-1234567.891,1.234e-6,123456789012345.0,-123456789012345.0,
   12.0,50.0,52.0,0.12,0.29,0.57,1.005,2.675,1/3,2/3,-1/3,99999.5,999999.5,0.999,0.9999,0.99999, 1e15-1, 123.456, -123.456, 7.0,-7.0, 1e-10]
def dec(x): return Decimal(repr(float(x)))
viol=collections.Counter(); ex={}
def rec(k,info):
    viol[k]+=1; ex.setdefault(k,info)
def parse_decimal(s, places, sep, negstyle, x, pct=False):
    """returns Decimal or raises"""
    orig=s
    neg=False
    if pct:
        assert s.endswith("%"), "no %"; s=s[:-1]
    if s.startswith("(") and s.endswith(")"):
        assert negstyle>=2, "parens without style"; neg=True; s=s[1:-1]
    if s.startswith("-"):
        neg=True; s=s[1:]
    if sep:
        ip=s.split(".")[0]
        assert re.fullmatch(r"\d{1,3}(,\d{3})*",ip), f"bad grouping {orig!r}"
        s=s.replace(",","")
    assert re.fullmatch(r"\d+(\.\d+)?([eE][-+]?\d+)?",s), f"unparsable {orig!r}"
    val=Decimal(s)
    shown = len(s.split(".")[1]) if "." in s and "e" not in s.lower() else 0
    return (-val if neg else val), shown, neg
for x in V:
    for places in list(range(0,11))+[None]:
        for sep in (False,True):
            for ns in NegativeNumberStyle:
                for kind in ("number","percentage"):
                    kw=dict(show_thousands_separator=sep,negative_style=ns)
                    if places is not None: kw["decimal_places"]=places
                    try: s=fmt(x,kind,**kw)
                    except Exception as e:
                        rec(("EXC",kind,type(e).__name__),(x,kw,str(e)[:60])); continue
                    xv=dec(x)*(100 if kind=="percentage" else 1)
                    try:
                        val,shown,neg=parse_decimal(s,places,sep,int(ns),x,pct=(kind=="percentage"))
                    except AssertionError as e:
                        rec(("parse",kind,str(e).split(" ")[0]+" "+str(e).split(" ")[1] if " " in str(e) else str(e)),(x,kw,s)); continue
                    # sign handling: styles 1..3 drop the sign for negatives
                    if x<0 and int(ns)==1: val=-abs(val)
                    if places is not None:
                        if shown!=places: rec(("places",kind,sep),(x,kw,s))
                        unit=Decimal(1).scaleb(-places)
                        if abs(val-xv)>unit/2: rec(("value",kind),(x,kw,s))
                    else:
                        # automatic: equals value at 15 significant digits
                        if xv==0: ok= val==0
                        else:
                            rel=abs(val-xv)/abs(xv); ok = rel<=Decimal("5e-15")
                        if not ok: rec(("auto-value",kind),(x,kw,s))
print("decimal/percent violations:")
for k,v in sorted(viol.items(),key=str): print("  ",k,v,ex[k])
