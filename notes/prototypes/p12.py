import warnings, itertools, collections, time
warnings.simplefilter("ignore")
from numbers_parser import Document
from numbers_parser.cell import MergedCell
from numbers_parser.xrefs import xl_range
R=C=3
def rects():
    out=[]
    for r0 in range(R):
        for c0 in range(C):
            for r1 in range(r0,R):
                for c1 in range(c0,C):
                    if (r1-r0+1)*(c1-c0+1)>=2: out.append((r0,c0,r1,c1))
    return out
def view(t):
    v={}
    for r in range(t.num_rows):
        for c in range(t.num_cols):
            cell=t.cell(r,c)
            v[(r,c)]=("M" if isinstance(cell,MergedCell) else "C", cell.value, cell.is_merged, cell.size, cell.rect)
    return v, t.merge_ranges, (t.num_rows,t.num_cols)
def model_view(grid,rs):
    v={}
    nr=len(grid); nc=len(grid[0])
    own={}
    for (r0,c0,r1,c1) in rs:
        for r in range(r0,r1+1):
            for c in range(c0,c1+1): own[(r,c)]=(r0,c0,r1,c1)
    for r in range(nr):
        for c in range(nc):
            if (r,c) in own:
                r0,c0,r1,c1=own[(r,c)]
                if (r,c)==(r0,c0): v[(r,c)]=("C",grid[r][c],True,(r1-r0+1,c1-c0+1),None)
                else: v[(r,c)]=("M",None,False,None,(r0,c0,r1,c1))
            else: v[(r,c)]=("C",grid[r][c],False,(1,1),None)
    return v, sorted(xl_range(*x) for x in rs), (nr,nc)
viol=collections.Counter(); ex={}
def rec(k,info): viol[k]+=1; ex.setdefault(k,info)
t0=time.time(); n=0
RS=rects(); print("rects",len(RS))
def disjoint(a,b): return a[2]<b[0] or b[2]<a[0] or a[3]<b[1] or b[3]<a[1]
for rect in RS:
    seconds=[("none",)]
    seconds+= [("merge",r2) for r2 in RS if disjoint(rect,r2)]
    seconds+= [("write",r,c) for r in range(R) for c in range(C)]
    seconds+= [("add_row",i) for i in range(R)]+[("add_row",None)]+[("add_col",i) for i in range(C)]+[("add_col",None)]
    seconds+= [("del_row",i) for i in range(R)]+[("del_col",i) for i in range(C)]
    for sec in seconds:
        d=Document(num_rows=R,num_cols=C,num_header_rows=0,num_header_cols=0); t=d.sheets[0].tables[0]
        grid=[[f"{r}{c}" for c in range(C)] for r in range(R)]
        for r in range(R):
            for c in range(C): t.write(r,c,grid[r][c])
        t.merge_cells(xl_range(*rect)); rs=[rect]
        for (r0,c0,r1,c1) in rs:
            for r in range(r0,r1+1):
                for c in range(c0,c1+1):
                    if (r,c)!=(r0,c0): grid[r][c]=None
        judge="exact"
        try:
            if sec[0]=="merge":
                t.merge_cells(xl_range(*sec[1])); rs.append(sec[1])
                r0,c0,r1,c1=sec[1]
                for r in range(r0,r1+1):
                    for c in range(c0,c1+1):
                        if (r,c)!=(r0,c0): grid[r][c]=None
            elif sec[0]=="write":
                _,r,c=sec
                t.write(r,c,"W")
                own=[x for x in rs if x[0]<=r<=x[2] and x[1]<=c<=x[3]]
                if own and (r,c)!=(own[0][0],own[0][1]): judge="skip"   # writing into a placeholder: unspecified
                else: grid[r][c]="W"
            elif sec[0]=="add_row":
                i=sec[1]; t.add_row(1,i); i2=len(grid) if i is None else i
                grid[i2:i2]=[[None]*C]
                rs=[(a+1,b,c_+1,d_) if a>=i2 else ((a,b,c_,d_) if c_<i2 else "cut") for (a,b,c_,d_) in rs]
            elif sec[0]=="add_col":
                i=sec[1]; t.add_column(1,i); i2=len(grid[0]) if i is None else i
                for row in grid: row[i2:i2]=[None]
                rs=[(a,b+1,c_,d_+1) if b>=i2 else ((a,b,c_,d_) if d_<i2 else "cut") for (a,b,c_,d_) in rs]
            elif sec[0]=="del_row":
                i=sec[1]; t.delete_row(1,i); del grid[i]
                rs=[(a-1,b,c_-1,d_) if a>i else ((a,b,c_,d_) if c_<i else "cut") for (a,b,c_,d_) in rs]
            elif sec[0]=="del_col":
                i=sec[1]; t.delete_column(1,i)
                for row in grid: del row[i]
                rs=[(a,b-1,c_,d_-1) if b>i else ((a,b,c_,d_) if d_<i else "cut") for (a,b,c_,d_) in rs]
        except Exception as e:
            rec(("EXC",sec[0],type(e).__name__),(rect,sec,str(e)[:50])); continue
        n+=1
        if "cut" in rs: judge="consistency"
        live=view(t)
        d.save("/root/scratch/m12.numbers"); t2=Document("/root/scratch/m12.numbers").sheets[0].tables[0]
        rel=view(t2)
        if judge=="exact":
            mv=model_view(grid,rs)
            if live!=mv: rec(("live!=model",sec[0]),(rect,sec,[ (k,live[0][k],mv[0][k]) for k in mv[0] if live[0].get(k)!=mv[0][k]][:2],live[1],mv[1]))
            if rel!=mv: rec(("reload!=model",sec[0]),(rect,sec,[ (k,rel[0][k],mv[0][k]) for k in mv[0] if rel[0].get(k)!=mv[0][k]][:2],rel[1],mv[1]))
        elif judge=="consistency":
            if live!=rel: rec(("live!=reload(cut)",sec[0]),(rect,sec,live[1],rel[1]))
print("runs",n,"time",round(time.time()-t0,1))
for k,v in sorted(viol.items(),key=str): print(k,v,"\n    ",str(ex[k])[:400])
