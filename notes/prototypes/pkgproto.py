import zipfile, struct, io, os
import snappy
from google.protobuf.internal.decoder import _DecodeVarint32
from google.protobuf.internal.encoder import _VarintBytes
from numbers_parser.generated.TSPArchiveMessages_pb2 import ArchiveInfo
from numbers_parser.generated.mapping import ID_NAME_MAP
def unframe(data):
    out=b""
    while data:
        assert data[0]==0
        n=struct.unpack("<I",data[1:4]+b"\0")[0]
        c=data[4:4+n]; data=data[4+n:]
        try: out+=snappy.uncompress(c)
        except Exception: out+=c
    return out
def frame(stream,cuts=None,stored=False):
    if cuts is None: cuts=list(range(65536,len(stream),65536))
    pieces=[];prev=0
    for c in list(cuts)+[len(stream)]:
        if c>prev: pieces.append(stream[prev:c]); prev=c
    out=b""
    for p in pieces:
        payload=p if stored else snappy.compress(p)
        out+=b"\0"+struct.pack("<I",len(payload))[:3]+payload
    return out
def segments(stream):
    pos=0; out=[]
    while pos<len(stream):
        n,p=_DecodeVarint32(stream,pos)
        ai=ArchiveInfo.FromString(stream[p:p+n]); pos=p+n
        payloads=[]
        for mi in ai.message_infos:
            payloads.append(stream[pos:pos+mi.length]); pos+=mi.length
        out.append([ai,payloads])
    return out
def join(segs):
    out=b""
    for ai,payloads in segs:
        for mi,pl in zip(ai.message_infos,payloads): mi.length=len(pl)
        h=ai.SerializeToString()
        out+=_VarintBytes(len(h))+h+b"".join(payloads)
    return out
def read_pkg(path):
    z=zipfile.ZipFile(path); return [(zi.filename,z.read(zi.filename)) for zi in z.infolist()]
def write_pkg(path,members,compress=zipfile.ZIP_STORED):
    with zipfile.ZipFile(path,"w",compress) as z:
        for n,b in members: z.writestr(n,b)
def transform(members,fn):
    """fn(type_name, message) -> bool changed ; applied to first message of every segment"""
    out=[]
    for n,b in members:
        if n.endswith(".iwa"):
            segs=segments(unframe(b)); changed=False
            for seg in segs:
                ai,pls=seg
                cls=ID_NAME_MAP.get(ai.message_infos[0].type)
                if cls is None: continue
                m=cls.FromString(pls[0])
                if fn(cls.DESCRIPTOR.full_name,m,ai.identifier):
                    pls[0]=m.SerializeToString(); changed=True
            out.append((n, frame(join(segs)) if changed else b))
        else: out.append((n,b))
    return out
