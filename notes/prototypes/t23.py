import warnings
warnings.simplefilter("ignore")
from numbers_parser import Document
from numbers_parser.generated import TSKArchives_pb2 as TSK
from datetime import timedelta
d=Document(num_rows=2,num_cols=2); t=d.sheets[0].tables[0]; m=d._model; tid=t._table_id
U={"w":1,"d":2,"h":4,"m":8,"s":16,"ms":32}
def fmt(sec,largest,smallest,style,auto=False):
    t.write(0,0,timedelta(seconds=sec))
    c=t.cell(0,0)
    f=TSK.FormatStructArchive(format_type=268,duration_style=style,duration_unit_largest=U[largest],duration_unit_smallest=U[smallest],use_automatic_duration_units=auto)
    c._duration_format_id=m._table_formats.lookup_key(tid,f)
    c._double=float(sec)
    m._cache.pop("table_format",None)
    return c.formatted_value
vals=[0,0.001,0.999,1,59.999,60,3599.999,3600,86399.999,86400,604799.999,604800,1234567.891]
for v in vals:
    print(v, [fmt(v,"w","ms",s) for s in (0,1,2)], [fmt(v,"h","s",s) for s in (0,1,2)], [fmt(v,"d","d",s) for s in (0,1,2)], "auto", [fmt(v,"w","ms",s,True) for s in (0,1,2)])
print([fmt(v,"m","m",0) for v in vals], [fmt(v,"ms","ms",1) for v in vals[:5]], [fmt(v,"s","ms",0) for v in vals[:6]])
