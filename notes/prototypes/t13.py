import warnings, sys, io, csv, os, contextlib, traceback
warnings.simplefilter("ignore")
from numbers_parser import _csv2numbers, _cat_numbers
def run_main(mod, argv):
    old=sys.argv; out=io.StringIO(newline=""); err=io.StringIO()
    sys.argv=argv; code=0
    try:
        with contextlib.redirect_stdout(out), contextlib.redirect_stderr(err):
            try: mod.main()
            except SystemExit as e: code=e.code
    except BaseException as e:
        return ("CRASH "+type(e).__name__+": "+str(e)[:80], out.getvalue(), err.getvalue())
    finally: sys.argv=old
    return (code,out.getvalue(),err.getvalue())
def roundtrip(grid, flags=()):
    with open("/root/scratch/in.csv","w",newline="",encoding="utf-8") as f:
        csv.writer(f).writerows(grid)
    r=run_main(_csv2numbers,["csv2numbers",*flags,"/root/scratch/in.csv","-o","/root/scratch/out.numbers"])
    if r[0]!=0 and r[0] is not None: return ("conv",r)
    r2=run_main(_cat_numbers,["cat-numbers","-b","/root/scratch/out.numbers"])
    return list(csv.reader(io.StringIO(r2[1],newline="")))
for g in [ [["a","b"],["1","x,y"]], [["h1","h2"],["nan","inf"]], [["h"],["1e400"]], [["a","a"],["1","2"]], [["x"]], [["a","b"]], [["h"],["line1\r\nline2"]], [["h"],["a\rb"]], [["h"],['q"uote']], [["h"],["1,234.5"]],[["h"],["1_000"]],[["h"],["١٢٣"]],[["h"],[""]],[["h"],[" 12 "]],[["h"],["0x10"]],[["h"],["-0"]], [["h"],["TRUE"]], [["1","2"],["3","4"]] ]:
    for fl in [(),("--no-header",)]:
        try: print(g, fl, "->", roundtrip(g,fl))
        except Exception as e: print(g,fl,"EXC",type(e).__name__,e)
