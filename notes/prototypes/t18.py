import warnings, collections, time, traceback, os, sys, zipfile, io
warnings.simplefilter("ignore")
from numbers_parser import Document
from numbers_parser.exceptions import FileError, FileFormatError, UnsupportedError
base=open("/root/scratch/a.numbers","rb").read()
N=len(base)
P="/root/scratch/fault.numbers"
def classify(data):
    open(P,"wb").write(data)
    try:
        Document(P); return "ok"
    except (FileError,FileFormatError,UnsupportedError) as e:
        return "lib:"+type(e).__name__
    except Exception as e:
        tb=traceback.extract_tb(e.__traceback__)
        fns=[f"{os.path.basename(f.filename)}:{f.name}" for f in tb if "numbers_parser" in f.filename]
        incont=any(x in ("containers.py:__init__",) or x.startswith("iwork.py") for x in fns)
        return ("ESC-container:" if incont else "esc-model:")+type(e).__name__+"@"+(fns[-1] if fns else "?")
t=time.time()
c=collections.Counter()
for L in list(range(0,2000,7))+list(range(N-3000,N)):
    c["trunc:"+classify(base[:L])]+=1
print("trunc",time.time()-t, c)
t=time.time(); c=collections.Counter()
for off in range(0,N,97):
    b=bytearray(base); b[off]^=0x10
    c[classify(bytes(b))]+=1
print("flips",time.time()-t, c)
# member faults
z=zipfile.ZipFile(io.BytesIO(base))
names=z.namelist()
def rewrite(name,newblob):
    out=io.BytesIO()
    with zipfile.ZipFile(out,"w") as zo:
        for n in names:
            zo.writestr(n, newblob if n==name else z.read(n))
    return out.getvalue()
c=collections.Counter(); t=time.time()
for n in names[:40]:
    if not n.endswith(".iwa"): continue
    orig=z.read(n)
    for kind,blob in [("empty",b""),("1b",b"\x00"),("2b",b"\x00\x01"),("3b",b"\x00\x01\x00"),("half",orig[:len(orig)//2]),("marker",b"\x01"+orig[1:]),("len+1",orig[:1]+bytes([ (orig[1]+1)&0xff])+orig[2:]),("garbage",orig[:4]+bytes(len(orig)-4))]:
        c[kind+" -> "+classify(rewrite(n,blob))]+=1
print("member",time.time()-t)
for k,v in sorted(c.items()): print("  ",k,v)
