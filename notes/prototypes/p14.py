import warnings, collections, calendar
warnings.simplefilter("ignore")
from datetime import datetime, timedelta
from numbers_parser import Document
d=Document(num_rows=2,num_cols=2); t=d.sheets[0].tables[0]
def fmt(dt,f):
    t.write(0,0,dt); t.set_cell_formatting(0,0,"datetime",date_time_format=f); return t.cell(0,0).formatted_value
DAYS=["Monday","Tuesday","Wednesday","Thursday","Friday","Saturday","Sunday"]
MONTHS=["January","February","March","April","May","June","July","August","September","October","November","December"]
def doy(x): return (x-datetime(x.year,1,1)).days+1
def week_of_month0(x):  # first week is zero; weeks start on Monday (as %W) -- hypothesis
    first=datetime(x.year,x.month,1).weekday()
    return (x.day+first-1)//7
def ww(x): # %W: week of year, Monday first, days before first Monday are week 0
    jan1=datetime(x.year,1,1).weekday()
    return (doy(x)+ (jan1 -0) -1 + (7-jan1)%7*0)//7 if False else (doy(x)-1 + (jan1)) //7 if jan1==0 else (doy(x)-1 - (7-jan1))//7+1 if doy(x)-1>=(7-jan1) else 0
SPEC={
 "a":lambda x:"am" if x.hour<12 else "pm","EEEE":lambda x:DAYS[x.weekday()],"EEE":lambda x:DAYS[x.weekday()][:3],
 "yyyy":lambda x:f"{x.year:04d}","yy":lambda x:f"{x.year%100:02d}","y":lambda x:str(x.year),
 "MMMM":lambda x:MONTHS[x.month-1],"MMM":lambda x:MONTHS[x.month-1][:3],"MM":lambda x:f"{x.month:02d}","M":lambda x:str(x.month),
 "d":lambda x:str(x.day),"dd":lambda x:f"{x.day:02d}","DDD":lambda x:f"{doy(x):03d}","DD":lambda x:f"{doy(x):02d}","D":lambda x:str(doy(x)),
 "HH":lambda x:f"{x.hour:02d}","H":lambda x:str(x.hour),"hh":lambda x:f"{(x.hour%12 or 12):02d}","h":lambda x:str(x.hour%12 or 12),
 "k":lambda x:str(x.hour or 24),"kk":lambda x:f"{(x.hour or 24):02d}","K":lambda x:str(x.hour%12),"KK":lambda x:f"{x.hour%12:02d}",
 "mm":lambda x:f"{x.minute:02d}","m":lambda x:str(x.minute),"ss":lambda x:f"{x.second:02d}","s":lambda x:str(x.second),
 "W":lambda x:str(week_of_month0(x)),"ww":lambda x:int(ww(x)),"G":lambda x:"AD","F":lambda x:str((x.day-1)//7+1),
 "S":lambda x:f"{x.microsecond:06d}"[:1],"SS":lambda x:f"{x.microsecond:06d}"[:2],"SSS":lambda x:f"{x.microsecond:06d}"[:3],"SSSS":lambda x:f"{x.microsecond:06d}"[:4],"SSSSS":lambda x:f"{x.microsecond:06d}"[:5]}
viol=collections.Counter(); ex={}
insts=[datetime(2023,1,1)+timedelta(days=i) for i in range(365)]+[datetime(2024,1,1)+timedelta(days=i) for i in range(366)]
insts+=[datetime(2022,5,30,h,0,0) for h in range(24)]+[datetime(2022,5,30,1,m,m) for m in range(60)]
insts+=[datetime(y,6,15,13,5,9,123456) for y in (1,9,99,100,999,1000,1900,1999,2000,2001,9999)]
insts+=[datetime(2022,5,30,1,1,1,us) for us in (0,1,9,10,99999,100000,123456,999999)]
fl=list(SPEC)
d=Document(num_rows=len(insts),num_cols=len(fl),num_header_rows=0,num_header_cols=0); t=d.sheets[0].tables[0]
live_bad=0
for r,x in enumerate(insts):
    for c,f in enumerate(fl):
        t.write(r,c,x); t.set_cell_formatting(r,c,"datetime",date_time_format=f)
        if r<3 and t.cell(r,c).formatted_value==str(x): live_bad+=1
print("live cells still showing str(value):",live_bad,"of",3*len(fl))
d.save("/root/scratch/d14.numbers"); t2=Document("/root/scratch/d14.numbers").sheets[0].tables[0]
n=0
for r,x in enumerate(insts):
    for c,f in enumerate(fl):
        got=t2.cell(r,c).formatted_value; want=SPEC[f](x); n+=1
        try: ok = (int(got)==want) if isinstance(want,int) else got==want
        except Exception: ok=False
        if not ok: viol[(f,)]+=1; ex.setdefault((f,),(str(x),got,want))
print("renderings",n)
for k,v in sorted(viol.items(),key=str): print(k,v,ex[k])
