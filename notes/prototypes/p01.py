import warnings, time, collections
warnings.simplefilter("ignore")
from datetime import datetime, timedelta
from numbers_parser import Document
from numbers_parser.cell import TextCell,BoolCell,NumberCell,DateCell,DurationCell
VAL=["","a","line1\nline2","😀 astral \U0001F9EA","nul\x00in","x"*10000,"tab\tcr\rlf\n"," lead/trail ",
 True,False,0,-1,12,50,52,10**15-1,-(10**15-1),0.0,-0.0,0.1,0.12,846400000000.0,-2.5,1e-290,1e290,-1e290,123456789.012345,0.000123456789012345,
 datetime(1,1,1,0,0,0),datetime(1,1,1,0,0,1),datetime(1582,10,15,12,0,0),datetime(1899,12,31,23,59,59),datetime(1900,1,1,0,0,0,1),datetime(1970,1,1),datetime(2000,2,29,23,59,59,999999),datetime(2001,1,1),datetime(2001,1,1,0,0,0,500000),datetime(2038,1,19,3,14,8),datetime(2100,12,31,23,59,59,999999),datetime(9999,12,31,23,59,59),
 timedelta(0),timedelta(microseconds=1),timedelta(microseconds=-1),timedelta(milliseconds=1),timedelta(seconds=1),timedelta(days=1),timedelta(days=36524,hours=23,minutes=59,seconds=59,microseconds=999999),-timedelta(days=36524,hours=23,minutes=59,seconds=59,microseconds=999999),timedelta(days=3,seconds=7,microseconds=123456)]
TYPE={str:TextCell,bool:BoolCell,int:NumberCell,float:NumberCell,datetime:DateCell,timedelta:DurationCell}
viol=collections.Counter(); ex={}
def rec(k,i): viol[k]+=1; ex.setdefault(k,i)
t0=time.time(); ndoc=0; ncell=0
for shape in [(1,1),(2,2),(257,2),(2,257)]:
    R,C=shape
    pos=sorted({(0,0),(R-1,0),(0,C-1),(R-1,C-1),(min(255,R-1),0),(min(256,R-1),0),(0,min(255,C-1)),(0,min(256,C-1)),(R,0),(0,C),(R,C)})
    pass
    # pack: each position gets each value in separate docs? -> iterate values in chunks: one value per position per doc
    for vi in range(0,len(VAL),len(pos)):
        d=Document(num_rows=R,num_cols=C,num_header_rows=0,num_header_cols=0) if R>=1 else None
        t=d.sheets[0].tables[0]
        wrote={}
        # write in-bounds first then growth
        for p,v in zip(pos,VAL[vi:vi+len(pos)]):
            try:
                with warnings.catch_warnings(record=True) as w:
                    warnings.simplefilter("always"); t.write(p[0],p[1],v)
                if any("rounded" in str(x.message) for x in w): rec(("rounded-warning",),(v,))
                wrote[p]=v
            except Exception as e: rec(("write-EXC",type(e).__name__),(shape,p,repr(v)[:30],str(e)[:60]))
        expR=max([R]+[p[0]+1 for p in wrote]); expC=max([C]+[p[1]+1 for p in wrote])
        if (t.num_rows,t.num_cols)!=(expR,expC): rec(("dims-live",),(shape,(t.num_rows,t.num_cols),(expR,expC)))
        try:
            d.save("/root/scratch/c01.numbers"); t2=Document("/root/scratch/c01.numbers").sheets[0].tables[0]
        except Exception as e: rec(("save/open-EXC",type(e).__name__),(shape,str(e)[:80])); continue
        ndoc+=1
        if (t2.num_rows,t2.num_cols)!=(expR,expC): rec(("dims-file",),(shape,(t2.num_rows,t2.num_cols),(expR,expC)))
        for p,v in wrote.items():
            c=t2.cell(*p); ncell+=1
            if type(c) is not TYPE[type(v)]: rec(("type",type(v).__name__),(shape,p,type(c).__name__))
            elif not (c.value==v and (not isinstance(v,float) or repr(float(c.value))==repr(v))): rec(("value",type(v).__name__),(shape,p,repr(v)[:40],repr(c.value)[:40]))
        # untouched cells empty
        empties=sum(1 for r in range(t2.num_rows) for c in range(t2.num_cols) if (r,c) not in wrote and t2.cell(r,c).value is not None)
        if empties: rec(("untouched-nonempty",),(shape,empties))
print("docs",ndoc,"cells",ncell,"time",round(time.time()-t0,1))
for k,v in sorted(viol.items(),key=str): print(k,v,str(ex[k])[:300])
