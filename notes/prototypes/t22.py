import warnings, time, itertools, collections
warnings.simplefilter("ignore")
from numbers_parser import Document
from datetime import datetime, timedelta
VALS=["s",7,2.5]
def enabled(ref):
    R=len(ref); C=len(ref[0]); ev=[]
    for r in list(range(R))+[R]:
        for c in list(range(C))+[C]:
            for v in VALS: ev.append(("write",r,c,v))
    for n in (1,2):
        for st in {None,0,R//2,R-1}:
            for dflt in (None,"d"):
                ev.append(("add_row",n,st,dflt))
        for st in {None,0,C//2,C-1}:
            for dflt in (None,"d"):
                ev.append(("add_col",n,st,dflt))
        for st in {None,0,R//2,R-1}:
            s=R-n if st is None else st
            if R-n>=1 and s+n<=R: ev.append(("del_row",n,st))
        for st in {None,0,C//2,C-1}:
            s=C-n if st is None else st
            if C-n>=1 and s+n<=C: ev.append(("del_col",n,st))
    return ev
def apply_ref(ref,ev):
    k=ev[0]
    if k=="write":
        _,r,c,v=ev
        while len(ref)<=r: ref.append([None]*len(ref[0]))
        if len(ref[0])<=c:
            for row in ref: row.extend([None]*(c+1-len(row)))
        ref[r][c]=v
    elif k=="add_row":
        _,n,st,d=ev; C=len(ref[0]); st=len(ref) if st is None else st
        ref[st:st]=[[d]*C for _ in range(n)]
    elif k=="add_col":
        _,n,st,d=ev; st=len(ref[0]) if st is None else st
        for row in ref: row[st:st]=[d]*n
    elif k=="del_row":
        _,n,st=ev; st=len(ref)-n if st is None else st
        del ref[st:st+n]
    elif k=="del_col":
        _,n,st=ev; st=len(ref[0])-n if st is None else st
        for row in ref: del row[st:st+n]
def apply_impl(t,ev):
    k=ev[0]
    if k=="write": t.write(ev[1],ev[2],ev[3])
    elif k=="add_row": t.add_row(ev[1],ev[2],ev[3])
    elif k=="add_col": t.add_column(ev[1],ev[2],ev[3])
    elif k=="del_row": t.delete_row(ev[1],ev[2])
    elif k=="del_col": t.delete_column(ev[1],ev[2])
def build(hist,shape=(2,2)):
    d=Document(num_rows=shape[0],num_cols=shape[1],num_header_rows=0,num_header_cols=0)
    t=d.sheets[0].tables[0]
    ref=[[None]*shape[1] for _ in range(shape[0])]
    for ev in hist:
        apply_impl(t,ev); apply_ref(ref,ev)
    return d,t,ref
def check(t,ref):
    if (t.num_rows,t.num_cols)!=(len(ref),len(ref[0])): return "dims"
    if t.rows(values_only=True)!=ref: return "values"
    for r,row in enumerate(t.rows()):
        for c,cell in enumerate(row):
            if (cell.row,cell.col)!=(r,c): return f"pos {r},{c} has {cell.row},{cell.col}"
    return None
t0=time.time()
seen=set(); frontier=[()]; trans=0; viol=[]
for depth in range(1,3):
    nxt=[]
    for hist in frontier:
        _,_,ref=build(hist)
        for ev in enabled(ref):
            trans+=1
            try:
                d,t,ref2=build(hist+(ev,))
            except Exception as e:
                viol.append((hist+(ev,),"EXC "+type(e).__name__+str(e))); continue
            err=check(t,ref2)
            if err: viol.append((hist+(ev,),err)); continue
            key=repr(ref2)
            if key not in seen: seen.add(key); nxt.append(hist+(ev,))
    frontier=nxt
    print("depth",depth,"states",len(seen),"transitions",trans,"viol",len(viol),"time",round(time.time()-t0,1))
for v in viol[:10]: print(v)
