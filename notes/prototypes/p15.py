import warnings, itertools, collections, time
warnings.simplefilter("ignore")
from numbers_parser import Document, Border, RGB
R=C=3
BORD=[(2.0,(255,0,0),"solid"),(3.0,(0,255,0),"dashes"),(1.0,(0,0,255),"dots")]
def strokes():
    out=[]
    for side in ("top","right","bottom","left"):
        for r in range(R):
            for c in range(C):
                maxlen = C-c if side in("top","bottom") else R-r
                for ln in range(1,maxlen+1):
                    out.append((side,r,c,ln))
    return out
S=strokes(); print("strokes",len(S))
def model_apply(edges,stroke,b,stamp):
    side,r,c,ln=stroke
    for i in range(ln):
        if side=="top": e=("h",r,c+i)
        elif side=="bottom": e=("h",r+1,c+i)
        elif side=="left": e=("v",r+i,c)
        else: e=("v",r+i,c+1)
        edges[e]=b
def model_view(edges):
    v={}
    for r in range(R):
        for c in range(C):
            v[(r,c)]=(edges.get(("h",r,c)),edges.get(("v",r,c+1)),edges.get(("h",r+1,c)),edges.get(("v",r,c)))
    return v
def impl_view(t):
    v={}
    for r in range(R):
        for c in range(C):
            b=t.cell(r,c).border
            def k(x): return None if x is None else (x.width,tuple(x.color),{0:"solid",1:"dashes",2:"dots",3:"none"}[int(x.style)])
            v[(r,c)]=(k(b.top),k(b.right),k(b.bottom),k(b.left))
    return v
viol=collections.Counter(); ex={}
t0=time.time(); n=0
import random
pairs=[(a,b) for a in S for b in S]
random.seed(1); random.shuffle(pairs)
for (s1,s2) in pairs[:1500]:
    for (b1,b2) in ((0,1),):
        d=Document(num_rows=R,num_cols=C); t=d.sheets[0].tables[0]
        edges={}
        for st,bi in ((s1,b1),(s2,b2)):
            w,col,sty=BORD[bi]
            t.set_cell_border(st[1],st[2],st[0],Border(w,RGB(*col),sty),st[3])
            model_apply(edges,st,(w,col,sty),0)
        mv=model_view(edges); iv=impl_view(t); n+=1
        if iv!=mv:
            k="live"; viol[k]+=1; ex.setdefault(k,(s1,s2,[ (p,iv[p],mv[p]) for p in iv if iv[p]!=mv[p]][:2]))
        d.save("/root/scratch/b15.numbers")
        t2=Document("/root/scratch/b15.numbers").sheets[0].tables[0]
        rv=impl_view(t2)
        if rv!=mv:
            k="reload"; viol[k]+=1; ex.setdefault(k,(s1,s2,[ (p,rv[p],mv[p]) for p in rv if rv[p]!=mv[p]][:2]))
print("runs",n,"time",time.time()-t0, dict(viol))
for k,v in ex.items(): print(k,v)
