import warnings, glob, os, sys
warnings.simplefilter("ignore")
from numbers_parser import Document
def geo(d):
    out=[]
    for s in d.sheets:
        for t in s.tables:
            g={"sheet":s.name,"table":t.name,"hr":t.num_header_rows,"hc":t.num_header_cols,"coords":t.coordinates,
               "name_en":t.table_name_enabled}
            try: g["cap"]=(t.caption,t.caption_enabled)
            except Exception as e: g["cap"]="EXC "+type(e).__name__
            try:
                g["rh"]=[t.row_height(r) for r in range(t.num_rows)]; g["cw"]=[t.col_width(c) for c in range(t.num_cols)]
                g["h"]=t.height; g["w"]=t.width
            except Exception as e: g["rh"]="EXC "+type(e).__name__+str(e)[:40]
            out.append(g)
    return out
def gdiff(a,b):
    out=[]
    for x,y in zip(a,b):
        for k in x:
            if x[k]!=y.get(k):
                if k in("rh","cw") and isinstance(x[k],list) and isinstance(y[k],list):
                    idx=[i for i,(p,q) in enumerate(zip(x[k],y[k])) if p!=q]
                    out.append(f"{x['table']}.{k}: {len(idx)} differ e.g. [{idx[0]}] {x[k][idx[0]]}->{y[k][idx[0]]}")
                else: out.append(f"{x['table']}.{k}: {x[k]!r}->{y[k]!r}")
    return out
for p in sorted(glob.glob("/repo/tests/data/*.numbers")):
    try:
        with warnings.catch_warnings(record=True) as w:
            warnings.simplefilter("always"); obs=Document(p)
        if any("unsupported version" in str(x.message) for x in w): continue
    except Exception: continue
    g0=geo(obs)
    try:
        d=Document(p); d.save("/root/scratch/g1.numbers"); g1=geo(Document("/root/scratch/g1.numbers"))
        Document("/root/scratch/g1.numbers").save("/root/scratch/g2.numbers"); g2=geo(Document("/root/scratch/g2.numbers"))
    except Exception as e: print(os.path.basename(p),"EXC",type(e).__name__,str(e)[:80]); continue
    d01=gdiff(g0,g1); d12=gdiff(g1,g2)
    if d01 or d12: print(f"{os.path.basename(p):36s}", "01:",d01[:3],"12:",d12[:3])
