"""Independent readers for the notations of numbers-parser's built-in number formats (C13).

Nothing here imports numbers_parser. Each `judge_*` function takes the cell's value (exact
`Decimal` of its shortest repr), the format parameters that were asked for and the displayed text,
reads the text back as an exact number in that notation and decides whether it equals the value
rounded to the displayed precision. Both directions of an exact decimal tie are accepted (the
property fixes no tie rule); -0 is accepted as 0.

A judge returns `(sign_class, magnitude_class, None)` when the text agrees and
`(sign_class, magnitude_class, (pattern, explanation))` when it does not. `pattern` is a short
stable label of *how* the text is wrong; the classes describe the input:
  sign       neg | zero | pos
  magnitude  rounds-to-zero (|x| <= half a displayed unit, includes 0) | lt1 | ge1
"""
from __future__ import annotations

import re
from decimal import Context, Decimal
from fractions import Fraction

CTX = Context(prec=900)  # every operation below is exact at this precision (texts are < 300 digits)

STAR = "★"
DIGITS36 = "0123456789ABCDEFGHIJKLMNOPQRSTUVWXYZ"

# Display symbols of the currencies that are not shown as "<ISO code><space>" (CLDR 'en' symbols).
# Kept here, not imported from the library, so that the oracle does not move with the code under test.
SYMBOLS = {
    "AUD": "A$", "BRL": "R$", "CAD": "CA$", "CNY": "CN¥", "EUR": "€", "GBP": "£", "HKD": "HK$",
    "ILS": "₪", "INR": "₹", "JPY": "JP¥", "KRW": "₩", "MXN": "MX$", "NZD": "NZ$", "TWD": "NT$",
    "USD": "$", "VND": "₫", "XAF": "FCFA", "XCD": "EC$", "XOF": "CFA", "XPF": "CFPF",
}

MINUS, RED, PARENTHESES, RED_AND_PARENTHESES = 0, 1, 2, 3
STYLE_NAMES = {0: "MINUS", 1: "RED", 2: "PARENTHESES", 3: "RED_AND_PARENTHESES"}


class Unreadable(Exception):
    def __init__(self, pattern, why):
        super().__init__(why)
        self.pattern = pattern
        self.why = why


def dec(x) -> Decimal:
    """Exact decimal value of the shortest repr of a Python number."""
    if isinstance(x, int):
        return Decimal(x)
    return Decimal(repr(float(x)))


def sig_digits(d: Decimal) -> int:
    t = d.normalize(CTX).as_tuple()
    return len(t.digits) if d != 0 else 0


def classify(x: Decimal, half_unit) -> tuple[str, str]:
    sign = "neg" if x < 0 else ("pos" if x > 0 else "zero")
    ax = abs(x)
    if ax == 0 or (half_unit is not None and ax <= half_unit):
        mag = "rounds-to-zero"
    elif ax < 1:
        mag = "lt1"
    else:
        mag = "ge1"
    return sign, mag


def auto_tolerance(x: Decimal) -> Decimal:
    """Half a unit of the 15th significant digit of x (automatic precision shows <= 15 digits)."""
    if x == 0:
        return Decimal(0)
    return CTX.divide(Decimal(1).scaleb(x.adjusted() - 14), Decimal(2))


def _within(d: Decimal, x: Decimal, tol: Decimal) -> bool:
    return abs(CTX.subtract(d, x)) <= tol


# ---------------------------------------------------------------------------------------------
# decimal / percentage / currency
# ---------------------------------------------------------------------------------------------
def read_decimal(text, *, symbol=None, accounting=False, percent=False, separator=False, allow_exponent=False):
    """-> dict(magnitude=Decimal >= 0, shown=int, minus=bool, parens=bool, exponent=bool)"""
    s = text
    if symbol is not None:
        if not s.startswith(symbol):
            raise Unreadable("symbol-missing", f"text does not start with the currency symbol {symbol!r}")
        s = s[len(symbol):]
        if accounting:
            if not s.startswith("\t"):
                raise Unreadable("tab-missing", "accounting layout: no tab between symbol and number")
            s = s[1:]
    n_pct = s.count("%")
    if n_pct != (1 if percent else 0):
        raise Unreadable("percent-sign", f"{n_pct} percent signs, expected {1 if percent else 0}")
    if s.endswith("%"):
        s = s[:-1]
    parens = False
    if "(" in s or ")" in s:
        if not (s.startswith("(") and s.endswith(")") and s.count("(") == 1 and s.count(")") == 1):
            raise Unreadable("unbalanced-parens", "parentheses do not enclose the number exactly once")
        parens = True
        s = s[1:-1]
    if s.endswith("%"):
        s = s[:-1]
    if "%" in s:
        raise Unreadable("percent-sign", "percent sign inside the number")
    minus = s.startswith("-")
    if minus:
        s = s[1:]
    m = re.fullmatch(r"([0-9,]*)(?:\.([0-9,]*))?(?:[eE]([-+]?[0-9]+))?", s)
    if not m:
        raise Unreadable("unparsable", f"{s!r} is not a decimal number")
    ip, fp, ex = m.groups()
    if not ip.replace(",", ""):
        if ip:
            raise Unreadable("bad-grouping", f"integer part {ip!r} has separators but no digits")
        raise Unreadable("integer-part-missing", f"no digit before the decimal point in {s!r}")
    if fp is not None and fp == "":
        raise Unreadable("unparsable", f"decimal point without decimals in {s!r}")
    if fp is not None and "," in fp:
        raise Unreadable("grouping-in-fraction", f"grouping separator among the decimals of {s!r}")
    if "," in ip:
        if not separator:
            raise Unreadable("unexpected-grouping", f"grouping separator without show_thousands_separator in {s!r}")
        if not re.fullmatch(r"[0-9]{1,3}(,[0-9]{3})*", ip):
            raise Unreadable("bad-grouping", f"integer part {ip!r} is not grouped in threes")
    elif separator and len(ip) > 3:
        raise Unreadable("grouping-missing", f"integer part {ip!r} has no grouping separator")
    if ex is not None and not allow_exponent:
        raise Unreadable("exponent-notation", f"exponent in a fixed-precision decimal {s!r}")
    lit = ip.replace(",", "") + ("." + fp if fp else "") + ("E" + ex if ex else "")
    return {"magnitude": Decimal(lit), "shown": len(fp) if fp else 0, "minus": minus, "parens": parens,
            "exponent": ex is not None}


def judge_decimal(x: Decimal, text: str, *, kind: str, places, separator: bool, negative_style: int,
                  accounting: bool = False, currency_code=None):
    """kind in number|percentage|currency; places None = automatic."""
    percent = kind == "percentage"
    X = CTX.multiply(x, Decimal(100)) if percent else x
    half = CTX.divide(Decimal(1).scaleb(-places), Decimal(2)) if places is not None else None
    sign, mag = classify(X, half)
    symbol = None
    if kind == "currency":
        symbol = SYMBOLS.get(currency_code, f"{currency_code} ")
    try:
        r = read_decimal(text, symbol=symbol, accounting=accounting, percent=percent, separator=separator,
                         allow_exponent=places is None)
    except Unreadable as e:
        return sign, mag, (e.pattern, e.why)
    d = r["magnitude"]
    marked = r["minus"] or r["parens"]
    signless = False
    if d != 0:  # a displayed zero may carry any sign marker (-0 == 0)
        if r["minus"] and r["parens"]:
            return sign, mag, ("double-sign-marker", "both a minus sign and parentheses")
        if accounting:
            pass  # accounting layout replaces the negative style; either marker reads as negative
        elif negative_style == MINUS:
            if r["parens"]:
                return sign, mag, ("unexpected-parens", "parentheses under negative style MINUS")
        elif negative_style == RED:
            if marked:
                return sign, mag, ("unexpected-sign-marker", "sign marker under negative style RED (colour only)")
            signless = True
        elif r["minus"]:
            return sign, mag, ("unexpected-minus", f"minus sign under negative style {STYLE_NAMES[negative_style]}")
    if signless:
        got, want = d, abs(X)
    else:
        got, want = (-d if marked else d), X
    tol = half if places is not None else auto_tolerance(X)
    if not _within(got, want, tol):
        if not signless and _within(-got, want, tol):
            return sign, mag, ("sign-wrong", f"reads back as {got}, value is {want}")
        return sign, mag, ("value-off", f"reads back as {got}, value is {want}, allowed distance {tol}")
    if places is not None:
        if r["shown"] != places:
            if r["shown"] == 0:
                return sign, mag, ("decimals-dropped", f"no decimals shown, {places} asked for")
            return sign, mag, ("decimals-count", f"{r['shown']} decimals shown, {places} asked for")
    elif sig_digits(d) > 15 and d != d.to_integral_value():
        return sign, mag, ("excess-digits", f"{sig_digits(d)} significant digits shown for automatic precision")
    return sign, mag, None


# ---------------------------------------------------------------------------------------------
# scientific
# ---------------------------------------------------------------------------------------------
def judge_scientific(x: Decimal, text: str, *, places):
    sign, mag = classify(x, None)  # a non-zero value never rounds to zero in scientific notation
    m = re.fullmatch(r"(-?)([0-9]+)(?:\.([0-9]+))?E([-+]?)([0-9]+)", text)
    if not m:
        return sign, mag, ("unparsable", f"{text!r} is not of the form d.dddE+xx")
    neg, ip, fp, es, ed = m.groups()
    if len(ip) != 1 or (ip == "0" and x != 0):
        return sign, mag, ("mantissa-not-normalised", f"mantissa {ip}.{fp or ''} is not in [1, 10)")
    e = int(es + ed)
    d = Decimal(f"{neg}{ip}" + (f".{fp}" if fp else "") + f"E{e}")
    if places is not None:
        tol = CTX.divide(Decimal(1).scaleb(e - places), Decimal(2))
    else:
        tol = auto_tolerance(x)
    if not _within(d, x, tol):
        if _within(-d, x, tol):
            return sign, mag, ("sign-wrong", f"reads back as {d}, value is {x}")
        return sign, mag, ("value-off", f"reads back as {d:E}, value is {x}, allowed distance {tol}")
    shown = len(fp) if fp else 0
    if places is not None:
        if shown != places:
            return sign, mag, ("decimals-dropped" if shown == 0 else "decimals-count",
                               f"{shown} decimals shown, {places} asked for")
    elif sig_digits(d) > 15:
        return sign, mag, ("excess-digits", f"{sig_digits(d)} significant digits shown for automatic precision")
    return sign, mag, None


# ---------------------------------------------------------------------------------------------
# number base
# ---------------------------------------------------------------------------------------------
def min_twos_width(c: int) -> int:
    """Smallest W such that the negative integer c fits W-bit two's complement."""
    return (-c - 1).bit_length() + 1


def judge_base(x: Decimal, text: str, *, base: int, places: int, use_minus_sign: bool):
    half = Decimal("0.5")
    sign, mag = classify(x, half)
    lo = int(x.to_integral_value(rounding="ROUND_FLOOR"))
    cands = [n for n in (lo, lo + 1) if abs(CTX.subtract(Decimal(n), x)) <= half]
    twos = (not use_minus_sign) and base in (2, 8, 16)
    if text == "":
        return sign, mag, ("empty-text", "nothing displayed")
    minus = text.startswith("-")
    body = text[1:] if minus else text
    if body == "":
        return sign, mag, ("unparsable", "sign without digits")
    bad = [ch for ch in body if ch not in DIGITS36[:base]]
    if bad:
        return sign, mag, ("digit-out-of-range", f"{bad[0]!r} is not a digit of base {base}")
    n = 0
    for ch in body:
        n = n * base + DIGITS36.index(ch)
    if minus:
        if twos:
            return sign, mag, ("unexpected-minus", "minus sign in two's-complement mode")
        value, plain = -n, True
    elif n in cands or not twos or all(c >= 0 for c in cands):
        value, plain = n, True
    else:
        plain = False
        value = None
        for c in cands:
            if c < 0 and n == c + (1 << max(32, min_twos_width(c))):
                value = c
        if value is None:
            for w in range(1, 200):
                if (n - (1 << w)) in cands:
                    return sign, mag, ("twos-complement-width",
                                       f"reads as {n - (1 << w)} only at width {w}; expected width max(32, minimal)")
            return sign, mag, ("value-off", f"{body!r} is no two's complement of {cands} (unsigned value {n})")
        if body[0] == "0":
            return sign, mag, ("padding-excess", "leading zero on a two's-complement number")
    if value not in cands:
        if -value in cands:
            return sign, mag, ("sign-wrong", f"reads back as {value}, value is {x}")
        return sign, mag, ("value-off", f"reads back as {value}, value is {x}")
    if plain:
        if len(body) < places:
            return sign, mag, ("padding-short", f"{len(body)} digits shown, at least {places} asked for")
        if len(body) > max(places, 1) and body[0] == "0":
            return sign, mag, ("padding-excess", f"leading zero beyond the {places} places asked for")
    return sign, mag, None


# ---------------------------------------------------------------------------------------------
# fractions
# ---------------------------------------------------------------------------------------------
def best_fraction_error(x: Fraction, max_den: int) -> Fraction:
    """Distance from x to the nearest fraction with denominator <= max_den (brute force)."""
    best = None
    for q in range(1, max_den + 1):
        t = x * q
        fl = t.numerator // t.denominator
        for p in (fl, fl + 1):
            err = abs(Fraction(p, q) - x)
            if best is None or err < best:
                best = err
    return best


def judge_fraction(x: Decimal, text: str, *, accuracy: int):
    """accuracy: a fixed denominator (2, 4, 8, 16, 10, 100) or 0x100000000 - n for 'up to n digits'."""
    xf = Fraction(x)
    if accuracy & 0xFF000000:
        ndig = 0x100000000 - accuracy
        max_den = 10 ** ndig - 1
        half = Decimal(1) / Decimal(2 * max_den)
        fixed = None
    else:
        fixed = accuracy
        half = Decimal(1) / Decimal(2 * fixed)
    sign, mag = classify(x, half)
    m = re.fullmatch(r"(-?)(?:([0-9]+) )?(-?)([0-9]+)/([0-9]+)", text)
    improper = None
    if m:
        neg, whole, neg2, num, den = m.groups()
        num, den, whole = int(num), int(den), int(whole or 0)
        if den == 0:
            return sign, mag, ("unparsable", "zero denominator")
        val = whole + Fraction(num, den)
        if neg or neg2:
            val = -val
        if num == den:
            improper = ("fraction-part-equals-one", f"fraction part {num}/{den} is not carried into the whole part")
        elif num > den or num == 0 or (neg and neg2):
            improper = ("fraction-part-improper", f"fraction part {num}/{den} is not a proper fraction")
    elif re.fullmatch(r"-?[0-9]+", text):
        val = Fraction(int(text))
        den = 1
    else:
        return sign, mag, ("unparsable", f"{text!r} is neither 'n', 'n/d' nor 'w n/d'")
    if fixed is not None:
        tol = Fraction(1, 2 * fixed)
        err = abs(val - xf)
        if err > tol:
            if abs(-val - xf) <= tol:
                return sign, mag, ("sign-wrong", f"reads back as {val}, value is {x}")
            return sign, mag, ("value-off", f"reads back as {val} = {float(val)!r}, value is {x}, allowed distance 1/{2 * fixed}")
        if fixed % den != 0:
            return sign, mag, ("denominator-off", f"denominator {den} is not a divisor of {fixed}")
    else:
        if den > max_den:
            return sign, mag, ("denominator-off", f"denominator {den} has more than {ndig} digits")
        tol = best_fraction_error(xf, max_den) + Fraction(1, 10 ** 12)
        if abs(val - xf) > tol:
            if abs(-val - xf) <= tol:
                return sign, mag, ("sign-wrong", f"reads back as {val}, value is {x}")
            return sign, mag, ("value-off", f"reads back as {val} = {float(val)!r}, value is {x}, best distance "
                                            f"with <= {ndig} digits is {float(tol):.3g}")
    if improper:
        return sign, mag, improper
    return sign, mag, None


# ---------------------------------------------------------------------------------------------
# star rating
# ---------------------------------------------------------------------------------------------
def judge_rating(x: Decimal, text: str):
    sign, mag = classify(x, Decimal("0.5"))
    if text.strip(STAR) != "":
        return sign, mag, ("unparsable", f"{text!r} is not a run of stars")
    k = len(text)
    if abs(Decimal(k) - x) > Decimal("0.5"):
        return sign, mag, ("value-off", f"{k} stars for value {x}")
    return sign, mag, None
