"""Run bookkeeping: counters, samples, VIOLATION / KNOWN-FINDING protocol, evidence files.

Every check builds one `Run`, feeds it counters and failures and calls `finish()`, which
  * matches each distinct failure identity against /verif/known_findings.json ("known" entries only),
  * writes a replay artefact for every unmatched failure and re-executes it twice in a fresh
    process (a failure that does not reproduce is a harness error, exit 2, never a VIOLATION),
  * writes /verif/evidence/<id>.json (schema: /root/.vp/EVIDENCE.schema.json),
  * prints the protocol lines and returns the exit status (0 held / 1 violation / 2 harness error).
"""
from __future__ import annotations

import argparse
import collections
import hashlib
import json
import os
import subprocess
import sys
import time

ROOT = os.path.dirname(os.path.dirname(os.path.abspath(__file__)))
REPO_SRC = os.environ.get("VERIF_REPO_SRC", "/repo/src")
REPO = os.path.dirname(REPO_SRC.rstrip("/"))
FIXTURES = os.path.join(REPO, "tests", "data")
MAX_REPORTED = 25


def parse_args(argv=None):
    ap = argparse.ArgumentParser()
    ap.add_argument("--tier", default=os.environ.get("VERIF_TIER") or "quick", choices=["quick", "thorough"])
    ap.add_argument("--replay", default=None)
    ap.add_argument("--jobs", type=int, default=int(os.environ.get("VERIF_JOBS", "0")) or min(16, os.cpu_count() or 1))
    ap.add_argument("--no-confirm", action="store_true", help="do not re-execute replay artefacts")
    args = ap.parse_args(argv)
    try:
        args.seed = int(os.environ.get("VERIF_SEED", "0") or 0)
    except ValueError:
        args.seed = 0
    return args


def load_known(property_id):
    path = os.path.join(ROOT, "known_findings.json")
    with open(path) as f:
        data = json.load(f)
    return [e for e in data["findings"] if e["property"] == property_id and e["status"] == "known"]


def ident_matches(match: dict, ident: dict) -> bool:
    """A known finding matches a failure iff every key it names has exactly that value."""
    return all(ident.get(k) == v for k, v in match.items())


def _jsonable(x):
    try:
        json.dumps(x)
        return x
    except TypeError:
        if isinstance(x, dict):
            return {str(k): _jsonable(v) for k, v in x.items()}
        if isinstance(x, (list, tuple, set, frozenset)):
            return [_jsonable(v) for v in x]
        return repr(x)


class Run:
    def __init__(self, property_id, level, args, check_name=None):
        self.pid = property_id
        self.level = level
        self.args = args
        self.tier = args.tier
        self.seed = args.seed
        self.t0 = time.time()
        self.counters = collections.Counter()
        self.outcomes = collections.Counter()
        self.samples = []
        self.max_samples = 8
        self.failures = collections.OrderedDict()  # ident-key -> record
        self.n_failures = 0
        self.caps = []
        self.assumptions = []
        self.extra = {}
        self.floors = []  # (description, bool)
        self.harness_errors = []
        self.check_name = check_name or property_id

    # -- bookkeeping -----------------------------------------------------------------------
    def count(self, key, n=1):
        self.counters[key] += n

    def outcome(self, cls, n=1):
        self.outcomes[str(cls)] += n

    def sample(self, x):
        if len(self.samples) < self.max_samples:
            self.samples.append(_jsonable(x))

    def cap(self, text):
        self.caps.append(text)

    def assume(self, text):
        self.assumptions.append(text)

    def floor(self, description, ok):
        """Non-vacuity self-test: a missed floor is a harness error (exit 2)."""
        self.floors.append((description, bool(ok)))

    def fail(self, ident: dict, detail: str, replay):
        """Record one failure. ident = structured identity (mechanism, class, pattern...)."""
        self.n_failures += 1
        key = json.dumps(_jsonable(ident), sort_keys=True)
        rec = self.failures.get(key)
        if rec is None:
            self.failures[key] = {"ident": _jsonable(ident), "detail": detail, "replay": _jsonable(replay), "count": 1}
        else:
            rec["count"] += 1

    def merge(self, part: dict):
        """Merge a worker's partial result produced by `Part.dump()`."""
        for k, v in part.get("counters", {}).items():
            self.counters[k] += v
        for k, v in part.get("outcomes", {}).items():
            self.outcomes[k] += v
        for s in part.get("samples", []):
            self.sample(s)
        for f in part.get("failures", []):
            self.n_failures += f.get("count", 1) - 1
            self.fail(f["ident"], f["detail"], f["replay"])
            if f.get("count", 1) > 1:
                key = json.dumps(_jsonable(f["ident"]), sort_keys=True)
                self.failures[key]["count"] += f["count"] - 1
        for e in part.get("harness_errors", []):
            self.harness_errors.append(e)

    # -- finish ----------------------------------------------------------------------------
    def finish(self, coverage: dict | None = None):
        known = load_known(self.pid)
        lines = []
        unmatched = []
        matched_known = collections.OrderedDict()
        for key, rec in self.failures.items():
            hit = next((k for k in known if ident_matches(k["match"], rec["ident"])), None)
            if hit is not None:
                matched_known.setdefault(hit["id"], [hit, 0])[1] += rec["count"]
            else:
                unmatched.append(rec)
        for kid, (hit, n) in matched_known.items():
            lines.append(f"KNOWN-FINDING: property={self.pid} {kid}: {hit['what']} ({n} occurrences in this run)")
        status = 0
        replay_paths = []
        for rec in unmatched[:MAX_REPORTED]:
            payload = {"property": self.pid, "check": self.check_name, "ident": rec["ident"], "detail": rec["detail"],
                       "replay": rec["replay"], "occurrences": rec["count"]}
            blob = json.dumps(payload, sort_keys=True, indent=1)
            name = f"{self.check_name}-{hashlib.sha1(blob.encode()).hexdigest()[:12]}.json"
            path = os.path.join(ROOT, "replays", name)
            os.makedirs(os.path.dirname(path), exist_ok=True)
            with open(path, "w") as f:
                f.write(blob)
            replay_paths.append(path)
        # confirm determinism of the first few artefacts in fresh processes
        if unmatched and not self.args.no_confirm and not self.args.replay:
            for path in replay_paths[:3]:
                codes = []
                for _ in range(2):
                    p = subprocess.run([os.path.join(ROOT, "check"), self.check_name, "--replay", path],
                                       capture_output=True, text=True, timeout=1800)
                    codes.append(p.returncode)
                if codes != [1, 1]:
                    self.harness_errors.append(f"replay of {path} did not reproduce deterministically: exit codes {codes}")
        for rec, path in zip(unmatched, replay_paths):
            lines.append(f"VIOLATION property={self.pid} replay={path}")
            lines.append(f"  ident={json.dumps(rec['ident'], sort_keys=True)} occurrences={rec['count']}")
            lines.append("  " + rec["detail"][:600].replace("\n", "\n  "))
        if len(unmatched) > MAX_REPORTED:
            lines.append(f"  ... and {len(unmatched) - MAX_REPORTED} further distinct failure identities")
        if unmatched:
            status = 1
        for desc, ok in self.floors:
            if not ok:
                self.harness_errors.append(f"coverage floor missed: {desc}")
        if self.harness_errors:
            for e in self.harness_errors[:10]:
                lines.append(f"HARNESS-ERROR property={self.pid} {e}")
            if len(self.harness_errors) > 10:
                lines.append(f"HARNESS-ERROR property={self.pid} ... and {len(self.harness_errors) - 10} more")
            status = 2 if status == 0 else status

        cov = {}
        cov.update({k: v for k, v in self.counters.items()})
        cov["distinct_outcomes"] = len(self.outcomes)
        cov["outcome_histogram"] = dict(self.outcomes.most_common(40))
        cov["samples"] = self.samples or ["(no samples recorded)"]
        cov["caps_hit"] = self.caps
        cov["floors"] = [{"floor": d, "met": ok} for d, ok in self.floors]
        cov["known_findings_matched"] = {k: v[1] for k, v in matched_known.items()}
        cov.update(self.extra)
        if coverage:
            cov.update(coverage)
        if "exhaustive" not in cov:
            cov["exhaustive"] = not self.caps
        ev = {
            "property_id": self.pid,
            "tier": self.tier,
            "seed": self.seed,
            "level": self.level,
            "coverage": _jsonable(cov),
            "assumptions": self.assumptions,
            "wall_s": round(time.time() - self.t0, 2),
            "violations": len(unmatched),
        }
        if not self.args.replay:
            evdir = os.environ.get("VERIF_EVIDENCE_DIR") or os.path.join(ROOT, "evidence")
            os.makedirs(evdir, exist_ok=True)
            out = os.path.join(evdir, f"{self.pid}.json")
            tmp = out + ".tmp"
            with open(tmp, "w") as f:
                json.dump(ev, f, indent=1, sort_keys=True)
                f.write("\n")
            os.replace(tmp, out)
        for ln in lines:
            print(ln)
        summary = {k: v for k, v in cov.items() if isinstance(v, (int, float, bool))}
        print(f"[{self.pid}] tier={self.tier} seed={self.seed} wall={ev['wall_s']}s status={status} {json.dumps(summary, sort_keys=True)}")
        sys.stdout.flush()
        return status


class Part:
    """Per-worker accumulator with the same recording API as Run; `dump()` is picklable."""

    def __init__(self, max_samples=3):
        self.counters = collections.Counter()
        self.outcomes = collections.Counter()
        self.samples = []
        self.failures = collections.OrderedDict()
        self.harness_errors = []
        self.max_samples = max_samples

    def count(self, key, n=1):
        self.counters[key] += n

    def outcome(self, cls, n=1):
        self.outcomes[str(cls)] += n

    def sample(self, x):
        if len(self.samples) < self.max_samples:
            self.samples.append(_jsonable(x))

    def fail(self, ident, detail, replay):
        key = json.dumps(_jsonable(ident), sort_keys=True)
        rec = self.failures.get(key)
        if rec is None:
            self.failures[key] = {"ident": _jsonable(ident), "detail": detail, "replay": _jsonable(replay), "count": 1}
        else:
            rec["count"] += 1

    def dump(self):
        return {"counters": dict(self.counters), "outcomes": dict(self.outcomes), "samples": self.samples,
                "failures": list(self.failures.values()), "harness_errors": self.harness_errors}


def run_replay(args, replay_fn):
    """Shared `--replay` entry: replay_fn(payload['replay'], payload) -> (violates: bool, text)."""
    with open(args.replay) as f:
        payload = json.load(f)
    violates, text = replay_fn(payload["replay"], payload)
    print(text)
    if violates:
        print(f"VIOLATION property={payload['property']} replay={os.path.abspath(args.replay)}")
        return 1
    print("replay: property held on this artefact")
    return 0
