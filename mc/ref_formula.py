"""Reference model for formula rendering (C08) and source of rendered formula texts (C18).

Contents
  * expression trees (plain nested tuples, JSON friendly) and the bounded-exhaustive generators
    of them (`case_groups`),
  * `to_nodes`: tree -> stored post-fix node array *as Numbers stores it* (explicit LIST nodes
    wherever the infix text needs parentheses),
  * `render_cases`: injects node arrays into a real document, saves, reopens and reads
    `Cell.formula` (the only place the library under test is driven),
  * `parse`: an independent precedence-climbing parser of the reported text whose lexer is
    generated from FUNCTION_MAP (so names such as DEC2BIN, LOG10, MODE.MULT are single tokens),
  * `canon` / `diff`: canonical comparison form and structural diff with a failure identity,
  * `rendered_formulas(tier)`: every formula text the library rendered for the generated trees.

Nothing here imports numbers_parser.formula or numbers_parser.tokenizer.

Tree forms (tuples; lists are accepted wherever JSON delivers them):
  ("num", mantissa, exp10)         NUMBER_NODE, value = mantissa * 10**exp10, mantissa >= 0
  ("str", text)                    STRING_NODE
  ("bool", value, "b" | "t")       BOOLEAN_NODE | TOKEN_NODE
  ("date", y, m, d)                DATE_NODE (midnight)
  ("ref", row, col, rabs, cabs)    CELL_REFERENCE_NODE; stored numbers: offset if relative, index if absolute
  ("empty",)                       EMPTY_ARGUMENT_NODE (function arguments only)
  ("bin", op, left, right)         op in BINOPS
  ("neg", x) ("pct", x)            NEGATION_NODE / PERCENT_NODE
  ("list", (items...))             explicit LIST_NODE
  ("fn", function_id, (args...))   FUNCTION_NODE
  ("arr", nrows, ncols, (items row-major...))   ARRAY_NODE
"""
from __future__ import annotations

import itertools
import os
import re
from datetime import datetime
from decimal import Decimal

from numbers_parser.generated import TSCEArchives_pb2 as TSCE
from numbers_parser.generated.functionmap import FUNCTION_MAP

_T = TSCE.ASTNodeArrayArchive
_N = _T.ASTNodeArchive

BINOPS = ["+", "-", "×", "÷", "^", "&", "=", "≠", "<", ">", "≤", "≥"]
BIN_NODE = {
    "+": "ADDITION_NODE", "-": "SUBTRACTION_NODE", "×": "MULTIPLICATION_NODE", "÷": "DIVISION_NODE",
    "^": "POWER_NODE", "&": "CONCATENATION_NODE", "=": "EQUAL_TO_NODE", "≠": "NOT_EQUAL_TO_NODE",
    "<": "LESS_THAN_NODE", ">": "GREATER_THAN_NODE", "≤": "LESS_THAN_OR_EQUAL_TO_NODE",
    "≥": "GREATER_THAN_OR_EQUAL_TO_NODE",
}
# conventional precedence: % > ^ > unary minus > x / > + - > & > comparisons; left associative
PREC = {"=": 1, "≠": 1, "<": 1, ">": 1, "≤": 1, "≥": 1, "&": 2, "+": 3, "-": 3, "×": 4, "÷": 4, "^": 6}
NEG_PREC = 5
PCT_PREC = 7
ATOM_PREC = 99
FUNCTION_IDS = sorted(FUNCTION_MAP)
DATE_ID = next(k for k, v in FUNCTION_MAP.items() if v == "DATE")
INT_HIGH = 0x3040000000000000


def tup(x):
    """JSON lists -> tuples, recursively."""
    if isinstance(x, (list, tuple)):
        return tuple(tup(i) for i in x)
    return x


# ------------------------------------------------------------------------------------------
# tree -> stored post-fix node array
# ------------------------------------------------------------------------------------------
def _prec(t):
    k = t[0]
    if k == "bin":
        return PREC[t[1]]
    if k == "neg":
        return NEG_PREC
    if k == "pct":
        return PCT_PREC
    return ATOM_PREC


def _needs_list(parent, side, child):
    """Where Numbers stores a LIST node because the user had to type parentheses."""
    if parent[0] == "bin":
        p = PREC[parent[1]]
        c = _prec(child)
        return c < p or (side == 1 and c == p) or (parent[1] == "^" and c <= p) or (child[0] == "neg" and side == 1)
    if parent[0] in ("neg", "pct"):
        return _prec(child) < ATOM_PREC
    return False


def num_value(t) -> Decimal:
    return Decimal(t[1]).scaleb(t[2])


def sig_digits(d: Decimal) -> int:
    return len("".join(map(str, d.as_tuple().digits)).strip("0")) or 1


def double_decimal(d: Decimal) -> Decimal:
    """The shortest decimal that denotes the same double as d (what 'the stored double' means as text)."""
    return Decimal(repr(float(d)))


def canon_num(t) -> Decimal:
    """The number a NUMBER node denotes. A node stored with a decimal exponent is rendered from its
    double; when its decimal has more than 15 significant digits the double is the stored literal,
    so such a node denotes exactly that double (any text with float(text) == double is right)."""
    v = num_value(t)
    if t[2] != 0 and sig_digits(v) > 15:
        return double_decimal(v)
    return v


def to_nodes(t, out=None, deco=False):
    """Serialise a tree to the list of ASTNodeArchive messages (post-fix order).

    deco=True adds the text-neutral nodes Numbers stores around arguments: thunks
    (BEGIN_EMBEDDED_NODE_ARRAY ... END_THUNK_NODE) and PREPEND/APPEND_WHITESPACE nodes.
    """
    top = out is None
    if top:
        out = []
    k = t[0]
    if k == "num":
        _, mant, exp = t
        out.append(_N(AST_node_type=_T.NUMBER_NODE, AST_number_node_number=float(num_value(t)),
                      AST_number_node_decimal_low=mant, AST_number_node_decimal_high=(0x3040 + 2 * exp) << 48))
    elif k == "str":
        out.append(_N(AST_node_type=_T.STRING_NODE, AST_string_node_string=t[1]))
    elif k == "bool":
        if t[2] == "t":
            out.append(_N(AST_node_type=_T.TOKEN_NODE, AST_token_node_boolean=bool(t[1])))
        else:
            out.append(_N(AST_node_type=_T.BOOLEAN_NODE, AST_boolean_node_boolean=bool(t[1])))
    elif k == "date":
        secs = (datetime(t[1], t[2], t[3]) - datetime(2001, 1, 1)).total_seconds()
        out.append(_N(AST_node_type=_T.DATE_NODE, AST_date_node_dateNum=secs))
    elif k == "ref":
        n = _N(AST_node_type=_T.CELL_REFERENCE_NODE)
        n.AST_row.row = t[1]
        n.AST_row.absolute = bool(t[3])
        n.AST_column.column = t[2]
        n.AST_column.absolute = bool(t[4])
        out.append(n)
    elif k == "empty":
        out.append(_N(AST_node_type=_T.EMPTY_ARGUMENT_NODE))
    elif k == "bin":
        for side in (0, 1):
            ch = t[2 + side]
            to_nodes(ch, out, deco)
            if _needs_list(t, side, ch):
                out.append(_N(AST_node_type=_T.LIST_NODE, AST_list_node_numArgs=1))
        out.append(_N(AST_node_type=getattr(_T, BIN_NODE[t[1]])))
    elif k in ("neg", "pct"):
        to_nodes(t[1], out, deco)
        if _needs_list(t, 0, t[1]):
            out.append(_N(AST_node_type=_T.LIST_NODE, AST_list_node_numArgs=1))
        out.append(_N(AST_node_type=_T.NEGATION_NODE if k == "neg" else _T.PERCENT_NODE))
    elif k == "list":
        for a in t[1]:
            to_nodes(a, out, deco)
        out.append(_N(AST_node_type=_T.LIST_NODE, AST_list_node_numArgs=len(t[1])))
    elif k == "fn":
        for i, a in enumerate(t[2]):
            thunk = deco and i >= 1 and a[0] != "empty"
            if thunk:
                out.append(_N(AST_node_type=_T.BEGIN_EMBEDDED_NODE_ARRAY))
            to_nodes(a, out, deco)
            if thunk:
                out.append(_N(AST_node_type=_T.END_THUNK_NODE))
            if deco and i >= 1:
                out.append(_N(AST_node_type=_T.PREPEND_WHITESPACE_NODE, AST_whitespace=" "))
        out.append(_N(AST_node_type=_T.FUNCTION_NODE, AST_function_node_index=t[1], AST_function_node_numArgs=len(t[2])))
    elif k == "arr":
        assert len(t[3]) == t[1] * t[2]
        for i, a in enumerate(t[3]):
            to_nodes(a, out, deco)
            if deco and i >= 1:
                out.append(_N(AST_node_type=_T.PREPEND_WHITESPACE_NODE, AST_whitespace=" "))
        out.append(_N(AST_node_type=_T.ARRAY_NODE, AST_array_node_numRow=t[1], AST_array_node_numCol=t[2]))
    else:
        raise ValueError(f"unknown tree kind {k!r}")
    if top and deco:
        out.append(_N(AST_node_type=_T.APPEND_WHITESPACE_NODE, AST_whitespace=" "))
    return out


# ------------------------------------------------------------------------------------------
# canonical comparison form of a generated tree
# ------------------------------------------------------------------------------------------
def col_name(c: int) -> str:
    """Bijective base-26 column name, written independently of numbers_parser.xrefs."""
    s = ""
    c += 1
    while c > 0:
        c, r = divmod(c - 1, 26)
        s = chr(65 + r) + s
    return s


def ref_text(t, host) -> str:
    _, r, c, ra, ca = t
    row = r if ra else host[0] + r
    col = c if ca else host[1] + c
    return ("$" if ca else "") + col_name(col) + ("$" if ra else "") + str(row + 1)


def canon(t, host):
    """What the reported text must denote: single-item lists (parentheses) are transparent,
    function ids become names, references become their A1 text at `host`, numbers become Decimal,
    DATE(y,m,d) of three plain numbers is the same thing as a date literal."""
    k = t[0]
    if k == "num":
        return ("num", canon_num(t))
    if k == "str":
        return ("str", t[1])
    if k == "bool":
        return ("bool", bool(t[1]))
    if k == "date":
        return ("date", t[1], t[2], t[3])
    if k == "ref":
        return ("ref", ref_text(t, host))
    if k == "empty":
        return ("empty",)
    if k == "bin":
        return ("bin", t[1], canon(t[2], host), canon(t[3], host))
    if k in ("neg", "pct"):
        return (k, canon(t[1], host))
    if k == "list":
        items = tuple(canon(a, host) for a in t[1])
        return items[0] if len(items) == 1 else ("list", items)
    if k == "fn":
        return _date_call(("fn", FUNCTION_MAP[t[1]], tuple(canon(a, host) for a in t[2])))
    if k == "arr":
        return ("arr", t[1], t[2], tuple(canon(a, host) for a in t[3]))
    raise ValueError(k)


def _date_call(f):
    if f[1] == "DATE" and len(f[2]) == 3 and all(a[0] == "num" and a[1] == a[1].to_integral_value() for a in f[2]):
        return ("date",) + tuple(int(a[1]) for a in f[2])
    return f


# ------------------------------------------------------------------------------------------
# independent parser of the reported text
# ------------------------------------------------------------------------------------------
class ParseError(Exception):
    def __init__(self, category, text):
        super().__init__(f"{category}: {text}")
        self.category = category


_NAMES = sorted(FUNCTION_MAP.values(), key=lambda s: (-len(s), s))
_TOK = re.compile(
    r"(?P<fn>(?:" + "|".join(re.escape(n) for n in _NAMES) + r"))(?=\()"
    r"|(?P<num>(?:\d+(?:\.\d*)?|\.\d+)(?:[eE][-+]?\d+)?)"
    r'|(?P<str>"(?:[^"]|"")*")'
    r"|(?P<bool>TRUE|FALSE)(?![A-Za-z0-9_.(])"
    r"|(?P<ref>\$?[A-Z]{1,3}\$?[1-9][0-9]*)(?![A-Za-z0-9_.(])"
    r"|(?P<op><>|<=|>=|[-+×÷*/^&=≠<>≤≥%(){},;])"
)
_ALIAS = {"<>": "≠", "<=": "≤", ">=": "≥", "*": "×", "/": "÷"}


def tokenize(s):
    out = []
    pos = 0
    while pos < len(s):
        m = _TOK.match(s, pos)
        if not m:
            raise ParseError("unexpected-character", f"{s[pos:pos + 12]!r} at {pos} in {s!r}")
        pos = m.end()
        kind = m.lastgroup
        v = m.group(kind)
        if kind == "num":
            d = Decimal(v)
            if sig_digits(d) > 15 and d != d.to_integral_value():
                d = double_decimal(d)  # compared as the double the text denotes
            out.append(("num", d))
        elif kind == "str":
            out.append(("str", v[1:-1].replace('""', '"')))
        elif kind == "bool":
            out.append(("bool", v == "TRUE"))
        elif kind == "op":
            out.append(("op", _ALIAS.get(v, v)))
        else:
            out.append((kind, v))
    return out


class _Parser:
    def __init__(self, toks, text):
        self.t = toks
        self.i = 0
        self.text = text

    def peek(self):
        return self.t[self.i] if self.i < len(self.t) else ("eof", None)

    def next(self):
        x = self.peek()
        self.i += 1
        return x

    def expect(self, v):
        x = self.next()
        if x != ("op", v):
            raise ParseError("unbalanced-or-misplaced-token", f"expected {v!r}, found {x} in {self.text!r}")

    def expr(self, minp=0):
        left = self.unary()
        while True:
            k, v = self.peek()
            if k == "op" and v in PREC and PREC[v] >= minp:
                self.next()
                right = self.expr(PREC[v] + 1)  # left associative
                left = ("bin", v, left, right)
            else:
                return left

    def unary(self):
        if self.peek() == ("op", "-"):
            self.next()
            return self.postfix(("neg", self.expr(NEG_PREC)))
        return self.postfix(self.atom())

    def postfix(self, x):
        while self.peek() == ("op", "%"):
            self.next()
            x = ("pct", x)
        return x

    def atom(self):
        k, v = self.next()
        if k in ("num", "str", "bool", "ref"):
            return (k, v)
        if k == "fn":
            self.expect("(")
            args = []
            if self.peek() == ("op", ")"):
                self.next()
                return ("fn", v, ())
            while True:
                if self.peek() in (("op", ","), ("op", ")")):
                    args.append(("empty",))
                else:
                    args.append(self.expr())
                x = self.next()
                if x == ("op", ")"):
                    break
                if x != ("op", ","):
                    raise ParseError("unbalanced-or-misplaced-token", f"in arguments of {v}: {x} in {self.text!r}")
            return _date_call(("fn", v, tuple(args)))
        if (k, v) == ("op", "("):
            items = [self.expr()]
            while self.peek() == ("op", ","):
                self.next()
                items.append(self.expr())
            self.expect(")")
            return items[0] if len(items) == 1 else ("list", tuple(items))
        if (k, v) == ("op", "{"):
            rows = [[]]
            while True:
                rows[-1].append(self.expr())
                x = self.next()
                if x == ("op", "}"):
                    break
                if x == ("op", ";"):
                    rows.append([])
                elif x != ("op", ","):
                    raise ParseError("unbalanced-or-misplaced-token", f"in array: {x} in {self.text!r}")
            if len({len(r) for r in rows}) != 1:
                raise ParseError("ragged-array", self.text)
            return ("arr", len(rows), len(rows[0]), tuple(itertools.chain.from_iterable(rows)))
        raise ParseError("operand-missing", f"found {(k, v)} where an operand should start in {self.text!r}")


def parse(text: str):
    """Reported formula text -> canonical tree (same form as `canon`). Raises ParseError."""
    p = _Parser(tokenize(text), text)
    x = p.expr()
    if p.peek()[0] != "eof":
        raise ParseError("trailing-tokens", f"{p.peek()} after a complete expression in {text!r}")
    return x


# ------------------------------------------------------------------------------------------
# structural diff with a failure identity
# ------------------------------------------------------------------------------------------
def _kind(t):
    return f"bin:{t[1]}" if t[0] == "bin" else t[0]


CATEGORY = {"bin": "operator", "neg": "unary", "pct": "unary", "fn": "call", "arr": "array", "list": "list"}


def _loose(t):
    """Labelling aid only (never part of a verdict): the tree with numbers reduced to their
    significant digits, so that a literal whose magnitude is wrong still pairs with its origin."""
    k = t[0]
    if k == "num":
        digits = "".join(map(str, t[1].as_tuple().digits)).strip("0")
        return ("num", digits or "0")
    if k == "bin":
        return ("bin", t[1], _loose(t[2]), _loose(t[3]))
    if k in ("neg", "pct"):
        return (k, _loose(t[1]))
    if k == "list":
        return ("list", tuple(_loose(a) for a in t[1]))
    if k == "fn":
        return ("fn", t[1], tuple(_loose(a) for a in t[2]))
    if k == "arr":
        return ("arr", t[1], t[2], tuple(_loose(a) for a in t[3]))
    return t


def _leafset(t):
    """Labelling aid: the set of (loose) leaves below a node."""
    k = t[0]
    if k == "bin":
        return _leafset(t[2]) | _leafset(t[3])
    if k in ("neg", "pct"):
        return _leafset(t[1])
    if k in ("list", "fn", "arr"):
        out = frozenset()
        for a in t[-1]:
            out |= _leafset(a)
        return out
    return frozenset([_loose(t)])


def flat(t):
    """In-order token sequence without parentheses (same sequence + different tree = regrouping)."""
    k = t[0]
    if k == "bin":
        return flat(t[2]) + [t[1]] + flat(t[3])
    if k == "neg":
        return ["neg"] + flat(t[1])
    if k == "pct":
        return flat(t[1]) + ["pct"]
    if k in ("list", "fn", "arr"):
        head = [k] + list(t[1:-1])
        for a in t[-1]:
            head += flat(a) + [","]
        return head + ["end"]
    return [t]


def diff(want, got, parent="root"):
    """None if equal, else (mechanism, parent_kind, pattern, want_sub, got_sub) describing the
    topmost difference. Leaves of generated trees are pairwise distinct, which is what makes
    swapped operands / permuted items recognisable."""
    if want == got:
        return None
    if parent == "root" and flat(want) == flat(got):
        return ("grouping", parent, "same-token-sequence-grouped-differently", want, got)
    k = want[0]
    if k != got[0]:
        if k in ("neg", "pct") and _loose(want[1]) == _loose(got):
            return (k, parent, "node-dropped", want, got)
        if got[0] in ("neg", "pct") and _loose(got[1]) == _loose(want):
            return (got[0], parent, "node-added", want, got)
        return (_kind(want), parent, "kind-changed", want, got)
    if k == "bin":
        if want[1] != got[1]:
            return (_kind(want), parent, "operator-changed", want, got)
        wl, wr, gl, gr = (_leafset(x) for x in (want[2], want[3], got[2], got[3]))
        if wl == gr and wr == gl and wl != wr:
            return (_kind(want), parent, "operands-swapped", want, got)
        return diff(want[2], got[2], "bin") or diff(want[3], got[3], "bin")
    if k in ("neg", "pct"):
        return diff(want[1], got[1], k)
    if k in ("list", "fn", "arr"):
        if k == "fn" and want[1] != got[1]:
            return ("fn", parent, "function-name", want, got)
        if k == "arr" and want[1:3] != got[1:3]:
            return ("arr", parent, "array-shape", want, got)
        a, b = want[-1], got[-1]
        if len(a) != len(b):
            return (k, parent, "item-count", want, got)
        la, lb = [_leafset(x) for x in a], [_leafset(x) for x in b]
        if la != lb and sorted(map(sorted, map(lambda f: map(repr, f), la))) == sorted(map(sorted, map(lambda f: map(repr, f), lb))):
            return (k, parent, "items-reversed" if la == lb[::-1] else "items-permuted", want, got)
        for x, y in zip(a, b):
            d = diff(x, y, k)
            if d:
                return d
    return (k, parent, "value", want, got)


# ------------------------------------------------------------------------------------------
# bounded-exhaustive generators
# ------------------------------------------------------------------------------------------
def _fn_reps(seed):
    """Representative function ids for the generic 'function call' kinds (rotated by the seed;
    every id is enumerated separately in the 'functions' group)."""
    n = len(FUNCTION_IDS)
    return [FUNCTION_IDS[(17 + 101 * seed + 53 * i) % n] for i in range(4)]


def kinds(seed=0):
    """Internal-node alphabet: name -> (slots, builder, allowed_only_under_function)."""
    f0, f1, f2, f3 = _fn_reps(seed)
    ks = []
    for op in BINOPS:
        ks.append((f"bin:{op}", 2, (lambda ch, op=op: ("bin", op, ch[0], ch[1])), False))
    ks.append(("neg", 1, lambda ch: ("neg", ch[0]), False))
    ks.append(("pct", 1, lambda ch: ("pct", ch[0]), False))
    ks.append(("paren", 1, lambda ch: ("list", (ch[0],)), False))
    ks.append(("list2", 2, lambda ch: ("list", tuple(ch)), True))
    ks.append(("fn0", 0, lambda ch: ("fn", f0, ()), False))
    ks.append(("fn1", 1, lambda ch: ("fn", f1, tuple(ch)), False))
    ks.append(("fn2", 2, lambda ch: ("fn", f2, tuple(ch)), False))
    ks.append(("fn3", 3, lambda ch: ("fn", f3, tuple(ch)), False))
    ks.append(("arr1x2", 2, lambda ch: ("arr", 1, 2, tuple(ch)), False))
    ks.append(("arr2x1", 2, lambda ch: ("arr", 2, 1, tuple(ch)), False))
    ks.append(("arr2x2", 4, lambda ch: ("arr", 2, 2, tuple(ch)), False))
    return ks


REDUCED = ["bin:-", "bin:÷", "bin:^", "bin:&", "bin:=", "bin:≤", "neg", "pct", "paren", "fn2", "arr1x2"]


def _compositions(n, parts):
    if parts == 0:
        if n == 0:
            yield ()
        return
    if parts == 1:
        yield (n,)
        return
    for first in range(n + 1):
        for rest in _compositions(n - first, parts - 1):
            yield (first,) + rest


def shapes(n, ks, under_fn=False):
    """Every tree with exactly n internal nodes over the kind alphabet ks; leaves are None."""
    if n == 0:
        yield None
        return
    for name, slots, _build, fn_only in ks:
        if fn_only and not under_fn:
            continue
        if slots == 0:
            if n == 1:
                yield (name, ())
            continue
        is_fn = name.startswith("fn")
        for comp in _compositions(n - 1, slots):
            for children in itertools.product(*(list(shapes(m, ks, is_fn)) if m else [None] for m in comp)):
                yield (name, children)


def count_shapes(n, ks, under_fn=False, _memo=None):
    """Number of trees `shapes(n, ks, under_fn)` yields, computed combinatorially (not by iterating)."""
    memo = {} if _memo is None else _memo
    key = (n, under_fn)
    if key in memo:
        return memo[key]
    if n == 0:
        return 1
    total = 0
    for name, slots, _build, fn_only in ks:
        if fn_only and not under_fn:
            continue
        if slots == 0:
            total += 1 if n == 1 else 0
            continue
        for comp in _compositions(n - 1, slots):
            p = 1
            for m in comp:
                p *= count_shapes(m, ks, name.startswith("fn"), memo)
            total += p
    memo[key] = total
    return total


def root_splits(n, ks):
    """The partition of `shapes(n, ks)` by (root kind, distribution of the remaining internal
    nodes over the root's slots), in generation order: [(root name, composition, count)]."""
    out = []
    for name, slots, _build, fn_only in ks:
        if fn_only:
            continue
        if slots == 0:
            if n == 1:
                out.append((name, (), 1))
            continue
        for comp in _compositions(n - 1, slots):
            p = 1
            for m in comp:
                p *= count_shapes(m, ks, name.startswith("fn"))
            out.append((name, comp, p))
    return out


def shapes_rooted(n, ks, root, comp):
    """The part of `shapes(n, ks)` with the given root kind and composition."""
    is_fn = root.startswith("fn")
    if not comp:
        yield (root, ())
        return
    for children in itertools.product(*(list(shapes(m, ks, is_fn)) if m else [None] for m in comp)):
        yield (root, children)


def fill(shape, ks_by_name, leaf_iter):
    """Shape -> tree; leaves are taken from leaf_iter in left-to-right (serialisation) order."""
    if shape is None:
        return next(leaf_iter)
    name, children = shape
    built = [fill(c, ks_by_name, leaf_iter) for c in children]
    return ks_by_name[name][2](built)


def int_leaves(start):
    n = start
    while True:
        yield ("num", n, 0)
        n += 1


def leaf_alphabet(seed=0):
    """(class name, tree) for every literal class; the seed rotates the representative."""
    def pick(*xs):
        return xs[seed % len(xs)]

    out = [
        ("int-small", ("num", pick(3, 7, 42), 0)),
        ("int-zero", ("num", 0, 0)),
        ("int-2^53+1", ("num", pick(9007199254740993, 9007199254740995, 18446744073709551615), 0)),
        ("fraction", ("num", *pick((5, -1), (25, -2), (275, -2)))),
        ("fraction-trailing-zero-mantissa", ("num", *pick((10650, -2), (120, -1), (7500, -3)))),
        ("small-1digit", ("num", *pick((1, -7), (3, -9), (2, -5)))),
        ("small-2digit", ("num", *pick((15, -8), (42, -10), (99, -6)))),
        ("small-3digit", ("num", *pick((125, -9), (101, -12), (999, -7)))),
        ("exp>0-below-1e16", ("num", *pick((1, 3), (25, 2), (123, 5)))),
        ("big-2digit", ("num", *pick((15, 21), (42, 15), (99, 30)))),          # rendered correctly today
        ("big-1digit", ("num", *pick((1, 20), (1, 21), (7, 16)))),             # known defect class
        ("big-3digit", ("num", *pick((125, 20), (101, 14), (999, 19)))),       # known defect class
        ("big-15digit", ("num", *pick((100000000000001, 7), (123456789012345, 2), (999999999999999, 9)))),
        ("big-trailing-zero-mantissa", ("num", *pick((100000000000000, 7), (1000, 18), (150, 20)))),
        # doubles that need 16 / 17 significant digits (decimal == shortest repr of the double)
        ("frac-16digit", ("num", *pick((3333333333333333, -16), (3141592653589793, -15), (6666666666666666, -16)))),
        ("frac-17digit", ("num", *pick((30000000000000004, -17), (12345678912345678, -8), (10000000000000002, -16)))),
        ("small-17digit", ("num", *pick((33333333333333334, -24), (12345678901234568, -21), (14285714285714286, -22)))),
        ("int-16digit-stored-with-exponent", ("num", *pick((12345678901234560, -1), (90071992547409910, -1), (11111111111111110, -1)))),
        ("str-plain", ("str", pick("s", "word", "Z9"))),
        ("str-empty", ("str", "")),
        ("str-quote", ("str", pick('q"t', '"lead', 'trail"'))),
        ("str-two-quotes", ("str", pick('a""b', '""', 'x"y"z'))),
        ("str-syntax-chars", ("str", pick("a,b);{c}", "(1+2)×3", "}{;,"))),
        ("str-space-unicode", ("str", pick(" é ", "日本 語", "tab\there"))),
        ("bool-true", ("bool", True, "b")),
        ("bool-false", ("bool", False, "b")),
        ("token-true", ("bool", True, "t")),
        ("token-false", ("bool", False, "t")),
        ("date-leap", ("date", *pick((2020, 2, 29), (2024, 2, 29), (2000, 2, 29)))),
        ("date-epoch", ("date", 2001, 1, 1)),
        ("date-before-epoch", ("date", *pick((1999, 12, 31), (1899, 12, 31), (1970, 1, 1)))),
        ("ref-rel", ("ref", pick(-1, 0, 2), pick(1, -1, 0), False, False)),
        ("ref-abs", ("ref", pick(1, 4, 0), pick(1, 0, 27), True, True)),
        ("ref-absrow", ("ref", pick(2, 0, 5), pick(-1, 1, 0), True, False)),
        ("ref-abscol", ("ref", pick(0, 2, -1), pick(3, 26, 0), False, True)),
    ]
    for cls, leaf in out:
        if leaf[0] == "num" and leaf[2] != 0 and sig_digits(num_value(leaf)) > 15:
            assert double_decimal(num_value(leaf)) == num_value(leaf), (cls, leaf)  # representative is a shortest repr
    return out


NESTED_SUBOPS_QUICK = ["+", "×", "="]


def nested_count(tier):
    n = len(BINOPS) if tier == "thorough" else len(NESTED_SUBOPS_QUICK)
    return (2 * len(BINOPS) + 3) * len(BINOPS) * (n + 3) * (n + 2)


def _gen_nested(tier, seed, base):
    """'Nested groups': outer context x LIST( left <inner op> right ) where left / right are
    themselves bracketed groups, calls or leaves - every combination, distinct leaves."""
    subops = BINOPS if tier == "thorough" else NESTED_SUBOPS_QUICK
    f0, f1, f2, f3 = _fn_reps(seed)
    g1 = _fn_reps(seed + 1)[1]
    lefts = [("grp", op) for op in subops] + [("call1", f1), ("call0", f0), ("leaf", None)]
    rights = [("grp", op) for op in subops] + [("call1", g1), ("leaf", None)]
    contexts = [("bin", op, side) for op in BINOPS for side in (0, 1)] + [("neg",), ("pct",), ("fnarg",)]

    def mk(spec, lv):
        kind, x = spec
        if kind == "grp":
            return ("list", (("bin", x, next(lv), next(lv)),))
        if kind == "call1":
            return ("fn", x, (next(lv),))
        if kind == "call0":
            return ("fn", x, ())
        return next(lv)

    for ctx in contexts:
        for inner in BINOPS:
            for lspec in lefts:
                for rspec in rights:
                    lv = int_leaves(base)
                    body = ("list", (("bin", inner, mk(lspec, lv), mk(rspec, lv)),))
                    if ctx[0] == "bin":
                        other = next(lv)
                        yield ("bin", ctx[1], body, other) if ctx[2] == 0 else ("bin", ctx[1], other, body)
                    elif ctx[0] == "fnarg":
                        yield ("fn", f2, (body, next(lv)))
                    else:
                        yield (ctx[0], body)


def _slot_contexts(ks):
    """Every (kind, slot) position of a one-internal-node tree."""
    for name, slots, _b, _fo in ks:
        for s in range(slots):
            yield name, s


def _subsets(n):
    for r in range(n + 1):
        yield from itertools.combinations(range(n), r)


BOUNDS = {
    "quick": dict(max_internal=2, reduced_internal=3, deep_internal=0, fn_arity=4, arr_max=3),
    "thorough": dict(max_internal=3, reduced_internal=4, deep_internal=4, fn_arity=4, arr_max=4),
}

GROUPS = ["leaves", "trees", "trees-reduced", "nested", "decorated", "functions", "arrays", "hosts"]
DEEP_GROUP = "trees-deep"  # thorough only: every tree with exactly deep_internal nodes, full alphabet (3.06e6)
ALL_GROUPS = GROUPS + [DEEP_GROUP]


def subgroups(group, tier, seed=0):
    """[(sub key or None, number of cases)] - a partition of the group used for sharding."""
    b = BOUNDS[tier]
    if group == DEEP_GROUP:
        if not b["deep_internal"]:
            return []
        return [((root, comp), cnt) for root, comp, cnt in root_splits(b["deep_internal"], kinds(seed))]
    return [(None, sum(1 for _ in gen_group(group, tier, seed)))]


def gen_group(group, tier, seed=0, sub=None):
    """Yield (tree, deco) for every case of a group (or of one of its `subgroups`), in a fixed
    order. Complete within BOUNDS[tier]."""
    b = BOUNDS[tier]
    ks = kinds(seed)
    by_name = {k[0]: k for k in ks}
    base = 101 + 13 * seed
    if group == "leaves":
        alpha = leaf_alphabet(seed)
        for _cls, leaf in alpha:
            yield leaf, False
        for name, slot in _slot_contexts(ks):
            for _cls, leaf in alpha:
                others = int_leaves(base)
                children = [leaf if s == slot else next(others) for s in range(by_name[name][1])]
                yield by_name[name][2](children), False
        # empty arguments are leaves too, but only exist as function arguments (functions group)
    elif group == "nested":
        for t in _gen_nested(tier, seed, base):
            yield t, False
    elif group == "trees":
        for n in range(1, b["max_internal"] + 1):
            for sh in shapes(n, ks):
                yield fill(sh, by_name, int_leaves(base)), False
    elif group == DEEP_GROUP:
        n = b["deep_internal"]
        if n:
            subs = [sub] if sub is not None else [k for k, _c in subgroups(group, tier, seed)]
            for root, comp in subs:
                for sh in shapes_rooted(n, ks, root, tuple(comp)):
                    yield fill(sh, by_name, int_leaves(base)), False
    elif group == "trees-reduced":
        red = [by_name[n] for n in REDUCED]
        for sh in shapes(b["reduced_internal"], red):
            yield fill(sh, by_name, int_leaves(base)), False
    elif group == "decorated":
        for n in range(1, 3):
            for sh in shapes(n, ks):
                t = fill(sh, by_name, int_leaves(base))
                if _has_deco_site(t):
                    yield t, True
    elif group == "functions":
        for fid in FUNCTION_IDS:
            for ar in range(b["fn_arity"] + 1):
                for empties in _subsets(ar):
                    if ar == 1 and empties:
                        continue  # NAME() with one empty argument is not distinguishable from arity 0
                    lv = int_leaves(base)
                    args = tuple(("empty",) if i in empties else next(lv) for i in range(ar))
                    yield ("fn", fid, args), False
    elif group == "arrays":
        alpha = [leaf for _c, leaf in leaf_alphabet(seed) if leaf[0] != "ref"]
        for r in range(1, b["arr_max"] + 1):
            for c in range(1, b["arr_max"] + 1):
                lv = int_leaves(base)
                yield ("arr", r, c, tuple(next(lv) for _ in range(r * c))), False
                # every rotation of the literal alphabet through the array (mixed element types)
                for rot in range(0, len(alpha), max(1, r * c)):
                    items = tuple(alpha[(rot + i) % len(alpha)] for i in range(r * c))
                    items = tuple(("neg", x) if (i % 3 == 2 and x[0] == "num") else x for i, x in enumerate(items))
                    yield ("arr", r, c, items), False
                    yield ("fn", _fn_reps(seed)[2], (("arr", r, c, items), next(lv))), False
    elif group == "hosts":
        # every marker combination x offsets/targets, each repeated so that it lands on several hosts
        for ra in (False, True):
            for ca in (False, True):
                for r in ((0, 3, 40) if ra else (-1, 0, 2)):
                    for c in ((0, 25, 26, 701, 702) if ca else (-1, 0, 1)):
                        ref = ("ref", r, c, ra, ca)
                        for rep in range(3):
                            yield ref, False
                            yield ("bin", "-", ("num", base + rep, 0), ("bin", "×", ("num", base + 50, 0), ref)), False
                            yield ("fn", _fn_reps(seed)[2], (ref, ("neg", ref))), False
    else:
        raise ValueError(group)


def has_ref_in_array(t):
    """True if a cell reference is a direct element of an array node somewhere in the tree."""
    k = t[0]
    if k == "arr":
        return any(a[0] == "ref" or has_ref_in_array(a) for a in t[3])
    if k == "bin":
        return has_ref_in_array(t[2]) or has_ref_in_array(t[3])
    if k in ("neg", "pct"):
        return has_ref_in_array(t[1])
    if k in ("list", "fn"):
        return any(has_ref_in_array(a) for a in t[-1])
    return False


def _has_deco_site(t):
    k = t[0]
    if k == "fn":
        return len(t[2]) >= 2 or any(_has_deco_site(a) for a in t[2])
    if k == "arr":
        return True
    if k == "bin":
        return _has_deco_site(t[2]) or _has_deco_site(t[3])
    if k in ("neg", "pct"):
        return _has_deco_site(t[1])
    if k == "list":
        return any(_has_deco_site(a) for a in t[1])
    return False


# ------------------------------------------------------------------------------------------
# host assignment and rendering through the real library
# ------------------------------------------------------------------------------------------
GRID_W = 8          # formulas are laid out GRID_W per row, starting at row 1 / column 1
DOC_CASES = 2000    # formulas per document (one save + reopen each)


def host_for(index_in_doc, seed=0):
    """Host cell of the j-th formula of a document."""
    return (1 + seed % 3 + index_in_doc // GRID_W, 1 + (seed // 3) % 2 + index_in_doc % GRID_W)


def cases_with_hosts(group, tier, seed=0, lo=0, hi=None, sub=None):
    """[(tree, deco, host)] for cases lo..hi of a (sub)group; the host depends only on the index."""
    out = []
    for i, (tree, deco) in enumerate(itertools.islice(gen_group(group, tier, seed, sub), lo, hi), start=lo):
        out.append((tree, deco, host_for(i % DOC_CASES, seed)))
    return out


def render_cases(cases, scratch_path, reopen=True):
    """Render [(tree, deco, host)] (pairwise distinct hosts) through the library.

    Returns one record per case: dict(live=..., text=..., again=..., is_formula=...) where each
    text slot is ("ok", str) or ("exc", "Type: message"). `text`/`again` are two reads of the
    saved-and-reopened document, `live` is read from the document that was written to.
    """
    import warnings

    from numbers_parser import Document

    hosts = [tuple(c[2]) for c in cases]
    assert len(set(hosts)) == len(hosts), "hosts must be distinct within one document"
    nrows = max(h[0] for h in hosts) + 4
    ncols = max(h[1] for h in hosts) + 3

    def read(cell):
        try:
            return ("ok", cell.formula)
        except Exception as e:  # noqa: BLE001 - any exception is a finding for the caller
            return ("exc", f"{type(e).__name__}: {e}"[:300])

    with warnings.catch_warnings():
        warnings.simplefilter("ignore")
        doc = Document(num_rows=nrows, num_cols=ncols, num_header_rows=0, num_header_cols=0)
        table = doc.sheets[0].tables[0]
        model = doc._model
        tid = table._table_id
        model._formulas.add_table(tid)
        for tree, deco, (r, c) in cases:
            nodes = to_nodes(tup(tree), deco=deco)
            key = model._formulas.lookup_key(tid, TSCE.FormulaArchive(AST_node_array=_T(AST_node=nodes)))
            table.write(r, c, 0)
            table.cell(r, c)._formula_id = key
        recs = [{"live": read(table.cell(r, c))} for r, c in hosts]
        if reopen:
            doc.save(scratch_path)
            doc2 = Document(scratch_path)
            t2 = doc2.sheets[0].tables[0]
            for rec, (r, c) in zip(recs, hosts):
                cell = t2.cell(r, c)
                rec["is_formula"] = bool(cell.is_formula)
                rec["text"] = read(cell)
                rec["again"] = read(cell)
            try:
                os.remove(scratch_path)
            except OSError:
                pass
        else:
            for rec in recs:
                rec["is_formula"] = True
                rec["text"] = rec["again"] = rec["live"]
    return recs


def rendered_formulas(tier="quick", seed=0, reopen=True, shard=None, groups=None):
    """Yield every formula text the library rendered for the C08 trees of `tier`
    (texts read from the saved-and-reopened document unless reopen=False). Default groups: GROUPS,
    i.e. everything except the 3.06e6-tree DEEP_GROUP of the thorough tier (pass groups=ALL_GROUPS
    to include it).

    shard=(i, n) restricts the output to the i-th of n interleaved document batches so that a
    caller can spread the work over its own process pool. Cases whose read raised are skipped
    (C08 reports those).
    """
    from mc.pool import Scratch

    batch_no = 0
    for group in groups or GROUPS:
        it = gen_group(group, tier, seed)
        while True:
            chunk = list(itertools.islice(it, DOC_CASES))
            if not chunk:
                break
            mine = shard is None or batch_no % shard[1] == shard[0]
            batch_no += 1
            if mine:
                cases = [(t, d, host_for(j, seed)) for j, (t, d) in enumerate(chunk)]
                path = Scratch.path(f"c08-texts-{os.getpid()}-{batch_no}.numbers")
                for rec in render_cases(cases, path, reopen=reopen):
                    if rec["text"][0] == "ok":
                        yield rec["text"][1]
