"""Family of documents produced through the library's own editing API (inputs of C02, C06, C07).

Each builder returns a live Document exercising one group of object-creating API calls; `build(name)`
is deterministic. The family is a fixed, enumerated list - not a sample.
"""
from __future__ import annotations

import os
from datetime import datetime, timedelta

from numbers_parser import RGB, Alignment, BackgroundImage, Border, Document, NegativeNumberStyle
from numbers_parser.constants import ControlFormattingType

from mc.evidence import FIXTURES

VALUES = ["text", "", "multi\nline", "astral \U0001F600", True, False, 0, -1, 12, 52, 10**15 - 1, 0.1, 0.12, -2.5, 1e-290, 1e290,
          datetime(2021, 3, 4, 5, 6, 7), datetime(1900, 1, 1), timedelta(days=1, seconds=2, milliseconds=3), timedelta(0)]


def _fill(t, values=VALUES, start_row=0):
    nc = t.num_cols
    for i, v in enumerate(values):
        t.write(start_row + i // nc, i % nc, v)


def b_values():
    d = Document(num_rows=4, num_cols=5)
    _fill(d.sheets[0].tables[0])
    return d


def b_multi():
    d = Document(num_rows=3, num_cols=3)
    _fill(d.sheets[0].tables[0], VALUES[:9])
    t2 = d.sheets[0].add_table("Second", num_rows=3, num_cols=2)
    _fill(t2, VALUES[4:10])
    d.add_sheet("Other", "Second", num_rows=2, num_cols=2)
    _fill(d.sheets[1].tables[0], ["a", "b", 1, 2])
    d.sheets[1].add_table(None, x=100.0, y=400.0, num_rows=2, num_cols=3)
    return d


def b_merges():
    d = Document(num_rows=6, num_cols=6, num_header_rows=0, num_header_cols=0)
    t = d.sheets[0].tables[0]
    for r in range(6):
        for c in range(6):
            t.write(r, c, f"{r}{c}")
    t.merge_cells(["A1:B1", "C2:C5", "D4:F6"])
    return d


def b_styles():
    d = Document(num_rows=5, num_cols=4)
    t = d.sheets[0].tables[0]
    s1 = d.add_style(name="Red", font_name="Lucida Grande", font_color=RGB(230, 25, 25), font_size=14.0, bold=True, italic=True,
                     alignment=Alignment("right", "top"))
    s2 = d.add_style(bg_color=RGB(29, 177, 0), underline=True, strikethrough=True, first_indent=1.0, left_indent=2.0, right_indent=3.0,
                     text_inset=5.0, text_wrap=False, alignment=Alignment("center", "bottom"))
    t.write(1, 1, "red", style=s1)
    t.write(2, 2, 3.5, style=s2)
    t.set_cell_style(3, 3, "Red")
    t.write(4, 0, "plain")
    return d


def b_bgimage():
    d = Document(num_rows=3, num_cols=3)
    t = d.sheets[0].tables[0]
    img = os.path.join(FIXTURES, "cat.jpg")
    with open(img, "rb") as f:
        data = f.read()
    s = d.add_style(name="Img", bg_image=BackgroundImage(data, "cat.jpg"))
    t.write(1, 1, "img", style=s)
    return d


def b_borders():
    d = Document(num_rows=4, num_cols=4)
    t = d.sheets[0].tables[0]
    _fill(t, VALUES[:16])
    t.set_cell_border(1, 1, "top", Border(3.0, RGB(255, 0, 0), "solid"), 2)
    t.set_cell_border(1, 1, "left", Border(1.0, RGB(0, 255, 0), "dashes"), 3)
    t.set_cell_border("C3", "bottom", Border(2.0, RGB(0, 0, 255), "dots"))
    t.set_cell_border(2, 2, "right", Border(0.5, RGB(0, 0, 0), "solid"))
    t.set_cell_border(1, 1, "top", Border(1.5, RGB(9, 9, 9), "solid"), 1)
    return d


def b_formats():
    d = Document(num_rows=8, num_cols=4)
    t = d.sheets[0].tables[0]
    t.write(0, 0, 1234.5678)
    t.set_cell_formatting(0, 0, "number", decimal_places=2, show_thousands_separator=True, negative_style=NegativeNumberStyle.RED)
    t.write(0, 1, -1234.5)
    t.set_cell_formatting(0, 1, "currency", currency_code="EUR", decimal_places=1, use_accounting_style=True)
    t.write(0, 2, 0.256)
    t.set_cell_formatting(0, 2, "percentage", decimal_places=1)
    t.write(0, 3, 12345.678)
    t.set_cell_formatting(0, 3, "scientific", decimal_places=3)
    t.write(1, 0, 255)
    t.set_cell_formatting(1, 0, "base", base=16, base_places=4, base_use_minus_sign=False)
    t.write(1, 1, 0.375)
    t.set_cell_formatting(1, 1, "fraction")
    t.write(1, 2, datetime(2022, 12, 25, 13, 14, 15))
    t.set_cell_formatting(1, 2, "datetime", date_time_format="EEEE, d MMMM yyyy HH:mm")
    t.write(2, 0, True)
    t.set_cell_formatting(2, 0, "tickbox")
    t.write(2, 1, 3)
    t.set_cell_formatting(2, 1, "rating")
    t.write(2, 2, 50)
    t.set_cell_formatting(2, 2, "slider", minimum=0, maximum=100, increment=5)
    t.write(2, 3, 7)
    t.set_cell_formatting(2, 3, "stepper", minimum=0, maximum=10, increment=1, control_format=ControlFormattingType.PERCENTAGE)
    t.write(3, 0, "Dog")
    t.set_cell_formatting(3, 0, "popup", popup_values=["Cat", "Dog", "Rabbit"], allow_none=True)
    t.write(3, 1, 2)
    t.set_cell_formatting(3, 1, "popup", popup_values=[1, 2, 3.5], allow_none=False)
    return d


def b_two_tables_formats():
    """Two tables (the second cloned from the first) that both allocate format and control keys."""
    d = Document(num_rows=3, num_cols=3)
    t1 = d.sheets[0].tables[0]
    t2 = d.sheets[0].add_table("T2", num_rows=3, num_cols=3)
    t1.write(1, 1, 1234.5)
    t1.set_cell_formatting(1, 1, "number", decimal_places=3)
    t2.write(1, 1, 0.5)
    t2.set_cell_formatting(1, 1, "percentage", decimal_places=1)
    t1.write(2, 2, 99.0)
    t1.set_cell_formatting(2, 2, "currency", currency_code="USD")
    t2.write(2, 2, 7.0)
    t2.set_cell_formatting(2, 2, "scientific", decimal_places=2)
    t1.write(0, 0, True)
    t1.set_cell_formatting(0, 0, "tickbox")
    t2.write(0, 0, 3)
    t2.set_cell_formatting(0, 0, "rating")
    t2.write(0, 1, "Dog")
    t2.set_cell_formatting(0, 1, "popup", popup_values=["Cat", "Dog"])
    t1.write(0, 1, 5)
    t1.set_cell_formatting(0, 1, "slider")
    t1.merge_cells("B3:C3") if False else None
    return d


def b_custom_formats():
    d = Document(num_rows=5, num_cols=3)
    t = d.sheets[0].tables[0]
    f1 = d.add_custom_format(name="Two places", type="number", num_decimals=2, integer_format=_pad("ZEROS"), num_integers=4, show_thousands_separator=True)
    f2 = d.add_custom_format(type="datetime", format="dd/MM/yyyy")
    f3 = d.add_custom_format(type="text", format="before %s after")
    t.write(1, 0, 12.345)
    t.set_cell_formatting(1, 0, "custom", format=f1)
    t.write(1, 1, datetime(2020, 2, 29))
    t.set_cell_formatting(1, 1, "custom", format=f2)
    t.write(1, 2, "txt")
    t.set_cell_formatting(1, 2, "custom", format=f3)
    t.write(2, 0, 99.5)
    t.set_cell_formatting(2, 0, "custom", format="Two places")
    return d


def _pad(name):
    from numbers_parser import PaddingType

    return getattr(PaddingType, name)


def b_geometry():
    d = Document(num_rows=5, num_cols=4, num_header_rows=2, num_header_cols=1, sheet_name="Géo", table_name="Tàble")
    t = d.sheets[0].tables[0]
    _fill(t, VALUES[:12])
    t.row_height(1, 40)
    t.row_height(3, 25)
    t.col_width(0, 120)
    t.col_width(2, 60)
    t.caption = "A caption"
    t.caption_enabled = True
    t.table_name_enabled = False
    return d


def b_structural():
    d = Document(num_rows=3, num_cols=3)
    t = d.sheets[0].tables[0]
    _fill(t, VALUES[:9])
    t.add_row(2, 1, "new")
    t.add_column(1, 0, 7)
    t.delete_row(1, 0)
    t.delete_column(1)
    t.write(6, 5, "grown")
    return d


def b_tiles():
    d = Document(num_rows=257, num_cols=2)
    t = d.sheets[0].tables[0]
    for r in (0, 1, 254, 255, 256):
        t.write(r, 0, f"row {r}")
        t.write(r, 1, r)
    return d


def b_wide():
    d = Document(num_rows=2, num_cols=258)
    t = d.sheets[0].tables[0]
    for c in (0, 1, 254, 255, 256, 257):
        t.write(0, c, f"col {c}")
        t.write(1, c, c + 0.5)
    return d


def b_from_fixture_edit():
    d = Document(os.path.join(FIXTURES, "test-1.numbers"))
    t = d.sheets[0].tables[0]
    t.write(0, 0, "edited")
    t.add_row(1, None, 5)
    d.sheets[0].add_table("Added", num_rows=2, num_cols=2)
    d.add_sheet("New sheet", "T", num_rows=2, num_cols=2)
    return d


def b_second_generation():
    from mc.pool import Scratch

    d = b_multi()
    p = Scratch.path(f"gen2-{os.getpid()}.numbers")
    d.save(p)
    d2 = Document(p)
    os.unlink(p)
    d2.sheets[0].tables[0].write(0, 0, "second generation")
    d2.sheets[0].add_table("Gen2", num_rows=2, num_cols=2)
    s = d2.add_style(name="G2", bold=True)
    d2.sheets[0].tables[-1].write(0, 0, "x", style=s)
    return d2


BUILDERS = {
    "values": b_values,
    "multi": b_multi,
    "merges": b_merges,
    "styles": b_styles,
    "bgimage": b_bgimage,
    "borders": b_borders,
    "formats": b_formats,
    "custom_formats": b_custom_formats,
    "two_tables_formats": b_two_tables_formats,
    "geometry": b_geometry,
    "structural": b_structural,
    "tiles": b_tiles,
    "wide": b_wide,
    "fixture_edit": b_from_fixture_edit,
    "second_generation": b_second_generation,
}


def build(name):
    return BUILDERS[name]()


def names():
    return list(BUILDERS)
