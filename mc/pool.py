"""Process-pool sharding for enumerations. Workers are forked after the check module has been
imported, live for the whole run, and return picklable partial results (`Part.dump()`)."""
from __future__ import annotations

import multiprocessing as mp
import os
import traceback
import warnings

_CTX = mp.get_context("fork")


def _init():
    import signal

    # the main process installs a SIGTERM handler (scratch cleanup); pool workers must die on
    # SIGTERM as multiprocessing expects, otherwise Pool.terminate() can hang
    signal.signal(signal.SIGTERM, signal.SIG_DFL)
    warnings.simplefilter("ignore")


def _call(packed):
    fn, arg = packed
    try:
        with warnings.catch_warnings():
            warnings.simplefilter("ignore")
            return fn(arg)
    except Exception as e:  # noqa: BLE001 - a crash of the harness itself, never a verdict
        return {"harness_errors": [f"worker crashed in {getattr(fn, '__name__', fn)}({str(arg)[:200]}): "
                                   f"{type(e).__name__}: {e}\n{traceback.format_exc(limit=8)}"]}


def pmap(fn, items, jobs=16, chunksize=1, ordered=False):
    """Yield fn(item) for every item (fn must be a module-level function)."""
    items = list(items)
    if jobs <= 1 or len(items) <= 1:
        warnings.simplefilter("ignore")
        for it in items:
            yield _call((fn, it))
        return
    Scratch.dir()  # created (and later removed) by the main process; workers use sub-directories
    with _CTX.Pool(min(jobs, len(items)), initializer=_init) as pool:
        it = pool.imap if ordered else pool.imap_unordered
        yield from it(_call, [(fn, x) for x in items], chunksize)


def shards(n_items, n_shards):
    """Split range(n_items) into contiguous (lo, hi) shards."""
    n_shards = max(1, min(n_shards, n_items))
    step = -(-n_items // n_shards)
    return [(lo, min(n_items, lo + step)) for lo in range(0, n_items, step)]


def _sweep_stale(base):
    """Remove scratch directories left behind by runs that were killed (their pid is gone)."""
    import shutil

    try:
        names = os.listdir(base)
    except OSError:
        return
    for n in names:
        if not n.startswith("verif-np-"):
            continue
        parts = n.split("-")
        try:
            pid = int(parts[2])
        except (IndexError, ValueError):
            pid = None
        alive = False
        if pid is None:
            import time

            try:  # old naming scheme: only remove when clearly abandoned
                alive = time.time() - os.path.getmtime(os.path.join(base, n)) < 7200
            except OSError:
                alive = True
        else:
            try:
                os.kill(pid, 0)
                alive = True
            except ProcessLookupError:
                alive = False
            except PermissionError:
                alive = True
        if not alive:
            shutil.rmtree(os.path.join(base, n), ignore_errors=True)


class Scratch:
    """Per-run scratch directory, created by the main process and removed at its exit; workers use
    a per-pid sub-directory of it. Nothing registered in MANIFEST depends on its content."""

    _dir = None
    _pid = None

    @classmethod
    def dir(cls):
        import atexit
        import shutil
        import tempfile

        if cls._dir is None or cls._pid != os.getpid():
            run_root = os.environ.get("VERIF_SCRATCH_RUN")
            if run_root and os.path.isdir(run_root):
                cls._dir = os.path.join(run_root, f"w{os.getpid()}")
                os.makedirs(cls._dir, exist_ok=True)
                cls._pid = os.getpid()
            else:
                base = os.environ.get("VERIF_SCRATCH") or tempfile.gettempdir()
                _sweep_stale(base)
                cls._dir = tempfile.mkdtemp(prefix=f"verif-np-{os.getpid()}-", dir=base)
                cls._pid = os.getpid()
                os.environ["VERIF_SCRATCH_RUN"] = cls._dir
                d, pid = cls._dir, cls._pid

                def _rm():
                    if os.getpid() == pid:
                        shutil.rmtree(d, ignore_errors=True)

                atexit.register(_rm)
                try:
                    import signal
                    import sys

                    signal.signal(signal.SIGTERM, lambda *_: sys.exit(143))
                except ValueError:
                    pass
        return cls._dir

    @classmethod
    def path(cls, name):
        return os.path.join(cls.dir(), name)
