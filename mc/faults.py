"""Fault-site enumerators for container bytes (C17).

Everything here works on bytes held in memory and is independent of numbers_parser.iwork /
numbers_parser.iwafile: the zip layout is parsed from the published record formats (end record,
central directory headers, local file headers), IWA framing and ArchiveInfo segments through
mc.pkg. Each enumerator yields *every* site of an explicitly bounded family; nothing is sampled.

Families
  zip_layout / structural_sites / data_sites / byte_values   single-byte faults on a zip
  chunk_headers / member_fault                               faults on one archive member (bytes in,
                                                             bytes out; None = kind not applicable)
  stream_segments / stream_header_sites / stream_message_sites
                                                             sites on the *uncompressed* archive
                                                             stream (re-framed by member_fault)
"""
from __future__ import annotations

import struct

from google.protobuf.internal.decoder import _DecodeVarint32
from google.protobuf.internal.encoder import _VarintBytes

from mc import pkg
from numbers_parser.generated.mapping import ID_NAME_MAP
from numbers_parser.generated.TSPArchiveMessages_pb2 import ArchiveInfo

SIG_LOCAL = b"PK\x03\x04"
SIG_CENTRAL = b"PK\x01\x02"
SIG_END = b"PK\x05\x06"


class LayoutError(Exception):
    pass


# ---------------------------------------------------------------------------------------------
# zip layout (independent of zipfile)


def zip_layout(data: bytes):
    """-> sorted list of regions (kind, member_name, start, end) tiling range(len(data)).
    kind in local | data | descriptor | central | end | gap. No zip64, no multi-disk, no comment
    search beyond the standard 64 KiB window (the fixtures have none of these; LayoutError if met)."""
    n = len(data)
    pos = data.rfind(SIG_END, max(0, n - 22 - 65535))
    if pos < 0:
        raise LayoutError("no end record")
    (_sig, disk, cd_disk, n_here, n_total, cd_size, cd_off, clen) = struct.unpack("<4sHHHHIIH", data[pos : pos + 22])
    if disk or cd_disk or n_here != n_total or pos + 22 + clen != n or cd_off == 0xFFFFFFFF:
        raise LayoutError("unsupported end record")
    regions = [("end", "", pos, n)]
    p = cd_off
    entries = []
    for _ in range(n_total):
        if data[p : p + 4] != SIG_CENTRAL:
            raise LayoutError(f"no central header at {p}")
        (flags, method, csize, usize, nlen, xlen, klen, lho) = struct.unpack("<HH", data[p + 8 : p + 12]) + struct.unpack(
            "<II", data[p + 20 : p + 28]) + struct.unpack("<HHH", data[p + 28 : p + 34]) + struct.unpack("<I", data[p + 42 : p + 46])
        name = data[p + 46 : p + 46 + nlen].decode("utf-8", "replace")
        end = p + 46 + nlen + xlen + klen
        regions.append(("central", name, p, end))
        entries.append((name, flags, csize, lho))
        p = end
    if p != cd_off + cd_size or p != pos:
        raise LayoutError("central directory does not end at the end record")
    for name, flags, csize, lho in entries:
        if data[lho : lho + 4] != SIG_LOCAL:
            raise LayoutError(f"no local header at {lho}")
        nlen, xlen = struct.unpack("<HH", data[lho + 26 : lho + 30])
        d0 = lho + 30 + nlen + xlen
        regions.append(("local", name, lho, d0))
        if csize:
            regions.append(("data", name, d0, d0 + csize))
        if flags & 0x08:
            d1 = d0 + csize
            dl = 16 if data[d1 : d1 + 4] == b"PK\x07\x08" else 12
            regions.append(("descriptor", name, d1, d1 + dl))
    regions.sort(key=lambda r: r[2])
    out = []
    cur = 0
    for r in regions:
        if r[2] < cur:
            raise LayoutError(f"overlapping regions at {r[2]}")
        if r[2] > cur:
            out.append(("gap", "", cur, r[2]))
        out.append(r)
        cur = r[3]
    if cur != n:
        raise LayoutError("regions do not reach the end of the file")
    return out


STRUCTURAL = ("local", "central", "end", "descriptor", "gap")


def structural_sites(layout):
    """Every byte offset of every structural region: list of (offset, kind)."""
    return [(o, k) for (k, _n, a, b) in layout if k in STRUCTURAL for o in range(a, b)]


def data_sites(layout):
    """Every byte offset of (possibly compressed) member data: list of (offset, member_name)."""
    return [(o, name) for (k, name, a, b) in layout if k == "data" for o in range(a, b)]


def byte_values(old: int):
    """The single-byte fault values at one site: 8 single-bit flips + 0x00 + 0xFF, distinct, != old."""
    vals = {old ^ (1 << b) for b in range(8)} | {0x00, 0xFF}
    vals.discard(old)
    return sorted(vals)


def normalise_zip_times(data: bytes, dostime=0x0000, dosdate=0x5021) -> bytes:
    """Overwrite the modification time/date of every local and central header (a freshly written
    zip carries the wall clock; the bases must be byte-identical in every process)."""
    b = bytearray(data)
    for kind, _n, a, _e in zip_layout(data):
        if kind == "local":
            b[a + 10 : a + 14] = struct.pack("<HH", dostime, dosdate)
        elif kind == "central":
            b[a + 12 : a + 16] = struct.pack("<HH", dostime, dosdate)
    return bytes(b)


# ---------------------------------------------------------------------------------------------
# IWA member faults


def chunk_headers(blob: bytes):
    """-> list of (pos, length) of the chunk headers of an intact IWA member."""
    out = []
    pos = 0
    while pos < len(blob):
        ln = blob[pos + 1] | (blob[pos + 2] << 8) | (blob[pos + 3] << 16)
        out.append((pos, ln))
        pos += 4 + ln
    if pos != len(blob):
        raise LayoutError("member is not chunk-framed")
    return out


def is_framed(blob: bytes) -> bool:
    try:
        pkg.chunks(blob)
        return len(blob) > 0
    except pkg.PkgError:
        return False


def stream_segments(stream: bytes):
    """-> list of (varint_start, header_start, header_end, payload_end) per segment of an intact stream."""
    out = []
    pos = 0
    while pos < len(stream):
        ln, p = _DecodeVarint32(stream, pos)
        ai = ArchiveInfo.FromString(stream[p : p + ln])
        end = p + ln + sum(mi.length for mi in ai.message_infos)
        out.append((pos, p, p + ln, end))
        pos = end
    if pos != len(stream):
        raise LayoutError("trailing bytes in stream")
    return out


def stream_header_sites(segs, seg_indices=None):
    """Every byte of the length varint and of the ArchiveInfo header of the chosen segments."""
    idx = range(len(segs)) if seg_indices is None else seg_indices
    return [o for i in idx for o in range(segs[i][0], segs[i][2])]


def stream_message_sites(segs, seg_indices=None):
    idx = range(len(segs)) if seg_indices is None else seg_indices
    return [o for i in idx for o in range(segs[i][2], segs[i][3])]


def unknown_type_id():
    t = 999_983
    while t in ID_NAME_MAP:
        t += 1
    return t


def _reheader(stream, seg, fn):
    """Re-serialise the ArchiveInfo of one segment after fn(ai); payload bytes untouched."""
    v0, h0, h1, _end = seg
    ai = ArchiveInfo.FromString(stream[h0:h1])
    fn(ai)
    h = ai.SerializeToString()
    return stream[:v0] + _VarintBytes(len(h)) + h + stream[h1:]


def member_fault(blob: bytes, kind: str, *params):
    """Apply one member-level fault to the bytes of one archive member. Returns the faulty bytes,
    or None when the kind does not apply (e.g. stream faults on a member that is not an IWA file,
    or a fault that leaves the bytes unchanged)."""
    out = _member_fault(blob, kind, *params)
    if out is None or out == blob:
        return None
    return out


def _member_fault(blob, kind, *params):
    if kind == "empty":
        return b""
    if kind == "trunc":  # also used for "1, 2, 3 bytes"
        (ln,) = params
        return blob[:ln] if ln < len(blob) else None
    if kind == "flip":  # raw byte of the member as stored in the container
        off, bit = params
        b = bytearray(blob)
        b[off] ^= 1 << bit
        return bytes(b)
    if kind in ("marker", "length", "badsnappy"):
        ci = params[0]
        heads = chunk_headers(blob)
        if ci >= len(heads):
            return None
        pos, ln = heads[ci]
        b = bytearray(blob)
        if kind == "marker":
            b[pos] = params[1]
        elif kind == "length":
            new = {"plus1": ln + 1, "minus1": ln - 1, "zero": 0, "max": 0xFFFFFF}[params[1]]
            if new < 0:
                return None
            b[pos + 1 : pos + 4] = struct.pack("<I", new)[:3]
        else:
            how = params[1]
            if how == "ff":  # no valid preamble at all, same length
                b[pos + 4 : pos + 4 + ln] = b"\xff" * ln
            elif how == "body":  # valid preamble, damaged body
                if ln < 8:
                    return None
                mid = pos + 4 + ln // 2
                b[mid : mid + 4] = bytes(x ^ 0xFF for x in b[mid : mid + 4])
            elif how == "huge":  # preamble announces 4 GiB
                if ln < 5:
                    return None
                b[pos + 4 : pos + 9] = b"\xff\xff\xff\xff\x0f"
            else:
                raise ValueError(how)
        return bytes(b)
    # --- faults on the uncompressed stream, re-framed (and re-compressed) afterwards
    if not is_framed(blob):
        return None
    stream = pkg.unframe(blob)
    if kind == "sflip":
        off, bit = params
        s = bytearray(stream)
        s[off] ^= 1 << bit
        return pkg.frame(bytes(s))
    segs = stream_segments(stream)
    si = params[0]
    if si >= len(segs):
        return None
    seg = segs[si]
    if kind == "unknown-type":
        def fn(ai):
            if ai.message_infos:
                ai.message_infos[0].type = unknown_type_id()
        return pkg.frame(_reheader(stream, seg, fn))
    if kind == "no-infos":
        return pkg.frame(_reheader(stream, seg, lambda ai: ai.ClearField("message_infos")))
    if kind == "len-beyond":
        remaining = len(stream) - seg[2]
        new = {"rest1": remaining + 1, "max24": 0xFFFFFF, "max31": 0x7FFFFFFF}[params[1]]

        def fn(ai):
            if ai.message_infos:
                ai.message_infos[0].length = new
        return pkg.frame(_reheader(stream, seg, fn))
    if kind == "varint-beyond":
        v0, h0, _h1, _e = seg
        remaining = len(stream) - h0
        return pkg.frame(stream[:v0] + _VarintBytes(remaining + 1) + stream[h0:])
    if kind == "cut-stream":  # stream ends inside this segment's header / payload, framing intact
        where = params[1]
        at = {"in-varint": seg[0] + 1 if seg[1] - seg[0] > 1 else None, "in-header": (seg[1] + seg[2]) // 2,
              "after-header": seg[2], "in-payload": (seg[2] + seg[3]) // 2}[where]
        if at is None or at >= len(stream):
            return None
        return pkg.frame(stream[:at])
    raise ValueError(f"unknown member fault kind {kind}")


# ---------------------------------------------------------------------------------------------
# rewriting a container around one faulty member


def zip_bytes(members, compress_types=None, default=0) -> bytes:
    """Write (name, bytes) members to an in-memory zip with fixed timestamps; compress_types maps a
    member name to its zipfile compression constant (the base's own method is kept per member)."""
    import io
    import zipfile

    buf = io.BytesIO()
    with zipfile.ZipFile(buf, "w") as z:
        for name, blob in members:
            ct = (compress_types or {}).get(name, default)
            z.writestr(zipfile.ZipInfo(name, date_time=(2020, 1, 1, 0, 0, 0)), blob, compress_type=ct)
    return buf.getvalue()
