"""Explicit-state explorer over the REAL implementation (history-quantified properties).

A state is the event history that reaches it: live Document objects cannot be deep-copied (open
ZipFile), so a frontier node is rebuilt by replaying its history on a fresh initial state, and its
successors are produced by `os.fork()`: the child applies ONE event to the replayed parent, runs the
step oracle, computes the canonical key, reports through a pipe and exits. Forking is only a
state-copy optimisation (a replay of hist+[ev] gives the same result; `use_fork=False` does that).

A `Spec` (module-level object in the check, so forked workers see it) provides:
    initial(init_id)            -> state   (fresh real objects + fresh reference model)
    enabled(state, depth_left)  -> list of JSON-able events, computed from the reference state
    apply(state, ev)            -> (failures, outcome_class)   failures = [(ident, detail)]
    key(state)                  -> str     canonical key: reference state + implementation fingerprint
    probe(state)                -> failures   terminal probe (e.g. save + reopen); state is discarded after

Level-synchronous BFS; every (state, event) pair within the depth bound is executed exactly once as a
transition; dedup on the key only prunes re-expansion. Every distinct key is probed once.
Replaying a stored history must reproduce the stored key, otherwise the run is a harness error.
"""
from __future__ import annotations

import os
import pickle
import traceback

from mc.evidence import Part
from mc.pool import pmap

_SPECS = {}

_SIMPLE = (type(None), bool, int, float, str, bytes)


def generic_fingerprint(obj, skip=(), depth=2):
    """Canonical text of the 'small' hidden state of an implementation object: every attribute whose
    value is a scalar or a container of scalars (memo tables, cached name sets, counters, flags), recursing
    `depth` levels into plain containers and attribute-bearing helpers. Used in dedup keys so that two
    states are only merged when these fields agree - a cache added to the implementation later (the kind
    of change that breaks history properties) then keeps histories apart without the check knowing its name."""

    def canon(v, d):
        if isinstance(v, _SIMPLE):
            return repr(v)
        if isinstance(v, (set, frozenset)):
            return "{" + ",".join(sorted(canon(x, d) for x in v)) + "}"
        if isinstance(v, (list, tuple)):
            return "[" + ",".join(canon(x, d) for x in v) + "]" if len(v) <= 64 else f"[{len(v)} items]"
        if isinstance(v, dict):
            if len(v) > 64:
                return f"{{{len(v)} keys}}"
            return "{" + ",".join(sorted(f"{canon(k, d)}:{canon(x, d)}" for k, x in v.items())) + "}"
        if d > 0 and hasattr(v, "__dict__") and type(v).__module__.startswith("numbers_parser"):
            return type(v).__name__ + "(" + ",".join(f"{k}={canon(x, d - 1)}" for k, x in sorted(vars(v).items()) if k not in skip) + ")"
        return type(v).__name__

    return canon(obj, depth)


def register(name, spec):
    _SPECS[name] = spec


def _replay(spec, init_id, hist):
    state = spec.initial(init_id)
    for ev in hist:
        spec.apply(state, ev)
    return state


def _in_child(fn):
    """Run fn() in a forked child; return its (picklable) result."""
    r, w = os.pipe()
    pid = os.fork()
    if pid == 0:
        code = 0
        try:
            os.close(r)
            try:
                data = pickle.dumps(("ok", fn()))
            except BaseException as e:  # noqa: BLE001
                data = pickle.dumps(("err", f"{type(e).__name__}: {e}\n{traceback.format_exc(limit=10)}"))
            with os.fdopen(w, "wb") as f:
                f.write(data)
        except BaseException:  # noqa: BLE001
            code = 1
        finally:
            os._exit(code)
    os.close(w)
    with os.fdopen(r, "rb") as f:
        data = f.read()
    os.waitpid(pid, 0)
    if not data:
        return ("err", "child died without a result")
    return pickle.loads(data)


def _expand(task):
    """Expand one chunk of frontier nodes: execute every enabled event of each node once."""
    name, nodes, depth_left, use_fork = task
    spec = _SPECS[name]
    part = Part()
    results = []
    for init_id, hist, key in nodes:
        try:
            parent = _replay(spec, init_id, hist)
            if key is not None and spec.key(parent) != key:
                part.harness_errors.append(f"replay of {init_id}/{hist} did not reproduce its key (nondeterminism)")
                continue
            events = spec.enabled(parent, depth_left)
        except Exception as e:  # noqa: BLE001
            part.harness_errors.append(f"replay/enabled failed for {init_id}/{hist}: {type(e).__name__}: {e}\n{traceback.format_exc(limit=6)}")
            continue
        for ev in events:
            def step(parent=parent, ev=ev):
                st = parent if use_fork else _replay(spec, init_id, hist)
                fails, outcome = spec.apply(st, ev)
                return fails, outcome, spec.key(st)

            res = _in_child(step) if use_fork else ("ok", step())
            if res[0] != "ok":
                part.harness_errors.append(f"step {init_id}/{hist}+{ev}: {res[1]}")
                continue
            fails, outcome, k2 = res[1]
            part.count("transitions")
            part.outcome(f"{ev[0]}:{outcome}")
            h2 = list(hist) + [ev]
            for ident, detail in fails:
                part.fail(ident, detail, {"init": init_id, "history": h2})
            results.append((init_id, h2, k2))
    d = part.dump()
    d["results"] = results
    return d


def _probe(task):
    name, nodes, use_fork = task
    spec = _SPECS[name]
    part = Part()
    # group by parent so that a parent is replayed once
    groups = {}
    for init_id, hist, key in nodes:
        groups.setdefault((init_id, tuple(map(_freeze, hist[:-1]))), []).append((init_id, hist, key))
    for (_i, _p), members in groups.items():
        init_id = members[0][0]
        phist = members[0][1][:-1]
        try:
            parent = _replay(spec, init_id, phist) if use_fork else None
        except Exception as e:  # noqa: BLE001
            part.harness_errors.append(f"probe replay failed {init_id}/{phist}: {type(e).__name__}: {e}")
            continue
        for init_id, hist, key in members:
            def run(parent=parent, hist=hist, init_id=init_id):
                if use_fork and hist:
                    st = parent
                    spec.apply(st, hist[-1])
                else:
                    st = _replay(spec, init_id, hist)
                if spec.key(st) != key:
                    return None
                return spec.probe(st)

            res = _in_child(run) if use_fork else ("ok", run())
            if res[0] != "ok":
                part.harness_errors.append(f"probe {init_id}/{hist}: {res[1]}")
                continue
            if res[1] is None:
                part.harness_errors.append(f"probe replay of {init_id}/{hist} did not reproduce its key (nondeterminism)")
                continue
            part.count("probes")
            for ident, detail in res[1]:
                part.fail(ident, detail, {"init": init_id, "history": hist, "probe": True})
    return part.dump()


def _freeze(x):
    if isinstance(x, list):
        return tuple(_freeze(y) for y in x)
    return x


def _chunks(seq, n):
    n = max(1, n)
    return [seq[i : i + n] for i in range(0, len(seq), n)]


def explore(name, spec, init_ids, depth, run, jobs=16, use_fork=True, probe=True, max_states=None, tag=""):
    """Breadth-first exploration to `depth` from every initial state. Updates `run` counters:
    states, transitions, probes, max_depth_completed; returns the set of distinct keys."""
    register(name, spec)
    seen = set()
    frontier = []
    # level 0
    for init_id in init_ids:
        st = spec.initial(init_id)
        k = spec.key(st)
        if (init_id, k) not in seen:
            seen.add((init_id, k))
            frontier.append((init_id, [], k))
    run.count("states", len(frontier))
    if probe:
        for res in pmap(_probe, [(name, [n], False) for n in frontier], jobs):
            run.merge(res)
    completed = 0
    for d in range(depth):
        if not frontier:
            break
        size = max(1, min(8, len(frontier) // (jobs * 4) or 1))
        tasks = [(name, ch, depth - d, use_fork) for ch in _chunks(frontier, size)]
        new_nodes = []
        for res in pmap(_expand, tasks, jobs):
            results = res.pop("results", [])
            run.merge(res)
            for init_id, h2, k2 in results:
                if (init_id, k2) not in seen:
                    seen.add((init_id, k2))
                    new_nodes.append((init_id, h2, k2))
        # deterministic order (pool results arrive unordered): shortest-first, then lexicographic
        new_nodes.sort(key=lambda n: (n[0], repr(n[1])))
        run.count("states", len(new_nodes))
        if len(run.samples) < run.max_samples and new_nodes:
            run.sample({"init": new_nodes[0][0], "history": new_nodes[0][1], "depth": d + 1, "tag": tag})
            run.sample({"init": new_nodes[-1][0], "history": new_nodes[-1][1], "depth": d + 1, "tag": tag})
        if probe and new_nodes:
            psize = max(1, min(16, len(new_nodes) // (jobs * 4) or 1))
            for res in pmap(_probe, [(name, ch, use_fork) for ch in _chunks(new_nodes, psize)], jobs):
                run.merge(res)
        completed = d + 1
        frontier = new_nodes
        if os.environ.get("VERIF_PROGRESS"):
            import sys
            import time

            print(f"[explore {name}{tag}] depth {d + 1}: states={len(seen)} new={len(new_nodes)} transitions={run.counters['transitions']} "
                  f"probes={run.counters['probes']} t={time.time() - run.t0:.0f}s", file=sys.stderr, flush=True)
        if max_states is not None and len(seen) > max_states and d + 1 < depth:
            run.cap(f"{name}{tag}: state cap {max_states} hit after depth {d + 1} (bound was {depth}); levels up to {d + 1} are complete")
            break
    run.extra.setdefault("depth_completed", {})[f"{name}{tag}"] = completed
    return seen


def replay_history(spec, init_id, hist, probe=False):
    """Plain re-execution of one recorded history (used by --replay): returns failures of ALL steps
    (and of the terminal probe when asked)."""
    state = spec.initial(init_id)
    out = []
    for ev in hist:
        fails, _ = spec.apply(state, _freeze(ev) if False else ev)
        out.extend(fails)
    if probe:
        out.extend(spec.probe(state))
    return out
