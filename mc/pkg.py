"""Independent .numbers container code: zip members, IWA chunk framing, varint-prefixed ArchiveInfo
segments, protobuf (de)serialisation through the repo's *generated* classes only.

Nothing here calls numbers_parser.iwafile / numbers_parser.iwork / numbers_parser.model: it is the
second implementation used to produce layout variants (C06), validate saved packages (C07), compare
archive streams (C05) and inject faults (C17). Trusted: python-snappy, zipfile, google.protobuf and
the generated message classes (the schema).
"""
from __future__ import annotations

import io
import os
import struct
import zipfile

import snappy
from google.protobuf.internal.decoder import _DecodeVarint32
from google.protobuf.internal.encoder import _VarintBytes

from numbers_parser.generated.TSPArchiveMessages_pb2 import ArchiveInfo
from numbers_parser.generated.mapping import ID_NAME_MAP

CHUNK = 65536


class PkgError(Exception):
    pass


# ---------------------------------------------------------------------------------------------
# chunk framing


def chunks(data: bytes):
    """Split an IWA file into (payload_bytes, was_compressed, decoded_bytes) per chunk, strictly."""
    out = []
    pos = 0
    n = len(data)
    while pos < n:
        if n - pos < 4:
            raise PkgError(f"truncated chunk header at {pos}")
        if data[pos] != 0:
            raise PkgError(f"chunk marker {data[pos]:#x} at {pos}")
        ln = data[pos + 1] | (data[pos + 2] << 8) | (data[pos + 3] << 16)
        if pos + 4 + ln > n:
            raise PkgError(f"chunk length {ln} at {pos} exceeds file ({n})")
        payload = data[pos + 4 : pos + 4 + ln]
        try:
            dec = snappy.uncompress(payload)
            comp = True
        except Exception:  # noqa: BLE001 - stored chunk
            dec = payload
            comp = False
        out.append((payload, comp, dec))
        pos += 4 + ln
    return out


def unframe(data: bytes) -> bytes:
    return b"".join(c[2] for c in chunks(data))


def frame(stream: bytes, cuts=None, stored=None) -> bytes:
    """Frame a stream. cuts = sorted cut positions (default: every 64 KiB); stored = per-piece
    booleans or a single bool (default False = snappy-compressed)."""
    if cuts is None:
        cuts = list(range(CHUNK, len(stream), CHUNK))
    pieces = []
    prev = 0
    for c in list(cuts) + [len(stream)]:
        if c > prev:
            pieces.append(stream[prev:c])
            prev = c
    out = bytearray()
    for i, p in enumerate(pieces):
        st = stored[i] if isinstance(stored, (list, tuple)) else bool(stored)
        payload = p if st else snappy.compress(p)
        if len(payload) >= 1 << 24:
            raise PkgError("chunk too large for 3-byte length")
        out += b"\0" + struct.pack("<I", len(payload))[:3] + payload
    return bytes(out)


def stored_piece_ambiguous(piece: bytes) -> bool:
    """A stored piece that snappy would accept is an ambiguous container (no stored/compressed flag)."""
    try:
        snappy.uncompress(piece)
        return True
    except Exception:  # noqa: BLE001
        return False


# ---------------------------------------------------------------------------------------------
# segments


def segments(stream: bytes, strict=True):
    """-> list of [ArchiveInfo, [payload bytes per message_info]]"""
    pos = 0
    out = []
    n = len(stream)
    while pos < n:
        ln, p = _DecodeVarint32(stream, pos)
        if p + ln > n:
            raise PkgError(f"ArchiveInfo length {ln} at {pos} exceeds stream")
        ai = ArchiveInfo.FromString(stream[p : p + ln])
        pos = p + ln
        payloads = []
        for mi in ai.message_infos:
            if pos + mi.length > n:
                raise PkgError(f"message length {mi.length} at {pos} exceeds stream")
            payloads.append(stream[pos : pos + mi.length])
            pos += mi.length
        out.append([ai, payloads])
    if strict and pos != n:
        raise PkgError("trailing bytes after last segment")
    return out


def raw_segments(stream: bytes):
    """-> list of (header_bytes, [payload bytes]) without re-serialising anything."""
    pos = 0
    out = []
    n = len(stream)
    while pos < n:
        ln, p = _DecodeVarint32(stream, pos)
        hdr = stream[p : p + ln]
        ai = ArchiveInfo.FromString(hdr)
        pos = p + ln
        payloads = []
        for mi in ai.message_infos:
            payloads.append(stream[pos : pos + mi.length])
            pos += mi.length
        out.append((hdr, payloads))
    if pos != n:
        raise PkgError("trailing bytes after last segment")
    return out


def join(segs) -> bytes:
    out = bytearray()
    for ai, payloads in segs:
        for mi, pl in zip(ai.message_infos, payloads):
            mi.length = len(pl)
        h = ai.SerializeToString()
        out += _VarintBytes(len(h)) + h + b"".join(payloads)
    return bytes(out)


def message_class(type_id):
    return ID_NAME_MAP.get(type_id)


# ---------------------------------------------------------------------------------------------
# zip / package level


def read_members(path):
    """-> list of (name, bytes) in stored order. Works for single-file documents and for package
    folders (members of Index.zip are returned with their own names, other files by relative path)."""
    if os.path.isdir(path):
        out = []
        for root, _dirs, files in os.walk(path):
            for fn in sorted(files):
                full = os.path.join(root, fn)
                rel = os.path.relpath(full, path)
                with open(full, "rb") as f:
                    blob = f.read()
                if fn.lower() == "index.zip":
                    with zipfile.ZipFile(io.BytesIO(blob)) as z:
                        out.extend((zi.filename, z.read(zi.filename)) for zi in z.infolist())
                else:
                    out.append((rel, blob))
        return out
    out = []
    with zipfile.ZipFile(path) as z:
        for zi in z.infolist():
            if zi.is_dir():
                continue
            blob = z.read(zi.filename)
            if zi.filename.lower().endswith("index.zip"):
                # single-file archive that wraps a package folder: Index/* live in a nested zip
                with zipfile.ZipFile(io.BytesIO(blob)) as z2:
                    out.extend((zi2.filename, z2.read(zi2.filename)) for zi2 in z2.infolist() if not zi2.is_dir())
            else:
                out.append((zi.filename, blob))
    return out


def write_members(path, members, compress=zipfile.ZIP_STORED):
    with zipfile.ZipFile(path, "w", compress) as z:
        for n, b in members:
            z.writestr(zipfile.ZipInfo(n, date_time=(2020, 1, 1, 0, 0, 0)), b, compress_type=compress)


def write_package_folder(path, members, compress=zipfile.ZIP_STORED):
    """Package-folder form: Index/* members inside <path>/Index.zip, everything else as files."""
    os.makedirs(path, exist_ok=True)
    buf = io.BytesIO()
    with zipfile.ZipFile(buf, "w", compress) as z:
        for n, b in members:
            if n.startswith("Index/"):
                z.writestr(zipfile.ZipInfo(n, date_time=(2020, 1, 1, 0, 0, 0)), b, compress_type=compress)
    with open(os.path.join(path, "Index.zip"), "wb") as f:
        f.write(buf.getvalue())
    for n, b in members:
        if not n.startswith("Index/"):
            full = os.path.join(path, n)
            os.makedirs(os.path.dirname(full), exist_ok=True)
            with open(full, "wb") as f:
                f.write(b)


def is_iwa_name(name):
    return name.endswith(".iwa")


def decode_objects(members, strict=True):
    """-> dict identifier -> (member name, ArchiveInfo, first message object or None, payloads).
    strict=False skips members that are not decodable IWA archives (some fixtures carry such files)."""
    objs = {}
    for name, blob in members:
        if not is_iwa_name(name):
            continue
        try:
            segs = segments(unframe(blob))
        except Exception:  # noqa: BLE001
            if strict:
                raise
            continue
        for ai, payloads in segs:
            cls = message_class(ai.message_infos[0].type) if ai.message_infos else None
            msg = cls.FromString(payloads[0]) if cls is not None else None
            if ai.identifier in objs:
                raise PkgError(f"duplicate object identifier {ai.identifier} in {name} and {objs[ai.identifier][0]}")
            objs[ai.identifier] = (name, ai, msg, payloads)
    return objs


def transform(members, fn):
    """Apply fn(full_type_name, message, identifier) -> bool(changed) to the first message of every
    segment; members whose objects did not change are copied byte for byte."""
    out = []
    for name, blob in members:
        if not is_iwa_name(name):
            out.append((name, blob))
            continue
        try:
            segs = segments(unframe(blob))
        except Exception:  # noqa: BLE001 - not a decodable archive: carried over verbatim
            out.append((name, blob))
            continue
        changed = False
        for seg in segs:
            ai, pls = seg
            if not ai.message_infos:
                continue
            cls = message_class(ai.message_infos[0].type)
            if cls is None:
                continue
            m = cls.FromString(pls[0])
            if fn(cls.DESCRIPTOR.full_name, m, ai.identifier):
                pls[0] = m.SerializeToString()
                changed = True
        out.append((name, frame(join(segs)) if changed else blob))
    return out


def walk_data_references(msg, out):
    """Collect identifiers of every TSP.DataReference reachable inside a message."""
    for fd, val in msg.ListFields():
        if fd.type == fd.TYPE_MESSAGE:
            rep = fd.is_repeated if hasattr(fd, "is_repeated") else fd.label == fd.LABEL_REPEATED
            for v in val if rep else [val]:
                if v.DESCRIPTOR.full_name == "TSP.DataReference":
                    out.append(v.identifier)
                else:
                    walk_data_references(v, out)
    return out


def walk_references(msg, out):
    """Collect identifiers of every TSP.Reference reachable inside a message."""
    for fd, val in msg.ListFields():
        if fd.type == fd.TYPE_MESSAGE:
            rep = fd.is_repeated if hasattr(fd, "is_repeated") else fd.label == fd.LABEL_REPEATED
            vals = val if rep else [val]
            for v in vals:
                if v.DESCRIPTOR.full_name == "TSP.Reference":
                    out.append(v.identifier)
                else:
                    walk_references(v, out)
    return out
