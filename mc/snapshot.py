"""Observable snapshot of a whole document + structural diff (shared oracle of C02, C03, C06, C12...).

Everything a user of the library can read about content is in the snapshot; internal identifiers
(UUIDs, object ids) are not. An accessor that raises is recorded as part of the snapshot, so
"accessor starts raising after a re-save" is a diff like any other.
"""
from __future__ import annotations

import glob
import os
import warnings

from mc.evidence import FIXTURES


def _try(fn):
    try:
        return fn()
    except Exception as e:  # noqa: BLE001
        return f"EXC:{type(e).__name__}:{str(e)[:60]}"


def cell_snap(c, formatted=True, formula=True):
    d = {"t": type(c).__name__, "v": repr(_try(lambda: c.value))}
    if formula:
        d["f"] = _try(lambda: c.formula)
    if formatted:
        d["fv"] = _try(lambda: c.formatted_value)
    if type(c).__name__ == "RichTextCell":
        d["b"] = repr(_try(lambda: c.bullets))
        d["h"] = repr(_try(lambda: c.hyperlinks))
    d["m"] = repr((_try(lambda: c.is_merged), _try(lambda: c.size), _try(lambda: getattr(c, "rect", None))))
    return d


def table_snap(t, formatted=True, formula=True):
    rows = [[cell_snap(c, formatted, formula) for c in r] for r in t.rows()]
    return {"table": t.name, "nr": t.num_rows, "nc": t.num_cols, "rows": rows, "mr": list(t.merge_ranges)}


def doc_snap(doc, formatted=True, formula=True):
    out = []
    for s in doc.sheets:
        for t in s.tables:
            ts = table_snap(t, formatted, formula)
            ts["sheet"] = s.name
            out.append(ts)
    return out


def diff(a, b, limit=50):
    """List of human-readable differences between two doc_snap() results (empty = equal)."""
    out = []
    if [(x["sheet"], x["table"]) for x in a] != [(x["sheet"], x["table"]) for x in b]:
        out.append(f"sheet/table names or order: {[(x['sheet'], x['table']) for x in a]} -> {[(x['sheet'], x['table']) for x in b]}")
        if len(a) != len(b):
            return out
    for ta, tb in zip(a, b):
        for k in ("nr", "nc", "mr"):
            if ta[k] != tb[k]:
                out.append(f"{ta['sheet']}/{ta['table']} {k}: {ta[k]!r} -> {tb[k]!r}")
        if ta["nr"] == tb["nr"] and ta["nc"] == tb["nc"]:
            for r, (ra, rb) in enumerate(zip(ta["rows"], tb["rows"])):
                for c, (ca, cb) in enumerate(zip(ra, rb)):
                    if ca != cb:
                        ks = sorted(set(ca) | set(cb))
                        ks = [k for k in ks if ca.get(k) != cb.get(k)]
                        out.append(f"{ta['sheet']}/{ta['table']}[{r},{c}] " + "; ".join(f"{k}: {ca.get(k)!r} -> {cb.get(k)!r}" for k in ks))
                        if len(out) >= limit:
                            return out
    return out


def cell_diffs(a, b):
    """Structured per-cell differences: list of (sheet, table, r, c, key, before, after)."""
    out = []
    for ta, tb in zip(a, b):
        if ta["nr"] == tb["nr"] and ta["nc"] == tb["nc"]:
            for r, (ra, rb) in enumerate(zip(ta["rows"], tb["rows"])):
                for c, (ca, cb) in enumerate(zip(ra, rb)):
                    if ca != cb:
                        for k in sorted(set(ca) | set(cb)):
                            if ca.get(k) != cb.get(k):
                                out.append((ta["sheet"], ta["table"], r, c, k, ca.get(k), cb.get(k)))
    return out


def open_doc(path):
    """Open with the library, capturing warnings. -> (doc, [warning message strings])"""
    from numbers_parser import Document

    with warnings.catch_warnings(record=True) as w:
        warnings.simplefilter("always")
        doc = Document(path)
    return doc, [str(x.message) for x in w]


def save_doc(doc, path):
    with warnings.catch_warnings(record=True) as w:
        warnings.simplefilter("always")
        doc.save(path)
    return [str(x.message) for x in w]


_READABLE = None


def readable_fixtures():
    """Every document under tests/data (files and package folders) that opens without an
    unsupported-version warning and without raising; plus the bundled template. Sorted, deterministic."""
    global _READABLE
    if _READABLE is not None:
        return _READABLE
    import numbers_parser

    paths = sorted(glob.glob(os.path.join(FIXTURES, "*.numbers")))
    tmpl = os.path.join(os.path.dirname(numbers_parser.__file__), "data", "empty.numbers")
    out = []
    for p in paths + ([tmpl] if os.path.exists(tmpl) else []):
        try:
            doc, w = open_doc(p)
        except Exception:  # noqa: BLE001
            continue
        if any("unsupported version" in m for m in w):
            continue
        try:
            n = sum(t.num_rows * t.num_cols for s in doc.sheets for t in s.tables)
        except Exception:  # noqa: BLE001
            continue
        out.append((p, n))
    _READABLE = out
    return out
