"""Bounded exhaustive exploration machinery for masaccio/numbers-parser (see /verif/DESIGN.md)."""
