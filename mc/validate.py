"""Independent structural validator of a saved .numbers package (oracle of C07; also used by C06).

Never calls numbers_parser's reader: zip/IWA/protobuf through mc.pkg, cell records through the
layout table of mc.ref_cellrecord. `validate(path, source_unresolved)` returns a list of
(ident_class, detail) problems; `unresolved_refs(path)` gives the set of dangling reference targets.
"""
from __future__ import annotations

import struct

from mc import pkg
from mc.ref_cellrecord import FIELD_NAME, FIELD_SIZE, NBITS

METADATA_NAMES = ("Index/Metadata.iwa",)


class Package:
    def __init__(self, path, inherited=None):
        """inherited: dict name -> bytes of the source document; members carried over byte for byte
        are not the library's work and are exempt from the archive-level checks."""
        self.members = pkg.read_members(path)
        self.inherited = {n for n, b in self.members if inherited is not None and inherited.get(n) == b}
        self.names = [n for n, _ in self.members]
        self.problems = []
        self.objs = {}
        self.header_refs = {}
        for name, blob in self.members:
            if not pkg.is_iwa_name(name):
                continue
            try:
                segs = pkg.segments(pkg.unframe(blob))
            except Exception as e:  # noqa: BLE001
                if name not in self.inherited:
                    self.problems.append(("archive-undecodable", f"{name}: {type(e).__name__}: {e}"))
                continue
            for ai, payloads in segs:
                if not ai.message_infos:
                    continue
                mi = ai.message_infos[0]
                cls = pkg.message_class(mi.type)
                try:
                    msg = cls.FromString(payloads[0]) if cls is not None else None
                except Exception as e:  # noqa: BLE001
                    self.problems.append(("message-undecodable", f"{name} id {ai.identifier}: {type(e).__name__}"))
                    msg = None
                if ai.identifier in self.objs:
                    self.problems.append(("duplicate-object-id", f"object {ai.identifier} in {name} and {self.objs[ai.identifier][0]}"))
                self.objs[ai.identifier] = (name, ai, msg)
                refs = []
                for m in ai.message_infos:
                    refs.extend(m.object_references)
                self.header_refs[ai.identifier] = refs

    def unresolved(self):
        """set of identifiers referenced (in messages or archive headers) but not present."""
        out = set()
        for ident, (_name, _ai, msg) in self.objs.items():
            if msg is not None:
                for x in pkg.walk_references(msg, []):
                    if x != 0 and x not in self.objs:
                        out.add(x)
            for x in self.header_refs.get(ident, []):
                if x != 0 and x not in self.objs:
                    out.add(x)
        return out

    def by_type(self, full_name):
        return [(i, o[2]) for i, o in self.objs.items() if o[2] is not None and o[2].DESCRIPTOR.full_name == full_name]


def unresolved_refs(path):
    return Package(path).unresolved()


def record_length(buf, pos):
    """Length of the v5 record starting at pos, from its flags word; None if malformed."""
    if pos + 12 > len(buf):
        return None
    if buf[pos] != 5:
        return None
    flags = struct.unpack_from("<I", buf, pos + 8)[0]
    if flags >> NBITS:
        return None
    n = 12
    for bit in range(NBITS):
        if flags >> bit & 1:
            n += FIELD_SIZE[bit]
    return n


def record_fields(buf, pos):
    """dict field name -> 4-byte id for bits 3..20 of the record at pos."""
    flags = struct.unpack_from("<I", buf, pos + 8)[0]
    off = pos + 12
    out = {}
    for bit in range(NBITS):
        if flags >> bit & 1:
            if bit >= 3:
                out[FIELD_NAME[bit]] = struct.unpack_from("<i", buf, off)[0]
            off += FIELD_SIZE[bit]
    return out, buf[pos + 1]


def _list_keys(pk, ref):
    if ref is None or ref.identifier == 0 or ref.identifier not in pk.objs or pk.objs[ref.identifier][2] is None:
        return None
    return {e.key for e in pk.objs[ref.identifier][2].entries}


def _dup_keys(pk, ref):
    if ref is None or ref.identifier == 0 or ref.identifier not in pk.objs or pk.objs[ref.identifier][2] is None:
        return []
    keys = [e.key for e in pk.objs[ref.identifier][2].entries]
    return sorted({k for k in keys if keys.count(k) > 1})


def source_info(path):
    """(unresolved reference targets, {member name: bytes}) of a source document."""
    pk = Package(path)
    members = {}
    for n, b in pk.members:
        members[n[n.index("Index/"):] if "Index/" in n else n] = b
    return pk.unresolved(), members


_SRC_OBJS = {}


def _source_objects(source_members):
    """{object id: (first payload re-serialised, sorted header object_references)} of a source document."""
    k = id(source_members)
    hit = _SRC_OBJS.get(k)
    if hit is not None and hit[0] is source_members:
        return hit[1]
    out = {}
    for n, b in source_members.items():
        if not pkg.is_iwa_name(n):
            continue
        try:
            segs = pkg.segments(pkg.unframe(b))
        except Exception:  # noqa: BLE001 - an undecodable source member has no objects to compare with
            continue
        for ai, payloads in segs:
            if not ai.message_infos:
                continue
            cls = pkg.message_class(ai.message_infos[0].type)
            try:
                pl = cls.FromString(payloads[0]).SerializeToString() if cls is not None else payloads[0]
            except Exception:  # noqa: BLE001
                pl = payloads[0]
            out[ai.identifier] = (pl, sorted(x for m in ai.message_infos for x in m.object_references))
    if len(_SRC_OBJS) > 8:
        _SRC_OBJS.clear()
    _SRC_OBJS[k] = (source_members, out)
    return out


def validate(path, source_unresolved=None, source_members=None):
    pk = Package(path, source_members)
    probs = list(pk.problems)
    objs = pk.objs
    if not objs:
        return probs + [("no-objects", "package contains no objects")]
    # -- identifiers / metadata -----------------------------------------------------------------
    meta = pk.by_type("TSP.PackageMetadata")
    if len(meta) != 1:
        probs.append(("metadata-count", f"{len(meta)} PackageMetadata objects"))
    else:
        pm = meta[0][1]
        max_id = max(objs)
        if max_id > pm.last_object_identifier:
            probs.append(("id-above-high-water-mark", f"max object id {max_id} > last_object_identifier {pm.last_object_identifier}"))
        listed = set()
        for c in pm.components:
            loc = c.locator if c.HasField("locator") else c.preferred_locator
            listed.add(f"Index/{loc}.iwa")
        for n in pk.names:
            if pkg.is_iwa_name(n) and n not in METADATA_NAMES and n not in listed and n not in pk.inherited:
                probs.append(("archive-not-listed-in-metadata", f"{n} is not named by any component locator"))
        comp_ids = {c.identifier for c in pm.components}
        # every archive file's root objects should belong to a listed component file (checked via file listing above)
        _ = comp_ids
    # -- data files (images): every DataReference names a listed data item, every Data/ file the library
    #    added is listed, every listed data item with a file name has its file ---------------------
    if len(meta) == 1:
        pm = meta[0][1]
        data_ids = {x.identifier for x in pm.datas}
        data_files = {x.file_name for x in pm.datas if x.file_name}
        used = set()
        for _ident, (_n3, _ai3, msg) in objs.items():
            if msg is not None:
                used.update(pkg.walk_data_references(msg, []))
        missing = sorted(used - data_ids)
        if source_unresolved is not None and missing:
            probs.append(("data-reference-unlisted", f"data reference(s) {missing[:5]} not in PackageMetadata.datas"))
        for n in pk.names:
            if n.startswith("Data/") and n not in pk.inherited and n[len("Data/"):] not in data_files:
                probs.append(("data-file-not-listed-in-metadata", f"{n} is not named by any PackageMetadata.datas entry"))
        for fn in sorted(data_files):
            if f"Data/{fn}" not in pk.names and source_members is not None and f"Data/{fn}" in source_members:
                probs.append(("data-file-missing", f"Data/{fn} is listed and was present in the source but is missing"))
    # -- archive headers: every reference held by an object the library created or rewrote is listed in the
    # object_references of its archive header (what Numbers resolves references from).  Objects carried over
    # from the source unchanged (same payload, same header list) are exempt, whatever their header says.
    if source_members is not None:
        so = _source_objects(source_members)
        stale = []
        for ident, (name, _ai, msg) in objs.items():
            if msg is None or name in pk.inherited:
                continue
            hdr = pk.header_refs.get(ident, [])
            src = so.get(ident)
            if src is not None and src[1] == sorted(hdr) and src[0] == msg.SerializeToString():
                continue
            miss = sorted({x for x in pkg.walk_references(msg, []) if x} - set(hdr))
            if miss:
                stale.append(f"{msg.DESCRIPTOR.full_name}#{ident} holds {miss[:3]} ({'rewritten' if src is not None else 'new'} object)")
        if stale:
            probs.append(("header-references-not-refreshed", f"{len(stale)} created/rewritten objects hold references their archive header does not list: {'; '.join(stale[:3])}"))
    # -- references -----------------------------------------------------------------------------
    unresolved = pk.unresolved()
    if source_unresolved is not None:
        new = sorted(unresolved - set(source_unresolved))
        if new:
            referrers = []
            for ident, (name, _ai, msg) in objs.items():
                if msg is None:
                    continue
                rs = set(pkg.walk_references(msg, [])) | set(pk.header_refs.get(ident, []))
                hit = rs & set(new)
                if hit:
                    referrers.append(f"{msg.DESCRIPTOR.full_name}#{ident}->{sorted(hit)[:3]}")
            probs.append(("dangling-reference", f"{len(new)} unresolved reference target(s) not unresolved in the source: {new[:5]} from {referrers[:4]}"))
    # -- tables ---------------------------------------------------------------------------------
    for tid, tm in pk.by_type("TST.TableModelArchive"):
        nrows, ncols = tm.number_of_rows, tm.number_of_columns
        name = tm.table_name
        bds = tm.base_data_store
        keysets = {
            "string_id": _list_keys(pk, bds.stringTable),
            "rich_id": _list_keys(pk, bds.rich_text_table),
            "cell_style_id": _list_keys(pk, bds.styleTable),
            "text_style_id": _list_keys(pk, bds.styleTable),
            "formula_id": _list_keys(pk, bds.formula_table),
            "control_id": _list_keys(pk, bds.control_cell_spec_table),
        }
        fmt_keys = _list_keys(pk, bds.format_table)
        for f in ("num_format_id", "currency_format_id", "date_format_id", "duration_format_id", "text_format_id", "bool_format_id"):
            keysets[f] = fmt_keys
        for lname in ("stringTable", "styleTable", "formula_table", "format_table", "control_cell_spec_table", "rich_text_table"):
            dups = _dup_keys(pk, getattr(bds, lname))
            if dups:
                probs.append(("data-list-duplicate-key", f"table {name!r}: {lname} has more than one entry for key(s) {dups[:5]}"))
        total = 0
        tile_ids = []
        tsize = bds.tiles.tile_size or 256
        seen_rows = set()
        for tl in bds.tiles.tiles:
            tile_ids.append(tl.tileid)
            if tl.tile.identifier not in objs or objs[tl.tile.identifier][2] is None:
                probs.append(("tile-missing", f"table {name!r}: tile object {tl.tile.identifier} missing"))
                continue
            tile = objs[tl.tile.identifier][2]
            total += tile.numrows
            idx = [r.tile_row_index for r in tile.rowInfos]
            if len(set(idx)) != len(idx):
                probs.append(("tile-row-index-duplicate", f"table {name!r} tile {tl.tileid}: duplicate tile_row_index"))
            if any(x >= tile.numrows for x in idx):
                probs.append(("tile-row-index-out-of-range", f"table {name!r} tile {tl.tileid}: tile_row_index >= numrows {tile.numrows}"))
            for r in tile.rowInfos:
                arow = tl.tileid * tsize + r.tile_row_index
                if arow in seen_rows:
                    probs.append(("row-stored-twice", f"table {name!r}: row {arow} stored twice"))
                seen_rows.add(arow)
                if arow >= nrows:
                    probs.append(("row-beyond-table", f"table {name!r}: stored row {arow} >= number_of_rows {nrows}"))
                if len(r.cell_offsets) % 2:
                    probs.append(("offsets-odd-length", f"table {name!r} row {arow}"))
                    continue
                offs = struct.unpack(f"<{len(r.cell_offsets) // 2}h", r.cell_offsets)
                if len(offs) < ncols or any(o != -1 for o in offs[ncols:]):
                    probs.append(("offsets-count", f"table {name!r} row {arow}: {len(offs)} offsets for {ncols} columns"))
                mult = 4 if r.has_wide_offsets else 1
                buf = r.cell_storage_buffer
                pos = [(o * mult, c) for c, o in enumerate(offs[:ncols]) if o >= 0]
                if any(o < -1 for o in offs):
                    probs.append(("offset-negative", f"table {name!r} row {arow}: offset below -1"))
                if [p for p, _ in pos] != sorted({p for p, _ in pos}):
                    probs.append(("offsets-not-increasing", f"table {name!r} row {arow}: {[p for p, _ in pos][:8]}"))
                    continue
                if r.cell_count != len(pos):
                    probs.append(("cell-count", f"table {name!r} row {arow}: cell_count {r.cell_count} != {len(pos)} stored cells"))
                expect = 0
                for p, c in pos:
                    if p % 4:
                        probs.append(("record-misaligned", f"table {name!r} cell ({arow},{c}) at byte {p}"))
                    if p != expect:
                        probs.append(("record-gap-or-overlap", f"table {name!r} cell ({arow},{c}) starts at {p}, previous record ended at {expect}"))
                    ln = record_length(buf, p)
                    if ln is None or p + ln > len(buf):
                        probs.append(("record-out-of-bounds", f"table {name!r} cell ({arow},{c}) at {p}: length {ln}, buffer {len(buf)}"))
                        break
                    fields, ctype = record_fields(buf, p)
                    for fname, val in fields.items():
                        ks = keysets.get(fname)
                        if fname in keysets and (ks is None or val not in ks):
                            probs.append(("record-key-missing-from-list", f"table {name!r} cell ({arow},{c}): {fname}={val} not in its data list"))
                    if ctype == 3 and "string_id" not in fields:
                        probs.append(("text-record-without-string-id", f"table {name!r} cell ({arow},{c})"))
                    expect = p + ln
                else:
                    if expect != len(buf):
                        probs.append(("row-buffer-trailing-bytes", f"table {name!r} row {arow}: records end at {expect}, buffer has {len(buf)} bytes"))
        if total != nrows:
            probs.append(("tile-rows-sum", f"table {name!r}: tiles hold {total} rows, number_of_rows {nrows}"))
        if len(set(tile_ids)) != len(tile_ids):
            probs.append(("tile-id-duplicate", f"table {name!r}: tile ids {tile_ids}"))
        # header buckets
        if bds.rowHeaders.buckets and bds.rowHeaders.buckets[0].identifier in objs:
            hb = objs[bds.rowHeaders.buckets[0].identifier][2]
            if hb is not None:
                idxs = [h.index for h in hb.headers]
                if sorted(idxs) != list(range(nrows)):
                    probs.append(("row-headers", f"table {name!r}: row header indices {idxs[:6]}.. ({len(idxs)}) for {nrows} rows"))
        else:
            probs.append(("row-headers-missing", f"table {name!r}"))
        if bds.columnHeaders.identifier in objs and objs[bds.columnHeaders.identifier][2] is not None:
            cb = objs[bds.columnHeaders.identifier][2]
            idxs = [h.index for h in cb.headers]
            if sorted(idxs) != list(range(ncols)):
                probs.append(("column-headers", f"table {name!r}: column header indices {idxs[:6]}.. ({len(idxs)}) for {ncols} columns"))
        else:
            probs.append(("column-headers-missing", f"table {name!r}"))
        # merge map
        if bds.merge_region_map.identifier:
            if bds.merge_region_map.identifier not in objs:
                pass  # reported as dangling reference
            else:
                mm = objs[bds.merge_region_map.identifier][2]
                rects = []
                for cr in mm.cell_range:
                    c0, r0 = cr.origin.packedData >> 16, cr.origin.packedData & 0xFFFF
                    w, h = cr.size.packedData >> 16, cr.size.packedData & 0xFFFF
                    rects.append((r0, c0, r0 + h - 1, c0 + w - 1))
                for rc in rects:
                    if rc[2] >= nrows or rc[3] >= ncols or rc[0] > rc[2] or rc[1] > rc[3]:
                        probs.append(("merge-rect-outside-table", f"table {name!r}: merge {rc} in {nrows}x{ncols}"))
                for i, a in enumerate(rects):
                    for b in rects[i + 1 :]:
                        if not (a[2] < b[0] or b[2] < a[0] or a[3] < b[1] or b[3] < a[1]):
                            probs.append(("merge-rects-overlap", f"table {name!r}: {a} and {b}"))
    return probs
