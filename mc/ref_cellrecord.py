"""Independent encoder for version-5 cell storage records, written from the published layout
(/repo/docs/Numbers.md "Cell formats" + the SheetJS IWA notes it defers to). It imports nothing from
numbers_parser.

Layout
  byte 0      storage version (5)
  byte 1      cell type (0 generic/empty, 2 number, 3 text, 5 date, 6 bool, 7 duration, 8 formula
              error, 9 automatic/rich text, 10 currency)
  bytes 2-5   unused
  byte 6      "extras": 0x01 number format, 0x02 currency format, 0x04 duration format, 0x08 date
              format, 0x20 bool format, 0x80 string id present
  byte 7      unused here
  bytes 8-11  flags, little-endian
  then one field per set flag bit, in ascending bit order:
      bit 0  decimal128 (16 bytes)      bit 1  double (8)           bit 2  seconds since 2001-01-01 (8)
      bits 3..20  one 4-byte little-endian signed word each:
      3 string id, 4 rich text id, 5 cell style id, 6 text style id, 7 conditional style id,
      8 conditional style applied rule id, 9 formula id, 10 control cell spec id, 11 formula syntax
      error id, 12 suggest cell format kind, 13 number format id, 14 currency format id, 15 date
      format id, 16 duration format id, 17 text format id, 18 boolean format id, 19 comment id,
      20 import warning set id
"""
from __future__ import annotations

import struct
from datetime import datetime, timedelta
from decimal import Decimal
from fractions import Fraction

VERSION = 5
CELL_TYPE = {"empty": 0, "number": 2, "text": 3, "date": 5, "bool": 6, "duration": 7, "error": 8, "rich": 9, "currency": 10}
NBITS = 21
FIELD_NAME = {
    0: "d128", 1: "double", 2: "seconds", 3: "string_id", 4: "rich_id", 5: "cell_style_id", 6: "text_style_id",
    7: "cond_style_id", 8: "cond_rule_style_id", 9: "formula_id", 10: "control_id", 11: "formula_error_id",
    12: "suggest_id", 13: "num_format_id", 14: "currency_format_id", 15: "date_format_id",
    16: "duration_format_id", 17: "text_format_id", 18: "bool_format_id", 19: "comment_id", 20: "import_warning_id",
}
FIELD_SIZE = {b: (16 if b == 0 else 8 if b in (1, 2) else 4) for b in range(NBITS)}
EXTRAS6 = {13: 0x01, 14: 0x02, 16: 0x04, 15: 0x08, 18: 0x20, 3: 0x80}
D128_BIAS = 6176
D128_COEFF_BITS = 113
EPOCH_2001 = datetime(2001, 1, 1)


def d128_encode(sign: int, coeff: int, exp: int) -> bytes:
    """IEEE 754-2008 decimal128, binary-integer-decimal encoding, little-endian (form with the
    two leading combination bits != 11: sign(1) | biased exponent(14) | coefficient(113))."""
    biased = exp + D128_BIAS
    if not (0 <= coeff < 1 << D128_COEFF_BITS) or not (0 <= biased < 0x3000):
        raise ValueError("not representable in the short decimal128 form")
    return ((sign << 127) | (biased << D128_COEFF_BITS) | coeff).to_bytes(16, "little")


def d128_decode(b: bytes) -> Decimal:
    n = int.from_bytes(bytes(b), "little")
    sign = n >> 127
    biased = (n >> D128_COEFF_BITS) & 0x3FFF
    coeff = n & ((1 << D128_COEFF_BITS) - 1)
    return Decimal((sign, tuple(int(c) for c in str(coeff)), biased - D128_BIAS))


def d128_float(sign: int, coeff: int, exp: int) -> float:
    """The correctly rounded binary64 value of (-1)^sign * coeff * 10^exp (via exact rationals)."""
    q = Fraction(coeff) * (Fraction(10) ** exp)
    f = float(q)
    return -f if sign else f


def us_to_seconds(us: int) -> float:
    """Correctly rounded float of an integer number of microseconds expressed in seconds."""
    return float(Fraction(us, 10**6))


def datetime_to_us(dt: datetime) -> int:
    d = dt - EPOCH_2001
    return (d.days * 86400 + d.seconds) * 10**6 + d.microseconds


def timedelta_to_us(td: timedelta) -> int:
    return (td.days * 86400 + td.seconds) * 10**6 + td.microseconds


def extras6(flags: int) -> int:
    x = 0
    for bit, m in EXTRAS6.items():
        if flags >> bit & 1:
            x |= m
    return x


def encode_record(cell_type: int, flags: int, field_bytes: dict) -> bytes:
    """field_bytes: bit -> bytes of exactly FIELD_SIZE[bit]; every set bit of `flags` must be present."""
    hdr = bytearray(12)
    hdr[0] = VERSION
    hdr[1] = cell_type
    hdr[6] = extras6(flags)
    hdr[8:12] = struct.pack("<I", flags)
    body = b""
    for bit in range(NBITS):
        if flags >> bit & 1:
            fb = field_bytes[bit]
            if len(fb) != FIELD_SIZE[bit]:
                raise ValueError(f"field {bit} has {len(fb)} bytes")
            body += fb
    return bytes(hdr) + body


def word(v: int) -> bytes:
    return struct.pack("<i", v)
