"""Reference model for C09: what a printed cell/range/row/column reference *denotes*.

Three independent pieces, none of which calls numbers_parser.xrefs / model.node_to_ref / tokenizer:

* `DocModel` - a plain-data description of a document's names as a *reader* sees them: ordered
  sheets, ordered tables, table names, header counts and the displayed header labels.
* builders - turn a (names, label scheme) configuration into a real `Document` with the same
  names, and turn a *stored reference spec* (absolute target coordinates + absolute/relative bits
  + host cell) into the protobuf AST node that stores it (CELL_REFERENCE_NODE or COLON_TRACT_NODE,
  encoded as documented in docs/Numbers.md and as the library's own writer encodes them).
* `judge(doc_model, host, stored, text)` - the independent resolver. It splits the printed text
  into qualifiers and A1 / label parts and answers "which table(s), which rows/columns, which '$'
  marks does this text denote for a reader who knows only the document's names?" and compares the
  answer with the stored target.

`rendered_reference_texts(tier)` returns every distinct reference text the library renders over
the C09 naming configurations (for C18: the tokenizer must accept what the reader emits).
"""
from __future__ import annotations

import re
import warnings

MAX_ROW = 0x7FFFFFFF
MAX_COL = 0x7FFF

# --------------------------------------------------------------------------------------------
# naming configurations
# --------------------------------------------------------------------------------------------
# Table names are referred to by index; index 2j and 2j+1 differ only in letter case (the
# library's lookups are case-sensitive, so they are different names). VERIF_SEED rotates which
# word stands for which index - never which configuration is visited.
_WORDS = ["A", "Table 2", "T-3", "Totals", "P&L", "Nn", "Data 7", "Q", "Zed", "Kk"]
_SHEET_STYLES = [lambda i: f"S{i + 1}", lambda i: f"Sheet {i + 1}", lambda i: f"Sh-{i + 1}"]


def table_name(idx: int, seed: int = 0) -> str:
    word = _WORDS[(idx // 2 + seed) % len(_WORDS)]
    if idx // 2 >= len(_WORDS):
        word = f"{word}{idx // 2}"
    return word.lower() if idx % 2 else word


def sheet_name(si: int, seed: int = 0) -> str:
    return _SHEET_STYLES[seed % len(_SHEET_STYLES)](si)


def canonical_name_configs(n_sheets: int, n_tables: int, ordered: bool = True):
    """All assignments of table names to an S x T document, names distinct within a sheet, up to
    renaming (restricted-growth canonical form). ordered=False additionally identifies assignments
    that differ only in the order of the tables inside a sheet."""
    out = []

    def rec(si, cur, used):
        if si == n_sheets:
            out.append([list(x) for x in cur])
            return

        def sheet(pos, names, used2):
            if pos == n_tables:
                rec(si + 1, cur + [tuple(names)], used2)
                return
            for n in range(used2 + 1):
                if n in names:
                    continue
                sheet(pos + 1, names + [n], max(used2, n + 1))

        sheet(0, [], used)

    rec(0, [], 0)
    if ordered:
        return out
    seen, res = set(), []
    for cfg in out:
        c = tuple(tuple(sorted(sh)) for sh in cfg)
        m = {}
        c = tuple(tuple(sorted(m.setdefault(n, len(m)) for n in sh)) for sh in c)
        if c not in seen:
            seen.add(c)
            res.append([list(sh) for sh in c])
    return res


def window_name_configs(n_sheets: int, n_tables: int):
    """Structured family for shapes too large for the complete product: sheet s uses the names
    o_s .. o_s+T-1 with o_0 = 0 and o_s in {0 (same names), 1 (shifted by one), s*T (disjoint)}."""
    import itertools

    out = []
    for offs in itertools.product(range(3), repeat=n_sheets - 1):
        cfg = [list(range(n_tables))]
        for s, o in enumerate(offs, start=1):
            base = {0: 0, 1: 1, 2: s * n_tables}[o]
            cfg.append([base + k for k in range(n_tables)])
        out.append(cfg)
    return out


# label schemes: name -> function(si, ti) -> (hdr_rows, hdr_cols, {row: label}, {col: label}, decoys)
# labels are str, float (displayed by the library's default number format) or None (cell never
# written). All tables are 4 x 4.
N_ROWS = N_COLS = 4


def _scheme(name, si, ti):
    u = f"{si + 1}{ti + 1}"
    first = (si, ti) == (0, 0)
    if name == "none":
        return 0, 0, {}, {}, {}
    if name == "same":
        return 1, 1, {i: f"r{i}" for i in (1, 2, 3)}, {i: f"c{i}" for i in (1, 2, 3)}, {}
    if name == "uniq":
        return 1, 1, {i: f"u{u}r{i}" for i in (1, 2, 3)}, {i: f"u{u}c{i}" for i in (1, 2, 3)}, {}
    if name == "sheet":
        return 1, 1, {i: f"t{ti + 1}r{i}" for i in (1, 2, 3)}, {i: f"t{ti + 1}c{i}" for i in (1, 2, 3)}, {}
    if name == "dupt":  # duplicated inside the table next to a label that is not
        return 1, 1, {1: "dr", 2: "r2", 3: "dr"}, {1: "c1", 2: "dc", 3: "dc"}, {}
    if name == "dupx":  # one table carries a label once that the other tables carry twice
        if first:
            return 1, 1, {1: "d", 2: "r2", 3: "r3"}, {1: "c1", 2: "c2", 3: "e"}, {}
        return 1, 1, {1: "d", 2: "d", 3: "r3"}, {1: "e", 2: "c2", 3: "e"}, {}
    if name == "cross":  # the same labels on the row axis and on the column axis
        lab = {1: f"x{u}a", 2: f"x{u}b", 3: f"x{u}c"}
        return 1, 1, dict(lab), dict(lab), {}
    if name == "special":  # space, operator character, apostrophe, number
        return 1, 1, {1: "r 1", 2: "a+b", 3: "it's"}, {1: 2.5, 2: "x-y", 3: "c&d"}, {}
    if name == "specialu":  # the same classes, unique in the document
        return (1, 1, {1: f"u{u} r", 2: f"u{u}+b", 3: f"u{u}'s"},
                {1: float(f"{u}.5"), 2: f"u{u}-y", 3: f"100%u{u}"}, {})
    if name == "blank":  # one header cell of each axis was never filled in
        return 1, 1, {2: "r2", 3: "r3"}, {1: "c1", 3: "c3"}, {}
    if name == "hdr2":  # two header rows / columns: the innermost one carries the labels
        decoys = {}
        for i in (2, 3):
            decoys[(i, 0)] = f"k{u}r{i}"
            decoys[(0, i)] = f"k{u}c{i}"
        decoys[(1, 0)] = f"k{u}x"
        decoys[(0, 1)] = f"k{u}y"
        return 2, 2, {i: f"u{u}r{i}" for i in (2, 3)}, {i: f"u{u}c{i}" for i in (2, 3)}, decoys
    raise KeyError(name)


SCHEMES = ["none", "same", "uniq", "sheet", "dupt", "dupx", "cross", "special", "specialu", "blank", "hdr2"]


def display(label):
    """Displayed text of a header cell as a reader sees it (default formats)."""
    if label is None:
        return None
    if isinstance(label, float):
        return repr(label) if label != int(label) else str(int(label))
    return str(label)


class TableInfo:
    """One table as a reader sees it: names, header counts and the displayed text of every cell
    that was filled in. Header labels are *derived*: the label of body row i is the text in the
    innermost header column of that row (and likewise for columns)."""

    def __init__(self, uid, sheet_name_, name, hdr_rows, hdr_cols, grid):
        self.uid = tuple(uid)
        self.sheet = uid[0]
        self.sheet_name = sheet_name_
        self.name = name
        self.hdr_rows = hdr_rows
        self.hdr_cols = hdr_cols
        self.grid = grid  # (row, col) -> displayed text of a filled-in cell

    @property
    def row_labels(self):
        if self.hdr_cols == 0:
            return {}
        c = self.hdr_cols - 1
        return {i: self.grid[(i, c)] for i in range(self.hdr_rows, N_ROWS) if self.grid.get((i, c)) is not None}

    @property
    def col_labels(self):
        if self.hdr_rows == 0:
            return {}
        r = self.hdr_rows - 1
        return {i: self.grid[(r, i)] for i in range(self.hdr_cols, N_COLS) if self.grid.get((r, i)) is not None}

    def label_hits(self, label):
        """(axis, index) of every body row / column whose header label is exactly `label`."""
        hits = [("row", i) for i, lab in sorted(self.row_labels.items()) if lab == label]
        hits += [("col", i) for i, lab in sorted(self.col_labels.items()) if lab == label]
        return hits

    def describe(self):
        return f"{self.sheet_name}/{self.name}"


BODY_FILL = 0  # every non-header cell holds the number 0 (and hosts the formula slot)


class DocModel:
    """Reader's view of a document: names only."""

    def __init__(self, names, scheme, seed=0):
        self.names = [list(sh) for sh in names]
        self.scheme = scheme
        self.seed = seed
        self.tables = []
        for si, sh in enumerate(self.names):
            for ti, n in enumerate(sh):
                hr, hc, rows, cols, decoys = _scheme(scheme, si, ti)
                grid = {(r, c): display(BODY_FILL) for r in range(hr, N_ROWS) for c in range(hc, N_COLS)}
                for i, v in rows.items():
                    if v is not None and hc:
                        grid[(i, hc - 1)] = display(v)
                for i, v in cols.items():
                    if v is not None and hr:
                        grid[(hr - 1, i)] = display(v)
                for rc, v in decoys.items():
                    grid[rc] = display(v)
                self.tables.append(TableInfo((si, ti), sheet_name(si, seed), table_name(n, seed), hr, hc, grid))
        self.by_uid = {t.uid: t for t in self.tables}

    def set_cell(self, uid, rc, text):
        self.by_uid[tuple(uid)].grid[tuple(rc)] = display(text)

    def rename(self, uid, name):
        self.by_uid[tuple(uid)].name = name

    def add_table(self, si, sheet_name_, name, hdr_rows, hdr_cols):
        """A table added later (empty: it carries no labels, it only changes which names are unique)."""
        ti = sum(1 for t in self.tables if t.sheet == si)
        t = TableInfo((si, ti), sheet_name_, name, hdr_rows, hdr_cols, {})
        self.tables.append(t)
        self.by_uid[t.uid] = t
        return t

    def rename_sheet(self, si, name):
        for t in self.tables:
            if t.sheet == si:
                t.sheet_name = name

    def set_headers(self, uid, axis, n):
        t = self.by_uid[tuple(uid)]
        if axis == "row":
            t.hdr_rows = n
        else:
            t.hdr_cols = n

    # -- the reader's table lookup ------------------------------------------------------------
    def match_tables(self, host, quals):
        """Tables a reader in table `host` matches for the qualifier list: none = the host table;
        one = that table name in the host's sheet, else anywhere; two = sheet name + table name."""
        h = self.by_uid[tuple(host)]
        if len(quals) == 0:
            return [h]
        if len(quals) == 1:
            here = [t for t in self.tables if t.sheet == h.sheet and t.name == quals[0]]
            return here or [t for t in self.tables if t.name == quals[0]]
        if len(quals) == 2:
            return [t for t in self.tables if t.sheet_name == quals[0] and t.name == quals[1]]
        return []

    def label_levels(self, host):
        h = self.by_uid[tuple(host)]
        return [[h], [t for t in self.tables if t.sheet == h.sheet], list(self.tables)]


# --------------------------------------------------------------------------------------------
# stored reference specs and their AST nodes
# --------------------------------------------------------------------------------------------
# spec (JSON list):
#   ["cell", r, c, r_abs, c_abs]
#   ["row", r, r_abs]                  CELL_REFERENCE_NODE with only AST_row   (whole row)
#   ["col", c, c_abs]                  CELL_REFERENCE_NODE with only AST_column (whole column)
#   ["tract", r0, r1, c0, c1, ra0, ra1, ca0, ca1, enc]   COLON_TRACT_NODE; r0=r1=None: column span,
#                                      c0=c1=None: row span; enc=1 writes range_end even if equal
#   ["colon", r0, c0, ra0, ca0, r1, c1, ra1, ca1]        two CELL_REFERENCE_NODEs joined by a COLON_NODE
#                                      (how Numbers itself stores most rectangles)
def stored_target(spec):
    """Normal form of what the node stores: (shape, begin, end) with shape 'cells' | 'rows' | 'cols';
    begin/end = (row, col, row_abs, col_abs) with None on an open axis. End-points in stored order."""
    k = spec[0]
    if k == "cell":
        _, r, c, ra, ca = spec
        p = (r, c, bool(ra), bool(ca))
        return ("cells", p, p)
    if k == "row":
        _, r, ra = spec
        p = (r, None, bool(ra), None)
        return ("rows", p, p)
    if k == "col":
        _, c, ca = spec
        p = (None, c, None, bool(ca))
        return ("cols", p, p)
    if k == "colon":
        _, r0, c0, ra0, ca0, r1, c1, ra1, ca1 = spec
        return ("cells", (r0, c0, bool(ra0), bool(ca0)), (r1, c1, bool(ra1), bool(ca1)))
    _, r0, r1, c0, c1, ra0, ra1, ca0, ca1, _enc = spec
    if c0 is None:
        return ("rows", (r0, None, bool(ra0), None), (r1, None, bool(ra1), None))
    if r0 is None:
        return ("cols", (None, c0, None, bool(ca0)), (None, c1, None, bool(ca1)))
    return ("cells", (r0, c0, bool(ra0), bool(ca0)), (r1, c1, bool(ra1), bool(ca1)))


def spec_kind(spec):
    k = spec[0]
    if k != "tract":
        return k
    if spec[3] is None:
        return "rowspan"
    if spec[1] is None:
        return "colspan"
    return "rect"


def _pb():
    from numbers_parser.generated import TSCEArchives_pb2 as TSCE

    return TSCE, TSCE.ASTNodeArrayArchive, TSCE.ASTNodeArrayArchive.ASTNodeArchive


def build_nodes(spec, host_rc, target_uuid_pb=None):
    """The post-fix node list that stores `spec` (one node, or two cell references and a COLON_NODE)."""
    if spec[0] == "colon":
        _TSCE, T, N = _pb()
        a = build_node(["cell"] + list(spec[1:5]), host_rc, target_uuid_pb)
        b = build_node(["cell"] + list(spec[5:9]), host_rc, target_uuid_pb)
        return [a, b, N(AST_node_type=T.COLON_NODE)]
    return [build_node(spec, host_rc, target_uuid_pb)]


def build_node(spec, host_rc, target_uuid_pb=None):
    """The AST node that stores `spec` for a formula living in cell host_rc. Relative coordinates
    are stored as (target - host); absolute ones as they are."""
    TSCE, T, N = _pb()
    hr, hc = host_rc
    k = spec[0]
    if k in ("cell", "row", "col"):
        n = N(AST_node_type=T.CELL_REFERENCE_NODE)
        if k in ("cell", "row"):
            r, ra = (spec[1], spec[3]) if k == "cell" else (spec[1], spec[2])
            n.AST_row.row = r if ra else r - hr
            n.AST_row.absolute = bool(ra)
        if k in ("cell", "col"):
            c, ca = (spec[2], spec[4]) if k == "cell" else (spec[1], spec[2])
            n.AST_column.column = c if ca else c - hc
            n.AST_column.absolute = bool(ca)
    else:
        _, r0, r1, c0, c1, ra0, ra1, ca0, ca1, enc = spec
        n = N(AST_node_type=T.COLON_TRACT_NODE)
        ct = n.AST_colon_tract
        ct.preserve_rectangular = True
        sb = n.AST_sticky_bits
        sb.begin_row_is_absolute = bool(ra0)
        sb.end_row_is_absolute = bool(ra1)
        sb.begin_column_is_absolute = bool(ca0)
        sb.end_column_is_absolute = bool(ca1)

        def axis(rel, absl, b, e, ab, ae, h, open_mark):
            if b is None:  # open axis: the whole extent
                absl.add().range_begin = open_mark
                return
            if ab and ae:
                x = absl.add()
                x.range_begin = b
                if e != b or enc:
                    x.range_end = e
            elif not ab and not ae:
                x = rel.add()
                x.range_begin = b - h
                if e != b or enc:
                    x.range_end = e - h
            elif ab:
                absl.add().range_begin = b
                rel.add().range_begin = e - h
            else:
                rel.add().range_begin = b - h
                absl.add().range_begin = e

        axis(ct.relative_row, ct.absolute_row, r0, r1, ra0, ra1, hr, MAX_ROW)
        axis(ct.relative_column, ct.absolute_column, c0, c1, ca0, ca1, hc, MAX_COL)
    if target_uuid_pb is not None:
        n.AST_cross_table_reference_extra_info.table_id.CopyFrom(target_uuid_pb)
    return n


# --------------------------------------------------------------------------------------------
# building the real document
# --------------------------------------------------------------------------------------------
class Built:
    """A real Document realising a DocModel, with one single-node formula slot per table that every
    body cell of the table points to; `render` stores a reference node in the slot and reads the
    formula text of the host cell through the public accessor `Cell.formula`."""

    def __init__(self, names, scheme, seed=0):
        warnings.simplefilter("ignore")
        from numbers_parser import Document
        from numbers_parser.numbers_uuid import NumbersUUID

        TSCE, T, N = _pb()
        self.model = DocModel(names, scheme, seed)
        d = None
        self.tables = {}
        for si, sh in enumerate(names):
            for ti, _n in enumerate(sh):
                tmp = f"tmp{si}_{ti}"
                if d is None:
                    d = Document(sheet_name=sheet_name(0, seed), table_name=tmp, num_rows=N_ROWS, num_cols=N_COLS)
                elif ti == 0:
                    d.add_sheet(sheet_name(si, seed), table_name=tmp, num_rows=N_ROWS, num_cols=N_COLS)
                else:
                    d.sheets[si].add_table(tmp, num_rows=N_ROWS, num_cols=N_COLS)
                self.tables[(si, ti)] = d.sheets[si].tables[ti]
        self.doc = d
        m = self.m = d._model
        # names (renaming is how duplicates across sheets come about)
        for (si, ti), t in self.tables.items():
            t.name = table_name(names[si][ti], seed)
        # headers
        for (si, ti), t in self.tables.items():
            hr, hc, rows, cols, decoys = _scheme(scheme, si, ti)
            t.num_header_rows = hr
            t.num_header_cols = hc
            if hr:
                for i, v in cols.items():
                    if v is not None:
                        t.write(hr - 1, i, v)
            if hc:
                for i, v in rows.items():
                    if v is not None:
                        t.write(i, hc - 1, v)
            for (r, c), v in decoys.items():
                t.write(r, c, v)
        # formula slots
        self.slot = {}
        self.uuid_pb = {}
        for uid, t in self.tables.items():
            tid = t._table_id
            m._formulas.add_table(tid)
            node = N(AST_node_type=T.CELL_REFERENCE_NODE)
            node.AST_row.row = 0
            node.AST_column.column = 0
            key = m._formulas.lookup_key(tid, TSCE.FormulaArchive(AST_node_array=T(AST_node=[node])))
            hr, hc, *_ = _scheme(scheme, *uid)
            for r in range(hr, N_ROWS):
                for c in range(hc, N_COLS):
                    t.write(r, c, 0)
                    t.cell(r, c)._formula_id = key
            self.uuid_pb[uid] = NumbersUUID(m.table_base_id(tid)).protobuf4
        m._cache.pop("formula_ast", None)
        for uid, t in self.tables.items():
            key = t.cell(N_ROWS - 1, N_COLS - 1)._formula_id
            self.slot[uid] = m.formula_ast(t._table_id)[key]

    def set_nodes(self, host, nodes):
        slot = self.slot[tuple(host)]
        del slot[:]
        for n in nodes:
            slot.add().CopyFrom(n)

    def read(self, host, rc):
        return self.tables[tuple(host)].cell(rc[0], rc[1]).formula

    def render(self, host, rc, target, spec):
        """Store `spec` (pointing into table `target`) in cell rc of table `host`; return Cell.formula."""
        host, target = tuple(host), tuple(target)
        self.set_nodes(host, build_nodes(spec, rc, None if target == host else self.uuid_pb[target]))
        return self.read(host, rc)

    def header_sanity(self):
        """Harness self-check: names, header counts and the displayed text of every filled-in cell
        the library reports are the ones the DocModel assumes (so that a disagreement is never
        blamed on the reference printer)."""
        bad = []
        for uid, t in self.tables.items():
            info = self.model.by_uid[uid]
            if (t.num_header_rows, t.num_header_cols, t.name) != (info.hdr_rows, info.hdr_cols, info.name):
                bad.append((uid, "header counts / name"))
            for (r, c), txt in info.grid.items():
                got = t.cell(r, c).formatted_value
                if got != txt:
                    bad.append((uid, r, c, txt, got))
        return bad


# --------------------------------------------------------------------------------------------
# the independent resolver
# --------------------------------------------------------------------------------------------
_CELL = re.compile(r"^(\$?)([A-Z]+)(\$?)([0-9]+)$")
_ROW = re.compile(r"^(\$?)([0-9]+)$")
_COL = re.compile(r"^(\$?)([A-Z]+)$")


def col_index(letters):
    n = 0
    for ch in letters:
        n = n * 26 + (ord(ch) - 64)
    return n - 1


def parse_half(raw):
    """One side of a (possibly one-sided) reference -> (kind, payload).
    kinds: cell (r, c, r_abs, c_abs) | rownum (r, abs) | colname (c, abs) | label (text, abs)."""
    if len(raw) >= 2 and raw[0] == "'" and raw[-1] == "'" and not raw.startswith("'''"):
        inner = raw[1:-1]
        ab = inner.startswith("$")
        return ("label", (inner[1:] if ab else inner, ab))
    m = _CELL.match(raw)
    if m:
        return ("cell", (int(m.group(4)) - 1, col_index(m.group(2)), m.group(3) == "$", m.group(1) == "$"))
    m = _ROW.match(raw)
    if m:
        return ("rownum", (int(m.group(2)) - 1, m.group(1) == "$"))
    m = _COL.match(raw)
    if m:
        return ("colname", (col_index(m.group(2)), m.group(1) == "$"))
    ab = raw.startswith("$")
    txt = raw[1:] if ab else raw
    return ("label", (txt.replace("'''", "'"), ab))


def parse_printed(text):
    """-> (qualifiers, [half, ...]) or None if the text has no reading as a reference."""
    if not isinstance(text, str):
        return None
    parts = text.split("::")
    quals, ref = parts[:-1], parts[-1]
    if len(quals) > 2 or any(q == "" for q in quals):
        return None
    halves = ref.split(":")
    if len(halves) > 2:
        return None
    return quals, [parse_half(h) for h in halves]


def judge(doc: DocModel, host, host_rc, target, spec, text):
    """Compare what `text` denotes with what `spec` stores. Returns a list of
    (mechanism, class, detail); empty = the text identifies exactly the stored target."""
    host, target = tuple(host), tuple(target)
    shape, sb, se = stored_target(spec)
    tgt = doc.by_uid[target]
    out = []
    parsed = parse_printed(text)
    if parsed is None:
        return [("form", "not-a-reference", f"{text!r} has no reading as a reference")]
    quals, halves = parsed
    if text == f"{tgt.sheet_name}::{tgt.name}:{tgt.name}":
        return [("form", "colon-join-drops-cell-addresses", f"{text!r}: sheet and table name of the stored table, but no cell addresses")]
    kinds = [h[0] for h in halves]
    is_label = "label" in kinds or (len(halves) == 1 and kinds[0] == "rownum")

    # ---- which table ------------------------------------------------------------------------
    def table_verdict(cands):
        names = [t.describe() for t in cands]
        if not cands:
            return ("table", "none-matches", f"qualifier {quals} matches no table")
        if len(cands) > 1:
            return ("table", "ambiguous", f"qualifier {quals} matches {names}, stored {tgt.describe()}")
        if cands[0] is not tgt:
            return ("table", "wrong-table", f"qualifier {quals} denotes {names[0]}, stored {tgt.describe()}")
        return None

    if quals or not is_label:
        v = table_verdict(doc.match_tables(host, quals))
        if v:
            return [v]
        if host == target and quals:
            out.append(("table", "over-qualified-self", f"{text!r}: a reference into the host table carries the qualifier {quals}"))
        elif len(quals) == 2 and doc.match_tables(host, quals[1:]) == [tgt]:
            out.append(("table", "over-qualified-sheet", f"{text!r}: the table name {quals[1]!r} alone already denotes exactly the stored table"))

    # ---- coordinates ------------------------------------------------------------------------
    if not is_label:
        if len(halves) == 2 and kinds[0] != kinds[1]:
            return out + [("form", "mixed-ends", f"{text!r} mixes {kinds[0]} and {kinds[1]}")]
        k = kinds[0]
        if k == "cell":
            pshape = "cells"
            pb = halves[0][1]
            pe = halves[-1][1]
        elif k == "rownum":
            pshape = "rows"
            pb = (halves[0][1][0], None, halves[0][1][1], None)
            pe = (halves[-1][1][0], None, halves[-1][1][1], None)
        else:
            pshape = "cols"
            pb = (None, halves[0][1][0], None, halves[0][1][1])
            pe = (None, halves[-1][1][0], None, halves[-1][1][1])
        if pshape != shape:
            return out + [("coord", "shape", f"{text!r} denotes {pshape}, stored {shape} {sb}..{se}")]
        if (pb, pe) != (sb, se):
            if (pb, pe) == (se, sb):
                cls = "swapped"
            elif (pb[0], pb[1], pe[0], pe[1]) == (sb[0], sb[1], se[0], se[1]):
                cls = "dollar"
            elif (pb[1], pe[1]) == (sb[1], se[1]):
                cls = "row"
            elif (pb[0], pe[0]) == (sb[0], se[0]):
                cls = "col"
            else:
                cls = "row+col"
            out.append(("coord", cls, f"{text!r} denotes {pb}..{pe}, stored {sb}..{se} (host cell {tuple(host_rc)})"))
        return out

    # ---- labels -----------------------------------------------------------------------------
    if shape == "cells":
        return out + [("coord", "shape", f"{text!r} is a label reference, stored {shape} {sb}..{se}")]
    labs = []
    for kind, payload in halves:
        if kind == "label":
            labs.append(payload)
        elif kind == "cell":
            return out + [("form", "mixed-ends", f"{text!r} mixes a label and a cell")]
        else:  # a coordinate-looking side next to a label: read it as a label text too
            raw_txt = str(payload[0] + 1) if kind == "rownum" else None
            if raw_txt is None:
                return out + [("form", "mixed-ends", f"{text!r} mixes a label and a column name")]
            labs.append((raw_txt, payload[1]))
    if any(lab[0] == "" for lab in labs):
        return out + [("label", "empty-text", f"{text!r}: a row/column is printed as an empty label")]
    levels = [doc.match_tables(host, quals)] if quals else doc.label_levels(host)
    interp = []
    for cands in levels:
        for t in cands:
            h0 = t.label_hits(labs[0][0])
            if len(labs) == 1:
                interp += [(t, a0, i0, i0) for (a0, i0) in h0]
            else:
                h1 = t.label_hits(labs[1][0])
                interp += [(t, a0, i0, i1) for (a0, i0) in h0 for (a1, i1) in h1 if a0 == a1]
        if interp:
            break
    axis = "row" if shape == "rows" else "col"
    want = (tgt, axis, sb[0] if axis == "row" else sb[1], se[0] if axis == "row" else se[1])
    shown = [(t.describe(), a, i, j) for t, a, i, j in interp]
    if not interp:
        if any(lab[0] == "None" for lab in labs):
            return out + [("label", "printed-None", f"{text!r}: a row/column without a usable label is printed as the text 'None'; stored {want[0].describe()} {want[1:]}")]
        return out + [("label", "unknown", f"{text!r}: no row/column carries these labels in the reader's scope; stored {want[0].describe()} {want[1:]}")]
    if len(interp) > 1:
        cls = "ambiguous-axis" if len({(t.uid, i, j) for t, a, i, j in interp}) < len(interp) else "ambiguous"
        return out + [("label", cls, f"{text!r} denotes {shown}; stored {want[0].describe()} {want[1:]}")]
    if interp[0] != want:
        cls = "swapped" if (interp[0][0], interp[0][1], interp[0][3], interp[0][2]) == want else "wrong"
        return out + [("label", cls, f"{text!r} denotes {shown[0]}; stored {want[0].describe()} {want[1:]}")]
    pabs = (labs[0][1], labs[-1][1])
    sabs = (sb[2], se[2]) if axis == "row" else (sb[3], se[3])
    if pabs != sabs:
        out.append(("label", "dollar", f"{text!r} carries '$' marks {pabs}, stored {sabs}"))
    return out


def _axis_texts(t: TableInfo, axis):
    """Header text of every body index of an axis ('' for a header cell never filled in)."""
    if axis == "row":
        if t.hdr_cols == 0:
            return {}
        return {i: t.grid.get((i, t.hdr_cols - 1)) or "" for i in range(t.hdr_rows, N_ROWS)}
    if t.hdr_rows == 0:
        return {}
    return {i: t.grid.get((t.hdr_rows - 1, i)) or "" for i in range(t.hdr_cols, N_COLS)}


def input_class(doc: DocModel, target, spec):
    """Coarse description of the *input* for failure identities (never used for a verdict):
    pattern  = for row/column references, whether begin and end carry a header text that is unique
               on its axis ('L') or not ('N': no header, header index, or text repeated on the axis);
    blank    = such a text is empty (header cell never filled in);
    both_axes = such a text also labels the other axis of the same table;
    repeated_elsewhere = such a text occurs more than once on one axis of some other table."""
    shape, sb, se = stored_target(spec)
    d = {"pattern": "-", "blank": False, "both_axes": False, "repeated_elsewhere": False}
    if shape == "cells":
        return d
    axis = "row" if shape == "rows" else "col"
    t = doc.by_uid[tuple(target)]
    texts = _axis_texts(t, axis)
    cross = list(_axis_texts(t, "col" if axis == "row" else "row").values())
    pat = []
    for p in (sb, se):
        i = p[0] if axis == "row" else p[1]
        txt = texts.get(i)
        ok = txt is not None and list(texts.values()).count(txt) == 1
        pat.append("L" if ok else "N")
        if ok:
            d["blank"] |= txt == ""
            d["both_axes"] |= txt in cross
            for o in doc.tables:
                if o is not t and any(list(_axis_texts(o, a).values()).count(txt) > 1 for a in ("row", "col")):
                    d["repeated_elsewhere"] = True
    d["pattern"] = "..".join(pat)
    return d


def relation(doc: DocModel, host, target):
    """Coarse class of a (host table, target table) pair, used in failure identities."""
    h, t = doc.by_uid[tuple(host)], doc.by_uid[tuple(target)]
    if h is t:
        return "self"
    if h.sheet == t.sheet:
        return "same-sheet"
    n = sum(1 for x in doc.tables if x.name == t.name)
    in_host_sheet = any(x.name == t.name for x in doc.tables if x.sheet == h.sheet)
    if n == 1:
        return "other-sheet/unique-name"
    return "other-sheet/name-in-host-sheet" if in_host_sheet else "other-sheet/name-duplicated"


# --------------------------------------------------------------------------------------------
# reference sets
# --------------------------------------------------------------------------------------------
def refs_full(coords, encs=(0,)):
    """Every reference kind x every absolute/relative combination x every target coordinate pair
    over `coords` (end-points in both orders)."""
    import itertools

    B = (False, True)
    out = []
    for r in coords:
        for ra in B:
            out.append(["row", r, ra])
            out.append(["col", r, ra])
        for c in coords:
            for ra, ca in itertools.product(B, B):
                out.append(["cell", r, c, ra, ca])
    for r0, r1 in itertools.product(coords, coords):
        for a0, a1 in itertools.product(B, B):
            for enc in encs if r0 == r1 and a0 == a1 else (0,):
                out.append(["tract", r0, r1, None, None, a0, a1, False, False, enc])
                out.append(["tract", None, None, r0, r1, False, False, a0, a1, enc])
        for c0, c1 in itertools.product(coords, coords):
            for bits in itertools.product(B, repeat=4):
                ra0, ra1, ca0, ca1 = bits
                for enc in encs if (r0 == r1 and ra0 == ra1) or (c0 == c1 and ca0 == ca1) else (0,):
                    out.append(["tract", r0, r1, c0, c1, ra0, ra1, ca0, ca1, enc])
                out.append(["colon", r0, c0, ra0, ca0, r1, c1, ra1, ca1])
    return out


def refs_qualification(body):
    """Reduced set used where the naming configuration is the varied dimension: every single row /
    column and every row / column span over `body` with every marker combination, a few cells and
    rectangles."""
    import itertools

    B = (False, True)
    lo, hi = body[0], body[-1]
    out = []
    for ra, ca in itertools.product(B, B):
        out.append(["cell", lo, hi, ra, ca])
        out.append(["cell", hi, lo, ra, ca])
        out.append(["tract", lo, hi, lo, hi, ra, ra, ca, ca, 0])
        out.append(["tract", hi, lo, hi, hi, ra, not ra, ca, not ca, 0])
        out.append(["colon", lo, lo, ra, ca, hi, hi, ca, ra])
        out.append(["colon", hi, lo, ra, not ca, lo, hi, ra, ca])
    for i in body:
        for a in B:
            out.append(["row", i, a])
            out.append(["col", i, a])
    for i, j in itertools.product(body, body):
        for a0, a1 in itertools.product(B, B):
            out.append(["tract", i, j, None, None, a0, a1, False, False, 0])
            out.append(["tract", None, None, i, j, False, False, a0, a1, 0])
    return out


def refs_qualification_small(body):
    """Subset of refs_qualification for documents with many tables (the pair count is quadratic)."""
    import itertools

    B = (False, True)
    lo, hi = body[0], body[-1]
    out = [["cell", lo, hi, False, False], ["cell", hi, lo, True, True], ["cell", lo, lo, False, True], ["cell", hi, hi, True, False],
           ["tract", lo, hi, lo, hi, False, False, False, False, 0], ["tract", hi, lo, hi, hi, True, False, False, True, 0],
           ["colon", lo, lo, False, False, hi, hi, False, False], ["colon", hi, lo, True, False, lo, hi, False, True]]
    for i in body:
        for a in B:
            out.append(["row", i, a])
            out.append(["col", i, a])
    for i, j in ((lo, hi), (hi, lo), (lo, lo)):
        for a0, a1 in itertools.product(B, B):
            out.append(["tract", i, j, None, None, a0, a1, False, False, 0])
            out.append(["tract", None, None, i, j, False, False, a0, a1, 0])
    return out


def body_of(scheme):
    return (2, 3) if scheme == "hdr2" else (1, 2, 3)


# --------------------------------------------------------------------------------------------
# texts for C18
# --------------------------------------------------------------------------------------------
def text_configs(tier):
    cfgs = []
    shapes = [(1, 1), (1, 2), (2, 1), (2, 2)] if tier == "quick" else [(1, 1), (1, 2), (2, 1), (2, 2), (3, 1), (3, 2), (2, 3)]
    for s, t in shapes:
        for names in canonical_name_configs(s, t, ordered=False):
            for scheme in SCHEMES:
                cfgs.append((names, scheme))
    return cfgs


def _texts_of_config(arg):
    names, scheme, seed = arg
    b = Built(names, scheme, seed)
    body = body_of(scheme)
    host_rc = (body[-1], body[0])
    texts = set()
    for host in b.tables:
        for target in b.tables:
            for spec in refs_qualification(body):
                try:
                    txt = b.render(host, host_rc, target, spec)
                except Exception:  # noqa: BLE001 - a rendering crash yields no text (C09 reports it)
                    continue
                if isinstance(txt, str):
                    texts.add(txt)
    return sorted(texts)


def rendered_reference_texts(tier="quick", seed=0, jobs=4):
    """Every distinct reference text the library's reader renders over the C09 naming
    configurations (table-name collision patterns x header-label schemes x all host/target table
    pairs x cells, rectangles, rows, columns and spans with every '$' combination). Sorted list."""
    from mc.pool import pmap

    texts = set()
    for res in pmap(_texts_of_config, [(n, s, seed) for n, s in text_configs(tier)], jobs):
        if isinstance(res, dict):  # worker crash record from pmap
            raise RuntimeError(res["harness_errors"][0])
        texts.update(res)
    return sorted(texts)
