"""Reference model for C14: date/time directives, format composition and duration read-back.

Written from docs/api/datetime.rst (field, range, padding) with integer arithmetic on the
`datetime` fields only - no strftime, no numbers_parser import. Oracle decisions (DESIGN.md C14):
  * `y`     : documented "0..99" but the reference workbook / Numbers render the full year -> unpadded year
  * `yyyy`  : padding below year 1000 is not documented -> compared numerically there (also `y`)
  * `ww`    : padding not stated -> compared numerically; week = (day_of_year + 6 - weekday) // 7
  * `W`     : "first week is zero"; weeks start on Monday as the `ww` row states
  * `S..SSSSS`: leading digits of the 6-digit microsecond (truncation)
A format is a list of parts  ("f", directive) | ("l", literal non-alphabetic text) | ("q", quoted text);
its text is the concatenation of the parts' renderings.
"""
from __future__ import annotations

import re

DAYS = ["Monday", "Tuesday", "Wednesday", "Thursday", "Friday", "Saturday", "Sunday"]
MONTHS = ["January", "February", "March", "April", "May", "June", "July", "August", "September",
          "October", "November", "December"]
_CUM = [0, 31, 59, 90, 120, 151, 181, 212, 243, 273, 304, 334]


def is_leap(y):
    return y % 4 == 0 and (y % 100 != 0 or y % 400 == 0)


def day_of_year(x):
    return _CUM[x.month - 1] + x.day + (1 if x.month > 2 and is_leap(x.year) else 0)


def days_before_year(y):
    y -= 1
    return y * 365 + y // 4 - y // 100 + y // 400


def weekday(x):
    """Monday = 0 (proleptic Gregorian; 0001-01-01 is a Monday)."""
    return (days_before_year(x.year) + day_of_year(x) - 1) % 7


def week_of_year(x):
    return (day_of_year(x) + 6 - weekday(x)) // 7


def week_of_month0(x):
    first_wd = (weekday(x) - (x.day - 1)) % 7
    return (x.day - 1 + first_wd) // 7


def _pad(n, w):
    s = str(n)
    return "0" * (w - len(s)) + s


def _us(x, n):
    return _pad(x.microsecond, 6)[:n]


# directive -> (field class it depends on, renderer). A renderer returns str (exact text) or
# int (numeric comparison: any number of leading zeros accepted).
DIRECTIVES = {
    "a": ("hour", lambda x: "am" if x.hour < 12 else "pm"),
    "EEEE": ("date", lambda x: DAYS[weekday(x)]),
    "EEE": ("date", lambda x: DAYS[weekday(x)][:3]),
    "yyyy": ("year", lambda x: _pad(x.year, 4) if x.year >= 1000 else x.year),
    "yy": ("year", lambda x: _pad(x.year % 100, 2)),
    "y": ("year", lambda x: str(x.year) if x.year >= 1000 else x.year),
    "MMMM": ("date", lambda x: MONTHS[x.month - 1]),
    "MMM": ("date", lambda x: MONTHS[x.month - 1][:3]),
    "MM": ("date", lambda x: _pad(x.month, 2)),
    "M": ("date", lambda x: str(x.month)),
    "d": ("date", lambda x: str(x.day)),
    "dd": ("date", lambda x: _pad(x.day, 2)),
    "DDD": ("date", lambda x: _pad(day_of_year(x), 3)),
    "DD": ("date", lambda x: _pad(day_of_year(x), 2)),
    "D": ("date", lambda x: str(day_of_year(x))),
    "HH": ("hour", lambda x: _pad(x.hour, 2)),
    "H": ("hour", lambda x: str(x.hour)),
    "hh": ("hour", lambda x: _pad(x.hour % 12 or 12, 2)),
    "h": ("hour", lambda x: str(x.hour % 12 or 12)),
    "k": ("hour", lambda x: str(x.hour or 24)),
    "kk": ("hour", lambda x: _pad(x.hour or 24, 2)),
    "K": ("hour", lambda x: str(x.hour % 12)),
    "KK": ("hour", lambda x: _pad(x.hour % 12, 2)),
    "mm": ("minute", lambda x: _pad(x.minute, 2)),
    "m": ("minute", lambda x: str(x.minute)),
    "ss": ("second", lambda x: _pad(x.second, 2)),
    "s": ("second", lambda x: str(x.second)),
    "W": ("date", lambda x: str(week_of_month0(x))),
    "ww": ("date", lambda x: week_of_year(x)),
    "G": ("year", lambda x: "AD"),
    "F": ("date", lambda x: str((x.day - 1) // 7 + 1)),
    "S": ("subsecond", lambda x: _us(x, 1)),
    "SS": ("subsecond", lambda x: _us(x, 2)),
    "SSS": ("subsecond", lambda x: _us(x, 3)),
    "SSSS": ("subsecond", lambda x: _us(x, 4)),
    "SSSSS": ("subsecond", lambda x: _us(x, 5)),
}
NAMES = list(DIRECTIVES)


def documented_directives(rst_path):
    """The directive column of docs/api/datetime.rst (used to pin the reference to the documentation)."""
    out = []
    with open(rst_path) as f:
        for line in f:
            m = re.match(r"^\|\s+``([A-Za-z]+)``\s+\|", line)
            if m:
                out.append(m.group(1))
    return out


def field(directive, x):
    return DIRECTIVES[directive][1](x)


def subsecond_resolved(x):
    """Outside 1900..2100 the stored double does not resolve microseconds (C01's domain)."""
    return 1900 <= x.year <= 2100


def uses_subsecond(parts):
    return any(p[0] == "f" and DIRECTIVES[p[1]][0] == "subsecond" for p in parts)


def format_text(parts):
    """The Numbers format string of a part list."""
    out = []
    for kind, text in parts:
        if kind == "f":
            out.append(text)
        elif kind == "l":
            out.append(text.replace("'", "''"))
        else:
            out.append("'" + text.replace("'", "''") + "'")
    return "".join(out)


def segments(parts, x):
    """Expected rendering as a list of segments: str (exact) | int (numeric)."""
    return [field(text, x) if kind == "f" else text for kind, text in parts]


def seg_regex(seg):
    if isinstance(seg, int):
        return "0+" if seg == 0 else "0*" + str(seg)
    return re.escape(seg)


def expected_text(segs):
    return "".join(str(s) for s in segs)


def matches(segs, got):
    return isinstance(got, str) and re.fullmatch("".join(seg_regex(s) for s in segs), got, re.S) is not None


def blame(parts, segs, got):
    """If the text of exactly one directive explains the mismatch (with every occurrence of that directive
    left open, all other parts are where they should be), return it; otherwise None (structural mismatch)."""
    if not isinstance(got, str):
        return None
    hits = []
    for name in dict.fromkeys(t for k, t in parts if k == "f"):
        rx = "".join("(.*?)" if parts[j][0] == "f" and parts[j][1] == name else seg_regex(s) for j, s in enumerate(segs))
        if re.fullmatch(rx, got, re.S):
            hits.append(name)
    return hits[0] if len(hits) == 1 else None


# ------------------------------------------------------------------------------------------
# durations
UNIT_NAMES = ["week", "day", "hour", "minute", "second", "millisecond"]
UNIT_CODE = {"week": 1, "day": 2, "hour": 4, "minute": 8, "second": 16, "millisecond": 32}
UNIT_MS = {"week": 604_800_000, "day": 86_400_000, "hour": 3_600_000, "minute": 60_000, "second": 1000,
           "millisecond": 1}
SHORT_LABEL = {"w": "week", "d": "day", "h": "hour", "m": "minute", "s": "second", "ms": "millisecond"}
STYLES = {0: "compact", 1: "short", 2: "long"}


def unit_pairs():
    """Every (largest, smallest) with largest >= smallest: 21 pairs."""
    return [(UNIT_NAMES[i], UNIT_NAMES[j]) for i in range(6) for j in range(i, 6)]


def units_between(largest, smallest):
    return UNIT_NAMES[UNIT_NAMES.index(largest): UNIT_NAMES.index(smallest) + 1]


def timedelta_ms(td):
    """Exact integer milliseconds of a timedelta that is a multiple of 1 ms (else None)."""
    us = (td.days * 86400 + td.seconds) * 1_000_000 + td.microseconds
    return us // 1000 if us % 1000 == 0 else None


def read_duration(text, style):
    """Read a displayed duration back: list of (unit name | None, int). Raises ValueError."""
    if not isinstance(text, str) or not text:
        raise ValueError("empty")
    if style == 0:
        toks = text.split(":")
        if "." in toks[-1]:
            # seconds with a decimal point: the fraction is milliseconds only when it has three digits
            sec, _, frac = toks[-1].partition(".")
            if not re.fullmatch(r"\d{3}", frac):
                raise ValueError(f"decimal fraction {frac!r} is not three digits")
            toks[-1:] = [sec, frac]
        if not all(re.fullmatch(r"\d+", t) for t in toks):
            raise ValueError("compact text is not digits separated by ':' (and one '.')")
        return [(None, int(t)) for t in toks]
    if style == 1:
        toks = text.split(" ")
        out = []
        for t in toks:
            m = re.fullmatch(r"(\d+)(ms|w|d|h|m|s)", t)
            if not m:
                raise ValueError(f"short token {t!r}")
            out.append((SHORT_LABEL[m.group(2)], int(m.group(1))))
        return out
    out = []
    pos = 0
    rx = re.compile(r"(\d+) (week|day|hour|minute|second|millisecond)s?( |$)")
    while pos < len(text):
        m = rx.match(text, pos)
        if not m:
            raise ValueError(f"long text at {text[pos:]!r}")
        out.append((m.group(2), int(m.group(1))))
        pos = m.end()
    return out


def check_duration(text, style, total_ms, units=None):
    """Oracle: `text`, read back unit by unit, equals total_ms truncated to the smallest unit shown
    (the units add up to the truncated value and every unit below the largest carries into the next).

    units: the unit names that must be shown (explicit formats); None = take them from the labels
    (automatic units, labelled styles). Returns (ok, pattern, shown_units, detail)."""
    try:
        toks = read_duration(text, style)
    except ValueError as e:
        return False, "unreadable", None, str(e)
    labels = [u for u, _ in toks]
    if style == 0:
        if units is None:
            return False, "no-units-for-compact", None, "compact text needs the unit list"
        if len(toks) != len(units):
            return False, "unit-count", None, f"{len(toks)} numbers shown for units {units}"
        shown = list(units)
    else:
        shown = labels
        if units is not None and labels != list(units):
            return False, "unit-labels", shown, f"units shown {labels}, format selects {list(units)}"
        idx = [UNIT_NAMES.index(u) for u in labels]
        if idx != sorted(set(idx)):
            return False, "unit-order", shown, f"units shown {labels}"
    total = sum(UNIT_MS[u] * n for u, (_, n) in zip(shown, toks))
    small = UNIT_MS[shown[-1]]
    want = total_ms // small * small
    if total == want:
        # unit by unit: each unit below the largest shows its own component, i.e. stays below the next unit
        rest, canon = want, []
        for u in shown:
            canon.append(rest // UNIT_MS[u])
            rest -= canon[-1] * UNIT_MS[u]
        if [n for _, n in toks] != canon:
            return False, "carry", shown, f"units add up but are not carried: shown {[n for _, n in toks]}, components {canon}"
        return True, "ok", shown, ""
    if total == want + small and total_ms % small:
        pat = "rounded-up"
    elif total < want:
        pat = "too-small"
    else:
        pat = "too-large"
    return False, pat, shown, f"reads back as {total} ms, value truncated to {shown[-1]} is {want} ms"


